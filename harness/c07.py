"""C07 - termination and timeout take down the whole step process group.

Correspondence: the real robsd-exec (rebuilt with -DROBSD_VERIF, sync points of
hooks/step-exec-syncpoints.diff) is driven by tools/kl_sched.py through the
same scheduler script the extracted Coq model (Exec/KillDefs.v, `interp`)
interprets; the step is tools/proctree.c building a process tree from a
description.  Observation = (how the runner ended, main reaped?, who is alive
in the step's group per /proc, which signals the runner sent).  Oracle = the
extracted `spec_okb` (Exec/KillSpec.v) applied to what the implementation did.

The handshake (waiteof) and its "process group failure" path are driven too:
tools/kl_hold.c, an LD_PRELOAD shim, stops the forked child of robsd-exec
before setsid(2) with the protocol of VERIF_POINT (script ops H / U), so the
runner's 1000 ms handshake expires; op E lets the configured timeout pass.
"""
import hashlib, json, os, re, subprocess, sys
from concurrent.futures import ThreadPoolExecutor
import common

TRANSLATORS = ['t_kill']
TRUSTED = [
    'ASSUMED, not verified (kernel model of Exec/KillDefs.v): kill(-pgid) reaches exactly the live members of the '
    'step\'s group, SIGKILL kills, SIGTERM kills default-disposition members, waitpid reaps only the main process, '
    'a handled signal interrupts a blocking waitpid (no SA_RESTART) and otherwise only sets gotsig, the default '
    'action of SIGTERM ends the runner; delivery latency, PID reuse, members that leave the group (setsid/setpgid), '
    'members forking during the kill and uninterruptible processes are not modelled',
    'the waiteof() handshake is modelled (hpolls reads, then the "process group failure" path); the child being slow is '
    'an environment choice (label LUp); a child that dies before closing the pipe (setsid failure) is not modelled',
    'sync-point hook verif.h/step-exec.c (ROBSD_VERIF), tools/kl_sched.py (scheduler, /proc scanner), tools/proctree.c (probe), '
    'tools/kl_hold.c (LD_PRELOAD shim: sync point in the forked child before setsid; log of the kill(2) calls)',
    'which signals the runner sent to the group is read from its kill(2) calls (interposed by tools/kl_hold.c), which waitpid it is '
    'blocked in from /proc/<pid>/syscall (first argument of wait4: -pid = step_exec, pid = the failure path of step_fork); the runner\'s '
    'words on stderr are recorded and compared but decide nothing, except "process group failure" for a runner that was never '
    'seen blocked on the failure path',
    'exitstatus(): KillDefs.exitstatus is proved equal to C06\'s clang-translated Gen_Exec.exitstatus for all integers '
    '(C07_exit_mapping); the translation itself is C06\'s',
]

PRE_HANDLER = ('exec.after_fork', 'exec.after_sigpipe')
PRE_WAIT = ('exec.after_sigterm', 'exec.after_sigalrm', 'exec.before_waitpid')
GROUP_FAIL = ('blocked.groupfail',)

QUICK_TREES = ['d()', 'i()', 'd(d()i())', 'ie5(d(d())de0())', 'de0(d()de7())', 'de3(d(d(i()))ie0()d())']


def count_nodes(tree):
    return tree.count('(')


def early_nodes(tree):
    """indices (preorder) of nodes with an e<code>, and of nodes ignoring SIGTERM"""
    early, ign, idx, i = [], [], -1, 0
    while i < len(tree):
        ch = tree[i]
        if ch in 'di':
            idx += 1
            if ch == 'i':
                ign.append(idx)
            if i + 1 < len(tree) and tree[i + 1] == 'e':
                early.append(idx)
        i += 1
    return early, ign


def gen_tree(rng, maxnodes=10):
    budget = [rng.randint(1, maxnodes)]

    def node(depth):
        budget[0] -= 1
        s = rng.choice('ddi')
        if rng.random() < 0.4:
            s += 'e%d' % rng.choice([0, 0, 1, 3, 7, 255, 256, 300])
        kids = ''
        while budget[0] > 0 and depth < 4 and rng.random() < (0.75 if depth < 2 else 0.4) and kids.count('(') < 9:
            kids += node(depth + 1)
        return s + '(' + kids + ')'
    return node(0)


def scripts_for(tree, rng, full):
    """(mode, timeout, script) triples aimed at the case splits of the proofs: every sync
    point x {TERM, ALRM}, second signals inside the kill phase, members exiting on their own
    before / during the kill, no event at all, events after the step has ended."""
    early, ign = early_nodes(tree)
    main_early = 0 in early
    kid_early = [i for i in early if i > 0]
    main_ign = 0 in ign
    out = []

    def add(mode, timeout, script):
        out.append((mode, timeout, [list(x) for x in script]))
    tail = [('F', '')] + ([('X', 0), ('F', '')] if main_early else [])
    # --- SIGTERM at every point --------------------------------------------------
    for mode, to in (('canvas', 0), ('regress', 3600)):
        pts = ['exec.after_fork', 'exec.after_sigpipe', 'exec.after_sigterm', 'exec.before_waitpid']
        if to > 0:
            pts.insert(3, 'exec.after_sigalrm')
        if not full and mode == 'regress':
            pts = ['exec.after_sigalrm']
        for p in pts:
            add(mode, to, [('R', p), ('S', 'TERM')] + tail)
    add('canvas', 0, [('B', ''), ('S', 'TERM'), ('F', '')])
    add('regress', 3600, [('B', ''), ('S', 'TERM'), ('F', '')])
    # --- SIGALRM: the runner's own alarm(1) and a directly delivered one -----------
    add('regress', 1, [('B', ''), ('S', 'ALRMREAL'), ('F', '')])
    add('regress', 3600, [('B', ''), ('S', 'ALRM'), ('F', '')])
    add('regress', 1, [('R', 'exec.before_waitpid'), ('S', 'ALRMREAL')] + tail)
    add('regress', 3600, [('R', 'exec.before_waitpid'), ('S', 'ALRM')] + tail)
    # --- second signal inside the kill phase -------------------------------------------
    kpts = ['exec.wait_interrupted', 'kill.before_term', 'kill.after_term']
    if main_ign:
        kpts += ['kill.before_kill', 'kill.after_kill']
    for p in (kpts if full else [rng.choice(kpts)]):
        add('regress', 3600, [('B', ''), ('S', 'TERM'), ('R', p), ('S', 'ALRM'), ('F', '')])
        add('regress', 3600, [('B', ''), ('S', 'ALRM'), ('R', p), ('S', 'TERM'), ('F', '')])
    # --- repeated termination requests: robsd-kill's `while pkill -f "^robsd-exec ..."; do sleep .1; done` sends SIGTERM
    #     again and again until the runner is gone; the runner must go on waiting / escalating all the same -----------
    add('canvas', 0, [('B', ''), ('S', 'TERM'), ('R', 'kill.after_term'), ('S', 'TERM'), ('F', '')])
    add('canvas', 0, [('R', 'exec.after_sigterm'), ('S', 'TERM'), ('B', ''), ('S', 'TERM'), ('F', '')])   # the resend heals window 2
    if full or main_ign:
        add('regress', 3600, [('B', ''), ('S', 'TERM'), ('R', 'exec.wait_interrupted'), ('S', 'TERM'), ('R', 'kill.after_term'),
                              ('S', 'TERM'), ('F', '')])
    if main_ign:
        add('canvas', 0, [('B', ''), ('S', 'TERM'), ('R', 'kill.before_kill'), ('S', 'TERM'), ('F', '')])
    # --- members exiting on their own ------------------------------------------------------
    if main_early:
        add('canvas', 0, [('B', ''), ('X', 0), ('F', '')])                       # no event
        add('canvas', 0, [('R', 'exec.before_waitpid'), ('X', 0), ('F', '')])    # dead before the wait
        add('regress', 3600, [('R', 'exec.after_fork'), ('X', 0), ('F', '')])
        add('canvas', 0, [('B', ''), ('S', 'TERM'), ('R', 'exec.wait_interrupted'), ('X', 0), ('F', '')])
        add('canvas', 0, [('B', ''), ('S', 'TERM'), ('R', 'kill.after_term'), ('X', 0), ('F', '')])
        add('regress', 3600, [('B', ''), ('S', 'ALRM'), ('R', 'kill.before_term'), ('X', 0), ('F', '')])
        add('canvas', 0, [('R', 'exec.before_waitpid'), ('X', 0), ('S', 'TERM'), ('F', '')])
        # after the step has ended
        add('canvas', 0, [('B', ''), ('X', 0), ('R', 'exec.after_wait'), ('S', 'TERM'), ('F', '')])
        add('regress', 3600, [('B', ''), ('X', 0), ('R', 'exec.after_wait'), ('S', 'ALRM'), ('F', '')])
        if main_ign:
            add('canvas', 0, [('B', ''), ('S', 'TERM'), ('R', 'kill.before_kill'), ('X', 0), ('F', '')])
    if kid_early:
        k = rng.choice(kid_early)
        add('canvas', 0, [('B', ''), ('X', k), ('S', 'TERM'), ('F', '')])
        add('canvas', 0, [('B', ''), ('S', 'TERM'), ('R', 'kill.after_term'), ('X', k), ('F', '')])
        if main_early:
            add('canvas', 0, [('B', ''), ('X', k), ('X', 0), ('F', '')])
    if not main_early:
        add('canvas', 0, [('B', ''), ('F', '')])                                  # nothing happens: hang, no kill
    # --- the handshake fails: the child is held before setsid for longer than waiteof's 1000 ms -----
    lanes = []
    lanes.append(('canvas', 0, [('H', ''), ('B', ''), ('S', 'TERM'), ('F', ''), ('U', '')]))       # W3, group never up
    lanes.append(('canvas', 0, [('H', ''), ('B', ''), ('U', ''), ('S', 'TERM'), ('F', '')]))       # W3, step running
    lanes.append(('regress', 1, [('H', ''), ('B', ''), ('U', ''), ('E', ''), ('F', '')]))          # timeout never armed
    lanes.append(('regress', 3600, [('H', ''), ('R', 'exec.after_sigterm'), ('S', 'TERM'), ('F', ''), ('U', ''), ('F', '')]))
    lanes.append(('canvas', 0, [('H', ''), ('R', 'exec.after_fork'), ('S', 'TERM'), ('F', ''), ('U', '')]))
    lanes.append(('regress', 3600, [('H', ''), ('R', 'exec.after_sigalrm'), ('U', ''), ('F', '')]))  # point never reached
    if main_early:
        lanes.append(('canvas', 0, [('H', ''), ('B', ''), ('U', ''), ('X', 0), ('F', '')]))        # no event: code or 1
        lanes.append(('canvas', 0, [('H', ''), ('B', ''), ('U', ''), ('X', 0), ('R', 'exec.after_wait'), ('F', '')]))
        lanes.append(('canvas', 0, [('H', ''), ('B', ''), ('U', ''), ('S', 'TERM'), ('F', ''), ('X', 0)]))
    else:
        lanes.append(('canvas', 0, [('H', ''), ('B', ''), ('U', ''), ('F', '')]))                  # no event: hang
    # the child is held, but released before the handshake expires: nothing special happens
    lanes.append(('canvas', 0, [('H', ''), ('R', 'exec.after_sigterm'), ('U', ''), ('B', ''), ('S', 'TERM'), ('F', '')]))
    for mode, to, script in (lanes if full else lanes[:3] + [rng.choice(lanes[3:])]):
        add(mode, to, script)
    return out


def make_cases(ctx, trees, full):
    cases = []
    for t in trees:
        for mode, to, script in scripts_for(t, ctx.rng, full):
            cases.append({'tree': t, 'nodes': count_nodes(t), 'mode': mode, 'timeout': to, 'script': script})
    return cases


def race_cases(ctx, n):
    """undriven: SIGTERM after a short real delay, nothing stopped"""
    cases = []
    trees = ['d()', 'd(d()d())', 'd(d(d())i())', 'd(d()d()d(d()))']
    for i in range(n):
        t = trees[i % len(trees)]
        us = ctx.rng.randint(0, 4000)       # the runner forks ~1 ms after it is started
        cases.append({'tree': t, 'nodes': count_nodes(t), 'mode': 'canvas', 'timeout': 0, 'race': True,
                      'script': [['D', us / 1000.0], ['S', 'TERM'], ['F', '']]})
    return cases


# ---- running -----------------------------------------------------------------------------

def build_probe(ctx):
    d = ctx.mkscratch('c07probe')
    exe = os.path.join(d, 'proctree')
    r = common.sh(['cc', '-O1', '-o', exe, os.path.join(common.VERIF, 'tools', 'proctree.c')])
    if r.returncode != 0:
        raise common.BuildFailure('proctree does not build: ' + r.stdout[-500:])
    hold = os.path.join(d, 'kl_hold.so')
    r = common.sh(['cc', '-O1', '-shared', '-fPIC', '-o', hold, os.path.join(common.VERIF, 'tools', 'kl_hold.c'), '-ldl'])
    if r.returncode != 0:
        raise common.BuildFailure('kl_hold.so does not build: ' + r.stdout[-500:])
    return exe, hold


def run_impl(impl, probe, hold, work, idx, case):
    d = os.path.join(work, 'c%d' % idx)
    os.makedirs(d)
    c = dict(case)
    c.update({'impl': impl, 'probe': probe, 'hold': hold, 'work': d})
    try:
        r = subprocess.run([sys.executable, os.path.join(common.VERIF, 'tools', 'kl_sched.py')], input=json.dumps(c),
                           stdout=subprocess.PIPE, stderr=subprocess.PIPE, text=True, timeout=120)
        out = json.loads(r.stdout) if r.stdout.strip() else {'error': 'no output: ' + r.stderr[-300:]}
    except subprocess.TimeoutExpired:
        out = {'error': 'scheduler timeout'}
    except ValueError as e:
        out = {'error': 'bad scheduler output: %s' % e}
    common.sh(['rm', '-rf', d])
    return out


def bits(l):
    return ''.join('1' if x else '0' for x in l) or '-'


def signame(s):
    return s if s else '-'


def history_of_obs(case, o):
    """what happened to the step, from the scheduler's delivery log (independent of the model)"""
    event = late = None
    first_where = None
    for sig, where in o['deliveries']:
        if where == 'exited':
            continue
        if where == 'exec.after_wait':
            late = sig
        else:
            event = sig
            if first_where is None:
                first_where = where
    self_ = [0] * case['nodes']
    for i in o['selfexit']:
        if i < len(self_):
            self_[i] = 1
    return event, late, self_, first_where


BEFORE_HANDSHAKE = ('exec.after_fork', 'exec.after_sigpipe', 'exec.after_sigterm')


def expected_slow(case):
    """from the script alone: was the child held while the runner was let past the handshake"""
    sc = case['script']
    if not sc or sc[0][0] != 'H':
        return False
    for op, arg in sc[1:]:
        if op == 'U':
            return False
        if op in ('B', 'F') or (op == 'R' and arg not in BEFORE_HANDSHAKE):
            return True
    return False


def slow_of_obs(o):
    """the step's group was not there within the handshake timeout (the runner said so)"""
    return 'slow' if o.get('slow') else 'intime'


def canon_obs(case, o):
    event, late, self_, _ = history_of_obs(case, o)
    res = o['result']
    result = 'hang' if res[0] == 'hang' else '%s:%d' % (res[0], res[1])
    kills = ','.join(str(k) for k in o['kills']) or '-'
    reached = ','.join('fuel' if r == 'timeout' else r for r in o['reached']) or '-'
    return ' '.join([result, o['main'], bits(o['alive']), kills, signame(event), signame(late), bits(self_), 'det', reached,
                     slow_of_obs(o)])


def model_line(case):
    toks = []
    for op, arg in case['script']:
        if op in ('B', 'F', 'H', 'U', 'E'):
            toks.append(op)
        elif op == 'S' and arg == 'ALRMREAL':
            toks.append('E')
        elif op == 'S':
            toks.append('S:' + arg)
        elif op in ('R', 'X'):
            toks.append('%s:%s' % (op, arg))
    return ' '.join(['run', str(case['timeout']), case['tree']] + toks)


def oracle_line(case, o):
    c = canon_obs(case, o).split()
    # ok <tree> <event> <late> <self> <slow> <result> <main> <alive> <kills>
    return ' '.join(['ok', case['tree'], c[4], c[5], c[6], c[9], c[0], c[1], c[2], c[3]])


def main_code(tree):
    """exit code (mod 256) with which the main process exits on its own, None if it cannot"""
    m = re.match(r'[di]e(\d+)', tree)
    return int(m.group(1)) % 256 if m else None


def untouched(case, o):
    """nobody was signalled by the runner: no kill(2) at all, and exactly the members that exited on their own are dead"""
    return (not o['kills'] and not o.get('kills_other')
            and all(o['alive'][i] == (0 if i in o['selfexit'] else 1) for i in range(case['nodes'])))


def shape_before_handler(case, o):
    """what C07_sigterm_before_handler_refuted predicts for EVERY tree and schedule: the runner is killed by the SIGTERM,
    the main process is never reaped, nothing is sent, exactly the members that do not exit on their own stay alive"""
    return o['result'] == ['killed', 15] and o['main'] != 'reaped' and untouched(case, o)


def shape_before_wait(case, o, last_sig):
    """what C07_signal_before_waitpid_refuted predicts: the signal only sets gotsig - nothing is sent, nobody touched, the
    runner is not killed; it ends only after the main process exited on its own, with exitstatus(status, gotsig) (124 for
    the alarm), or - after a failed handshake - with that code or 1; else it hangs (the event is lost)"""
    if not untouched(case, o) or o['result'][0] == 'killed':
        return False
    if o['result'][0] == 'hang':
        return True
    c, k = o['result'][1], main_code(case['tree'])
    if o.get('slow'):
        return ((o['main'] == 'reaped' and 0 in o['selfexit'] and k is not None and c == (k or 1))
                or (o['main'] != 'reaped' and c == 1))
    return o['main'] == 'reaped' and 0 in o['selfexit'] and k is not None and c == (124 if last_sig == 'ALRM' else k)


def shape_group_failure(case, o, sig):
    """what C07_signal_during_group_failure_refuted predicts: SIGTERM -> exit 1 at once, main not reaped, nothing sent;
    expiry of the timeout -> not noticed at all (the runner goes on as if nothing had happened)"""
    if not untouched(case, o) or not o.get('slow'):
        return False
    if sig == 'TERM':
        return o['result'] == ['exit', 1] and o['main'] != 'reaped'
    if o['result'][0] == 'hang':
        return True
    k = main_code(case['tree'])
    return o['result'][0] == 'exit' and o['main'] == 'reaped' and 0 in o['selfexit'] and k is not None and o['result'][1] == (k or 1)


def signature(case, o):
    """An oracle failure is one of the three KNOWN windows only when (1) the RECORDED places of the deliveries put it
    there - the first event reached the runner at a sync point of that window and no later one found it blocked in
    waitpid(-pid) - and (2) the observation has exactly the shape the window theorem predicts.  Everything else keeps a
    signature of its own."""
    event, late, self_, where = history_of_obs(case, o)
    live = [(s, w) for s, w in o['deliveries'] if w not in ('exited', 'exec.after_wait')]
    last_sig = live[-1][0] if live else None
    if event is None:
        return 'no-event-' + ('cut' if o['kills'] else 'status-or-survivors')
    # undriven runs: the scheduler only knows whether the runner sat in waitpid when the signal was sent
    pre_handler = PRE_HANDLER + (('running',) if case.get('race') else ())
    pre_wait = PRE_WAIT + (('running',) if case.get('race') else ())
    if live and live[0][0] == 'TERM' and live[0][1] in pre_handler and shape_before_handler(case, o):
        return 'sigterm-before-handler'
    if live and all(w in pre_wait for _, w in live) and shape_before_wait(case, o, last_sig):
        return 'signal-before-waitpid'
    if live and live[0][1] in GROUP_FAIL and all(w in GROUP_FAIL + ('exec.after_wait', 'exited') for _, w in o['deliveries']) \
            and shape_group_failure(case, o, live[0][0]):
        return 'signal-during-group-failure'
    tag = 'race-' if case.get('race') else ''
    if o['result'][0] != 'exit':
        return '%srunner-%s-after-event-at-%s' % (tag, o['result'][0], where)
    if o['main'] != 'reaped':
        return '%smain-not-reaped-after-event-at-%s' % (tag, where)
    if o['kills'][:1] != [15]:
        return '%sno-group-sigterm-after-event-at-%s' % (tag, where)
    return '%ssurvivor-or-status-after-event-at-%s' % (tag, where)


def literal_readings(case, o):
    """(signature, what) for every clause of the property text that this run - accepted by spec_okb - contradicts when the
    text is read literally.  Theorems C07_survivors_literal_refuted, C07_status_nonzero_literal_refuted,
    C07_timeout_status_literal_refuted state that the faithful model does the same."""
    out = []
    event, late, self_, where = history_of_obs(case, o)
    _, ign = early_nodes(case['tree'])
    gone = o['result'][0] in ('exit', 'killed')
    survivors = [i for i in range(case['nodes']) if o['alive'][i] and i not in ign]
    if event is None and gone and survivors:
        # (a) "No process of the step that keeps the default signal disposition outlives the step runner" - unconditional
        out.append(('default-member-outlives-runner-after-normal-end',
                    'no event: the step\'s main process ended by itself, the runner exited %s and left member(s) %r with the '
                    'default disposition running' % (o['result'][1], survivors)))
    if event is not None and o['result'] == ['exit', 0]:
        # (b) "... and only then exits, with a non-zero status"
        out.append(('status-zero-after-termination-request',
                    'a %s reached the runner while the step was running, the group was signalled %r and the runner exited 0 '
                    '(the main process had exited 0 by itself)' % (event, o['kills'])))
    hits = [sg for sg, w in o['deliveries'] if w == 'blocked']
    if hits and o['result'][0] == 'exit':
        # (c) "... that is 124 for a timeout": the event that found the runner in waitpid(-pid) is what takes the group down
        c124 = o['result'][1] == 124
        if hits[0] == 'ALRM' and not c124:
            out.append(('status-follows-last-signal', 'the timeout took the group down, a later SIGTERM turned the status into %d' % o['result'][1]))
        if hits[0] == 'TERM' and c124:
            out.append(('status-follows-last-signal', 'a termination request took the group down, a later alarm turned the status into 124'))
    return out


def describe(case, o):
    event, late, self_, where = history_of_obs(case, o)
    return ('tree %s, %s mode, script %s: runner %s, main %s, alive %s, runner sent %s (event %s at %s)'
            % (case['tree'], case['mode'], ' '.join('%s:%s' % (a, b) if b != '' else a for a, b in case['script']),
               o['result'], o['main'], bits(o['alive']), o['kills'], event, where))


def evaluate(ctx, cases, res, env=None):
    env = env or {}
    if 'impl' not in env:
        env['impl'] = ctx.build_impl()
        env['probe'], env['hold'] = build_probe(ctx)
        env['drv'] = ctx.build_driver('kl', withz=True)
        env['work'] = ctx.mkscratch('c07work')
        env['n'] = 0
    base = env['n']
    env['n'] += len(cases)
    with ThreadPoolExecutor(24) as ex:
        obs = list(ex.map(lambda ic: run_impl(env['impl'], env['probe'], env['hold'], env['work'], base + ic[0], ic[1]),
                          enumerate(cases)))
    # OUTSIDE the driven schedule: the real 1000 ms handshake expired although the script did not hold the child (24
    # cases run at once: the forked child was not scheduled in time - C06's finding handshake-timeout-masks-exit-zero seen
    # live).  Such a run is not the scripted schedule; it is repeated on its own, and only a repetition that shows the same
    # is judged.
    for i, (c, o) in enumerate(zip(cases, obs)):
        if 'error' not in o and not c.get('race') and o.get('slow') and not expected_slow(c):
            res.count('outside: handshake expired without the shim (machine load), case repeated')
            obs[i] = run_impl(env['impl'], env['probe'], env['hold'], env['work'], 10 ** 6 + base + i, c)
    qs = []
    for c, o in zip(cases, obs):
        if 'error' in o:
            qs += ['bad', 'bad']
            continue
        qs.append(model_line(c) if not c.get('race') else 'bad')
        qs.append(oracle_line(c, o))
    ans = common.run_driver(env['drv'], qs)
    for i, (c, o) in enumerate(zip(cases, obs)):
        res.evaluations += 1
        if 'error' in o:
            res.tie_errors.append('scheduler: %s on %s' % (o['error'][-300:], json.dumps(c)))
            continue
        m, ok = ans[2 * i], ans[2 * i + 1]
        impl_s = canon_obs(c, o)
        event, late, self_, where = history_of_obs(c, o)
        key = hashlib.sha1(json.dumps([c['tree'], c['mode'], c['script']]).encode()).hexdigest()
        env['last'] = {'model': m, 'implementation': impl_s, 'oracle_ok': ok == '1', 'stderr': o.get('stderr', '')[-300:]}
        res.count('nodes=%d' % c['nodes'])
        res.count('result=%s' % (o['result'][0] if o['result'][0] != 'exit' else 'exit:%d' % o['result'][1]))
        res.count('event=%s@%s' % (event, where) if event else ('late=%s' % late if late else 'no-event'))
        res.count('kills=%s' % (','.join(map(str, o['kills'])) or 'none'))
        if o.get('slow'):
            res.count('handshake timed out ("process group failure")')
        if o.get('held') and not o.get('slow'):
            res.count('child held, released before the handshake expired')
        if o['alive'] != o['alive_at_exit']:
            res.count('members still dying when the runner had exited')
        if c.get('race'):
            res.count('race: delivered while %s' % (o['deliveries'][0][1] if o['deliveries'] else '?'))
        if event or late or o['selfexit'] or o.get('slow'):
            res.nontrivial.add(key)
        if o.get('kills_other'):
            res.oracle_failures.append({'case': c, 'signature': 'runner-signals-something-else',
                                        'what': 'the runner called kill(2) on %r (target, signal), not on the step\'s process group: %s'
                                                % (o['kills_other'][:4], describe(c, o)), 'impl': impl_s})
        if o.get('kills_text') != o['kills']:
            res.count('the runner\'s words ("sending ... signal") differ from its kill(2) calls')
        if not c.get('race') and bool(o.get('slow')) != expected_slow(c) and o['result'][0] != 'killed':
            res.oracle_failures.append({'case': c, 'signature': 'handshake-outcome',
                                        'what': 'the runner %s "process group failure" although the child was %sheld beyond '
                                        'the handshake timeout: %s' % ('reported' if o.get('slow') else 'did not report',
                                                                       '' if expected_slow(c) else 'not ', describe(c, o)),
                                        'impl': impl_s})
        if o['strangers']:
            res.oracle_failures.append({'case': c, 'signature': 'unknown-process-in-group',
                                        'what': '%d live process(es) in the step\'s group that the probe did not report: %s'
                                        % (o['strangers'], describe(c, o)), 'impl': impl_s})
        if c.get('race'):
            if not o['ready'] and o['result'][0] == 'killed' and not any(o['alive']):
                res.count('race: runner killed before the step existed')
                continue
        elif m != impl_s:
            res.disagreements.append({'case': c, 'model': m, 'impl': impl_s, 'stderr': o.get('stderr', '')[-300:]})
        if ok != '1':
            if c.get('race'):
                res.count('race: real (undriven) hit of ' + signature(c, o))
            res.oracle_failures.append({'case': c, 'signature': signature(c, o), 'what': describe(c, o), 'impl': impl_s})
        else:
            # THE LETTER OF THE PROPERTY where the specification [spec] is more lenient (Exec/KillLiteral.v): runs the
            # oracle accepts are judged once more against the literal reading of three clauses
            for lit in literal_readings(c, o):
                res.oracle_failures.append({'case': c, 'signature': lit[0], 'what': lit[1] + ': ' + describe(c, o), 'impl': impl_s})
    return env


def load_corpus():
    import glob
    files = sorted(glob.glob(os.path.join(common.VERIF, 'corpus', 'C07', '*.json')))
    if not files:
        raise common.BuildFailure('corpus/C07 is missing or empty: the cases of the known findings would not run')
    return [json.load(open(p)) for p in files]


def run(ctx, thorough=None):
    res = common.Result()
    thorough = (ctx.tier == 'thorough') if thorough is None else thorough
    res.rule = ('process trees (depth <= 4, fan-out <= 3, TERM-ignoring and self-exiting members, main included) x scheduler '
                'scripts: SIGTERM / SIGALRM (the runner\'s own alarm(1) and a direct one) at every sync point of step_fork, '
                'step_exec and killwaitpg1 and while blocked in waitpid, second signals inside the kill phase, members '
                'exiting before / during the kill, no event, events after the step ended; the forked child held before '
                'setsid beyond the handshake timeout (SIGTERM / expiry of the timeout / nothing on the "process group '
                'failure" path) or released in time; non-trivial = a signal was delivered, the timeout passed, a member '
                'exited on its own or the handshake failed; distinct by (tree, mode, script)')
    trees = list(QUICK_TREES)
    if thorough:
        seen = set(trees)
        while len(trees) < 40:
            t = gen_tree(ctx.rng)
            if t not in seen:
                seen.add(t)
                trees.append(t)
    cases = load_corpus() + make_cases(ctx, trees, full=thorough)
    if not thorough:
        # the quick tier keeps every tree but thins the scripts of the slow (TERM-ignoring main) trees
        pass
    cases += race_cases(ctx, 400 if thorough else 24)
    res.samples = cases[:2] + cases[-1:]
    res.assumptions = ['correspondence bounds: trees of <= 10 processes, one or two signals per run; the theorems have none']
    env = {}
    chunk = 600
    for i in range(0, len(cases), chunk):
        evaluate(ctx, cases[i:i + chunk], res, env)
    res.traces_validated = res.evaluations
    res.extra['trees'] = len(trees)
    return res


def extended_search(ctx, res, proof):
    return run(ctx, thorough=True)


def replay(ctx, rep):
    case = rep.get('case') or (rep.get('first_disagreements') or [{}])[0].get('case')
    if case is None and 'tree' in rep and 'script' in rep:
        case = rep                      # a bare case (corpus file)
    if case is None:
        print(json.dumps(rep, indent=1))
        return 1
    res = common.Result()
    env = evaluate(ctx, [case], res)
    print('case:', json.dumps(case))
    last = env.get('last', {})
    print('format: <runner> <main> <alive per member> <signals sent to the group> <event> <late> <self-exits> det <outcomes> <handshake>')
    print('model says:          ', last.get('model'))
    print('implementation did:  ', last.get('implementation'))
    print('oracle (spec_okb) on the implementation:', 'ok' if last.get('oracle_ok') else 'VIOLATED')
    print('disagreements:', res.disagreements)
    print('oracle failures:', res.oracle_failures)
    print('tie errors:', res.tie_errors)
    bad = res.disagreements or res.tie_errors or [f for f in res.oracle_failures
                                                 if not common.match_known(ctx.pid, f.get('signature'))]
    for f in res.oracle_failures:
        k = common.match_known(ctx.pid, f.get('signature'))
        if k:
            print('KNOWN-FINDING: property=%s %s' % (ctx.pid, k['what']))
    return 1 if bad else 0
