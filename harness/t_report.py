"""Translator report.c / step.c / mode.h -> coq/gen/Gen_Report.v (constants, names, comparison operators and the
variants of the log excerpt the report models C05/C18 depend on).

Extracted by anchored patterns from the function bodies:
  report.c   threshold_duration_s / threshold_size_b / threshold_size_ramdisk_b, the tail length handed to last_lines,
             the delta threshold literal of report_steps and the one report_stats_duration uses, the comparison
             operators at the delta and size thresholds, the omission candidate test (exit == 0) and the skip test
             (skip == 1) of report_steps, the special step names (cvs, dpb, checkflist, end), the table of cvs logs,
             packages.diff, CHANGELOG, bsd.rd, the *.diff.N pattern, the unit boundaries and suffixes of format_size,
             which modes count failures, the replacement table of report_sanitize, and which of the two known forms
             the log excerpt has: formatted with %.*s / %s (as shipped, stops at a NUL byte) or copied with
             buffer_puts (findings/D14_report_nul.diff)
  step.c     the name steps_total_duration leaves out, the mode that uses wall clock time
  mode.h     the mode names
Whole bodies: report_step_log, canvas_report_step_log, regress_report_step_log are compared with the known texts (the D14 and D24
forms are switches); the functions whose models are hand transcriptions are pinned as text (TEXT_PINS).
Anything that no longer matches raises: the tie is reported as broken rather than guessed."""
import os, re

MODES = {'ROBSD': 'Robsd', 'ROBSD_CROSS': 'Cross', 'ROBSD_PORTS': 'Ports', 'ROBSD_REGRESS': 'Regress', 'CANVAS': 'Canvas'}
CMP = {'<=': '<=?', '<': '<?', '==': '=?'}


def coq_bytes(s):
    if isinstance(s, str):
        s = s.encode()
    return '[' + '; '.join(str(b) for b in s) + ']'


def func_body(src, name, fname='report.c'):
    m = re.search(r'^%s\([^{};]*?\)\n\{\n(.*?)^\}\n' % re.escape(name), src, re.S | re.M)
    if not m:
        raise ValueError('%s: function %s not found' % (fname, name))
    return m.group(1)


def need(pat, text, what, flags=0):
    m = re.search(pat, text, flags)
    if not m:
        raise ValueError('report.c: %s changed (pattern %r no longer matches)' % (what, pat))
    return m


def cexpr_int(e):
    """(size_t)(1024 * 1024), (size_t)1024, 60, 1024 * 1024"""
    e = re.sub(r'\(\s*(?:size_t|int|double|int64_t)\s*\)', '', e).strip()
    if not re.fullmatch(r'[0-9\s*()]+', e):
        raise ValueError('report.c: constant expression %r not understood' % e)
    return int(eval(e, {'__builtins__': {}}))


def cmp_coq(op, what):
    if op not in CMP:
        raise ValueError('report.c: comparison operator %r at %s not understood' % (op, what))
    return CMP[op]


def unescape(s):
    return s.encode().decode('unicode_escape').encode('latin1')


# ---- whole-body pins with known variants -------------------------------------------------------------------------
# report_step_log, canvas_report_step_log and regress_report_step_log are compared as whole bodies against the texts
# the models were written from; the places where two forms are known (the D14 excerpt prints, the D24 treatment of a log
# that does not exist) are switches.  Any other edit of these three functions raises.
RSL_TEMPLATE = r"""	struct buffer *bf;
	const char *log_path, *name, *str;
	size_t len;
	int rv = 0;

	arena_scope(r->scratch, s);

	if (r->mode == ROBSD_PORTS)
		rv = ports_report_step_log(r, step);
	else if (r->mode == ROBSD_REGRESS)
		rv = regress_report_step_log(r, step);
	else if (r->mode == CANVAS)
		rv = canvas_report_step_log(r, step);
	if (rv == STEP_LOG_ERROR)
		return 1;
	if (rv == STEP_LOG_HANDLED)
		return 0;

	name = step_get_field(step, "name")->str;
	if (strcmp(name, "@CVS@") == 0)
		return report_cvs_log(r) < 0 ? 1 : 0;

	log_path = step_get_log_path(r, step, &s);
	if (log_path == NULL)
		return 0;
	bf = arena_buffer_read(&s, log_path);
	if (bf == NULL) {
@MISSING@		warn("%s", log_path);
		return 1;
	}
	str = last_lines(buffer_get_ptr(bf), buffer_get_len(bf), &len, @TAIL@);
@EXCERPT@	if (len > 0 && str[len - 1] != '\n')
		buffer_putc(r->out, '\n');

	return 0;
"""
RSL_EXCERPT = {False: '\tbuffer_printf(r->out, "\\n%.*s", (int)len, str);\n',
               True: "\tbuffer_putc(r->out, '\\n');\n\tbuffer_puts(r->out, str, len);\n"}
RSL_MISSING = {False: '',
               True: "\t\t/* A log that was never written is as good as an empty one. */\n\t\tif (errno == ENOENT) {\n"
                     "\t\t\tbuffer_putc(r->out, '\\n');\n\t\t\treturn 0;\n\t\t}\n"}

CANVAS_TEMPLATE = r"""	struct buffer *bf;
	const char *log_path@STRDECL@;

	arena_scope(r->scratch, s);

	log_path = step_get_log_path(r, step, &s);
	if (log_path == NULL)
		return STEP_LOG_UNHANDLED;
	bf = arena_buffer_read(&s, log_path);
	if (bf == NULL) {
@MISSING@		warn("%s", log_path);
		return STEP_LOG_ERROR;
	}
@COPY@	return STEP_LOG_HANDLED;
"""
CANVAS_COPY = {False: ('\tstr = buffer_str(bf);\n\tbuffer_printf(r->out, "\\n%s", str);\n', ', *str'),
               True: ("\tbuffer_putc(r->out, '\\n');\n\tbuffer_puts(r->out, buffer_get_ptr(bf), buffer_get_len(bf));\n", '')}
CANVAS_MISSING = {False: '',
                  True: "\t\t/* A log that was never written is as good as an empty one. */\n\t\tif (errno == ENOENT) {\n"
                        "\t\t\tbuffer_putc(r->out, '\\n');\n\t\t\treturn STEP_LOG_HANDLED;\n\t\t}\n"}

REGRESS_TEMPLATE = r"""@STDECL@	struct buffer *bf;
	const char *log_path, *name;
	unsigned int regress_log_flags;
	int rv = 0;

	arena_scope(r->scratch, s);

	bf = arena_buffer_alloc(&s, 1 << 20);
	if (bf == NULL)
		err(1, NULL);

	name = step_get_field(step, "name")->str;
	log_path = step_get_log_path(r, step, &s);
	if (log_path == NULL) {
		warnx("step '%s' is missing mandatory log field", name);
		return STEP_LOG_ERROR;
	}
@MISSING@	regress_log_flags = REGRESS_LOG_FAILED | REGRESS_LOG_XPASSED;
	if (!is_regress_quiet(r, name))
		regress_log_flags |= REGRESS_LOG_SKIPPED | REGRESS_LOG_XFAILED;
	rv = regress_log_parse(log_path, bf, regress_log_flags);
	if (rv > 0) {
		buffer_putc(r->out, '\n');
		buffer_puts(r->out, buffer_get_ptr(bf), buffer_get_len(bf));
		return STEP_LOG_HANDLED;
	}
@RVNEG@	return STEP_LOG_UNHANDLED;
"""
# with or without the diagnostic of /repo f0fc0f7 (standard error is not modelled: no switch)
REGRESS_RVNEG = ['\tif (rv < 0)\n\t\treturn STEP_LOG_ERROR;\n', '\tif (rv < 0) {\n\t\twarn("%s", log_path);\n\t\treturn STEP_LOG_ERROR;\n\t}\n']
REGRESS_MISSING = {False: ('', ''),
                   True: ("\t/* A log that was never written is as good as an empty one. */\n"
                          "\tif (stat(log_path, &st) == -1 && errno == ENOENT)\n\t\treturn STEP_LOG_UNHANDLED;\n", '\tstruct stat st;\n')}


# Functions whose models in Report/ReportDefs.v and Report/DurationDefs.v are hand transcriptions checked by the correspondence
# harness, not generated: PINNED AS TEXT (sha256 of the body as it was when the model was written).  An edit raises - also a
# harmless one; re-read the function against the model and update the hash.
TEXT_PINS = {
    'last_lines': 'e1c4ae59d84f8ebf',                          # ReportDefs.last_lines_loop / span_back
    'report_status': '0b97e4ddd60ce186',                       # ReportDefs.last_status, report_status
    'number_of_failures_report_status': 'ba317e678c27e4aa',    # ReportDefs.count_status
    'report_steps': 'e1fbc229e4e0c2ca',                        # ReportDefs.steps_loop_gen
    'report_skip_step': 'f828f076fc3a3fea',                    # ReportDefs.skip_step
    'regress_report_skip_step': '8a5aeec990bb6d50',            # ReportDefs.regress_skip_step
    'ports_report_skip_step': '37006d4e52da9b08',              # ReportDefs.ports_skip_step
    'is_log_empty': '594f7316ea486180',                        # ReportDefs.is_log_empty / only_trace
    'report_comment': '3a56609fd12c4685',                      # ReportDefs.report_struct_rows_gen (comment), trim_lines
    'report_generate': '5dadb70c4d412d90',                     # ReportDefs.report_struct_rows_gen (order of the parts)
    'previous_builddir': '9f410b89c4304358',                   # ReportDefs.previous_builddir
    'step_get_log_path': '545166e267a0ac46',                   # the r_log = [] cases
    'format_file': '2e0756d0f8c277c7',                         # ReportDefs.format_file
}


def check_text_pins(src):
    import hashlib
    for name, want in TEXT_PINS.items():
        got = hashlib.sha256(func_body(src, name).encode()).hexdigest()[:16]
        if got != want:
            raise ValueError('report.c: %s changed (pinned as text: its model is a hand transcription; sha256 %s, expected %s)' % (name, got, want))


def pick_variant(body, variants, what):
    """variants: {key: text}; the key whose text IS the body, else raise"""
    hits = [k for k, t in variants.items() if t == body]
    if len(hits) != 1:
        raise ValueError('report.c: %s: the body is none of the %d known forms (whole-body pin)' % (what, len(variants)))
    return hits[0]


def generate(repo):
    src = open(os.path.join(repo, 'report.c')).read()
    stepc = open(os.path.join(repo, 'step.c')).read()
    modeh = open(os.path.join(repo, 'mode.h')).read()
    check_text_pins(src)
    o = []
    o.append('(* Gen_Report.v - GENERATED by harness/t_report.py from report.c, step.c, mode.h; do not edit. *)')
    o.append('From Robsd Require Import Base.Bytes Report.ReportTypes.')
    o.append('Local Open Scope N_scope.')
    o.append('')
    # ---- mode names
    names = re.findall(r'OP\((\w+),\s*"([^"]*)"\)', modeh)
    if [n for n, _ in names] != list(MODES):
        raise ValueError('mode.h: FOR_ROBSD_MODES is no longer the five known modes: %r' % names)
    o.append('Definition mode_names : list (mode * bytes) :=')
    o.append('  [' + ';\n   '.join('(%s, %s)' % (MODES[n], coq_bytes(s)) for n, s in names) + '].')
    # ---- thresholds
    m = need(r'^static int\s+threshold_duration_s = ([^;]+);', src, 'threshold_duration_s', re.M)
    o.append('Definition threshold_duration_s : Z := %d%%Z.' % cexpr_int(m.group(1)))
    m = need(r'^static size_t\s+threshold_size_b = ([^;]+);', src, 'threshold_size_b', re.M)
    o.append('Definition threshold_size_b : Z := %d%%Z.' % cexpr_int(m.group(1)))
    m = need(r'^static size_t\s+threshold_size_ramdisk_b = ([^;]+);', src, 'threshold_size_ramdisk_b', re.M)
    o.append('Definition threshold_size_ramdisk_b : Z := %d%%Z.' % cexpr_int(m.group(1)))
    # ---- format_duration_and_delta
    b = func_body(src, 'format_duration_and_delta')
    need(r'if \(delta == 0\)\n\t\treturn format_duration\(duration, s\);', b, 'format_duration_and_delta: zero delta')
    need(r'delta_abs = delta < 0 \? -delta : delta;', b, 'format_duration_and_delta: magnitude')
    m = need(r'if \(delta_abs (<=|<|>=|>|==|!=) delta_threshold\)\n\t\treturn format_duration\(duration, s\);', b,
             'format_duration_and_delta: threshold test')
    o.append('(* format_duration_and_delta: no suffix when  delta_abs %s delta_threshold *)' % m.group(1))
    o.append('Definition delta_suppressed (a thr : Z) : bool := (a %s thr)%%Z.' % cmp_coq(m.group(1), 'the delta threshold'))
    need(r'arena_sprintf\(s, "%s \(%c%s\)",\s*format_duration\(duration, s\),\s*delta < 0 \? \'-\' : \'\+\',\s*format_duration\(delta_abs, s\)\)', b,
         'format_duration_and_delta: suffix')
    b = func_body(src, 'format_duration')
    need(r'hours = duration / 3600;\n\tduration %= 3600;\n\tminutes = duration / 60;\n\tduration %= 60;\n\tseconds = duration;', b,
         'format_duration: arithmetic')
    need(r'arena_sprintf\(s, "%02d:%02d:%02d",\s*\(int\)hours, \(int\)minutes, \(int\)seconds\)', b, 'format_duration: format')
    # ---- report_stats_duration
    b = func_body(src, 'report_stats_duration')
    m = need(r'end = steps_find_by_name\(steps, "([^"]*)"\);', b, 'report_stats_duration: end step')
    name_end = m.group(1)
    need(r'if \(end != NULL\) \{\n\t\tduration = step_get_field\(end, "duration"\)->integer;\n\t\tdelta = step_get_field\(end, "delta"\)->integer;\n'
         r'\t\} else \{\n\t\tduration = steps_total_duration\(r->step_file, r->mode\);\n\t\tdelta = 0;\n\t\}', b,
         'report_stats_duration: source of the total')
    need(r'return format_duration_and_delta\(duration, delta,\s*threshold_duration_s, s\);', b, 'report_stats_duration: threshold')
    # ---- steps_total_duration (step.c)
    m = re.search(r'^steps_total_duration\([^)]*\)\n\{\n(.*?)^\}\n', stepc, re.S | re.M)
    if not m:
        raise ValueError('step.c: steps_total_duration not found')
    tb = m.group(1)
    if not re.search(r'if \(mode == ROBSD_REGRESS\) \{', tb):
        raise ValueError('step.c: steps_total_duration: wall clock mode changed')
    if not re.search(r't0 = step_get_field\(&sf->steps\[0\], "time"\)->integer;\n\t\tt1 = step_get_field\(&sf->steps\[nsteps - 1\], "time"\)->integer;\n\t\treturn t1 - t0;', tb):
        raise ValueError('step.c: steps_total_duration: wall clock difference changed')
    m = re.search(r'if \(step_get_field\(step, "skip"\)->integer == 1\)\n\t\t\tcontinue;\n(?:\t\t/\*.*?\*/\n)?'
                  r'\t\tif \(strcmp\(step_get_field\(step, "name"\)->str, "([^"]*)"\) == 0\)\n\t\t\tcontinue;\n\n'
                  r'\t\tduration \+= step_get_field\(step, "duration"\)->integer;', tb, re.S)
    if not m:
        raise ValueError('step.c: steps_total_duration: accumulation loop changed')
    if m.group(1) != name_end:
        raise ValueError('step.c/report.c: the end step is named differently (%r vs %r)' % (m.group(1), name_end))
    o.append('Definition name_end : bytes := %s.' % coq_bytes(name_end))
    # ---- report_steps
    b = func_body(src, 'report_steps')
    m = need(r'if \(step_get_field\(step, "skip"\)->integer (==|!=|<=|>=|<|>) (-?\d+)\)\n\t\t\tcontinue;', b, 'report_steps: skip test')
    o.append('(* report_steps: a row is passed over when  skip %s %s *)' % (m.group(1), m.group(2)))
    o.append('Definition row_skipped (s : Z) : bool := (s %s %s)%%Z.' % (cmp_coq(m.group(1), 'the skip test'), m.group(2)))
    m = need(r'if \(step_get_field\(step, "exit"\)->integer (==|!=|<=|>=|<|>) (-?\d+)\) \{\n\t\t\tswitch \(report_skip_step\(r, step\)\) \{\n'
             r'\t\t\tcase 1:\n\t\t\t\tcontinue;\n\t\t\tcase -1:\n\t\t\t\treturn 1;\n\t\t\t\}\n\t\t\}', b, 'report_steps: omission candidates')
    o.append('(* report_steps: only rows with  exit %s %s  are candidates for omission *)' % (m.group(1), m.group(2)))
    o.append('Definition omit_candidate (e : Z) : bool := (e %s %s)%%Z.' % (cmp_coq(m.group(1), 'the omission test'), m.group(2)))
    m = need(r'duration = format_duration_and_delta\(\s*step_get_field\(step, "duration"\)->integer,\s*step_get_field\(step, "delta"\)->integer,\s*(-?\d+), &s\);', b,
             'report_steps: step delta threshold')
    o.append('Definition step_delta_threshold : Z := %s%%Z.' % m.group(1))
    need(r'buffer_printf\(r->out, "\\n> %s\\n",\s*step_get_field\(step, "name"\)->str\);', b, 'report_steps: section header')
    need(r'buffer_printf\(r->out, "Exit: %d\\n",\s*\(int\)step_get_field\(step, "exit"\)->integer\);', b, 'report_steps: exit line')
    need(r'buffer_printf\(r->out, "Duration: %s\\n", duration\);', b, 'report_steps: duration line')
    need(r'buffer_printf\(r->out, "Log: %s\\n",\s*step_get_field\(step, "log"\)->str\);', b, 'report_steps: log line')
    # ---- report_status
    b = func_body(src, 'report_status')
    m = need(r'if \(((?:r->mode == \w+)(?: \|\| r->mode == \w+)*)\)\n\t\treturn number_of_failures_report_status\(r, s\);', b,
             'report_status: modes that count failures')
    cm = re.findall(r'r->mode == (\w+)', m.group(1))
    for c in cm:
        if c not in MODES:
            raise ValueError('report.c: unknown mode %s in report_status' % c)
    o.append('Definition count_status_modes : list mode := [%s].' % '; '.join(MODES[c] for c in cm))
    need(r'return arena_sprintf\(s, "failed in %s", name\);', b, 'report_status: failure text')
    b = func_body(src, 'number_of_failures_report_status')
    need(r'if \(step_get_field\(&steps\[i\], "exit"\)->integer != 0\)\n\t\t\tnfailures\+\+;', b, 'failure count')
    need(r'return arena_sprintf\(s, "%d failure%s",\s*nfailures, nfailures > 1 \? "s" : ""\);', b, 'failure count text')
    # ---- report_skip_step and friends
    b = func_body(src, 'report_skip_step')
    need(r'if \(r->mode == ROBSD_PORTS\)\n\t\treturn ports_report_skip_step\(r, step\);\n\tif \(r->mode == ROBSD_REGRESS\)\n\t\treturn regress_report_skip_step\(r, step\);', b,
         'report_skip_step: dispatch')
    m = need(r'if \(strcmp\(name, "([^"]*)"\) == 0\)\n\t\treturn 0;\n\tif \(strcmp\(name, "([^"]*)"\) == 0 && !is_log_empty\(r, step\)\)\n\t\treturn 0;\n\treturn 1;', b,
             'report_skip_step: names')
    name_cvs, name_checkflist = m.group(1), m.group(2)
    b = func_body(src, 'ports_report_skip_step')
    m = need(r'if \(strcmp\(name, "([^"]*)"\) == 0\)\n\t\treturn 0;\n\tif \(strcmp\(name, "([^"]*)"\) == 0\)\n\t\treturn 0;\n\treturn 1;', b,
             'ports_report_skip_step: names')
    ports_shown = [m.group(1), m.group(2)]
    b = func_body(src, 'ports_report_step_log')
    m = need(r'if \(strcmp\(name, "([^"]*)"\) == 0\)\n\t\treturn report_cvs_log\(r\);\n\tif \(strcmp\(name, "([^"]*)"\) == 0 &&\n\t    step_get_field\(step, "exit"\)->integer == 0\) \{', b,
             'ports_report_step_log: names')
    if m.group(1) != name_cvs:
        raise ValueError('report.c: the cvs step is named differently in ports_report_step_log')
    name_dpb = m.group(2)
    if ports_shown != [name_cvs, name_dpb]:
        raise ValueError('report.c: ports_report_skip_step names %r differ from %r' % (ports_shown, [name_cvs, name_dpb]))
    m = need(r'path = arena_sprintf\(&s, "%s/([^"]*)", tmpdir\);', b, 'ports_report_step_log: packages diff')
    packages_diff = m.group(1)
    b = func_body(src, 'report_step_log')
    m = need(r'if \(strcmp\(name, "([^"]*)"\) == 0\)\n\t\treturn report_cvs_log\(r\) < 0 \? 1 : 0;', b, 'report_step_log: cvs step')
    if m.group(1) != name_cvs:
        raise ValueError('report.c: the cvs step is named differently in report_step_log')
    m = need(r'str = last_lines\(buffer_get_ptr\(bf\), buffer_get_len\(bf\), &len, (\d+)\);', b, 'report_step_log: tail length')
    tail = int(m.group(1))
    rsl = {}
    for e in (False, True):
        for mi in (False, True):
            rsl[(e, mi)] = (RSL_TEMPLATE.replace('@CVS@', name_cvs).replace('@TAIL@', str(tail))
                            .replace('@EXCERPT@', RSL_EXCERPT[e]).replace('@MISSING@', RSL_MISSING[mi]))
    excerpt_copies, step_missing_empty = pick_variant(b, rsl, 'report_step_log')
    b = func_body(src, 'canvas_report_step_log')
    cvv = {}
    for e in (False, True):
        for mi in (False, True):
            cvv[(e, mi)] = (CANVAS_TEMPLATE.replace('@COPY@', CANVAS_COPY[e][0]).replace('@STRDECL@', CANVAS_COPY[e][1])
                            .replace('@MISSING@', CANVAS_MISSING[mi]))
    canvas_copies, canvas_missing_empty = pick_variant(b, cvv, 'canvas_report_step_log')
    b = func_body(src, 'regress_report_step_log')
    rgv = {(mi, wi): REGRESS_TEMPLATE.replace('@MISSING@', REGRESS_MISSING[mi][0]).replace('@STDECL@', REGRESS_MISSING[mi][1]).replace('@RVNEG@', w)
           for mi in (False, True) for wi, w in enumerate(REGRESS_RVNEG)}
    regress_missing_empty, regress_warns = pick_variant(b, rgv, 'regress_report_step_log')
    o.append('Definition name_cvs : bytes := %s.' % coq_bytes(name_cvs))
    o.append('Definition name_dpb : bytes := %s.' % coq_bytes(name_dpb))
    o.append('Definition name_checkflist : bytes := %s.' % coq_bytes(name_checkflist))
    o.append('Definition packages_diff : bytes := %s.' % coq_bytes(packages_diff))
    o.append('Definition tail_lines : nat := %d%%nat.' % tail)
    o.append('(* report_step_log: %s *)' % ('bytes copied with buffer_puts' if excerpt_copies else 'formatted with "%.*s" (stops at a NUL byte)'))
    o.append('Definition excerpt_copies_bytes : bool := %s.' % ('true' if excerpt_copies else 'false'))
    o.append('(* canvas_report_step_log: %s *)' % ('bytes copied with buffer_puts' if canvas_copies else 'formatted with "%s" (stops at a NUL byte)'))
    o.append('Definition canvas_copies_bytes : bool := %s.' % ('true' if canvas_copies else 'false'))
    # D24: a listed row whose log does not exist (ENOENT): an error that takes the whole report down (as shipped), or an empty log
    for nm, v, fn in (('step_log_missing_is_empty', step_missing_empty, 'report_step_log'),
                      ('canvas_log_missing_is_empty', canvas_missing_empty, 'canvas_report_step_log'),
                      ('regress_log_missing_is_empty', regress_missing_empty, 'regress_report_step_log')):
        o.append('(* %s: a log that does not exist %s *)' % (fn, 'is an empty log' if v else 'makes the report fail'))
        o.append('Definition %s : bool := %s.' % (nm, 'true' if v else 'false'))
    # /repo f0fc0f7: the regress path says why it fails (standard error is not a model output: the switch is a pin on the
    # source for the clause "a helper that rejects its input prints a diagnostic", observed by C12's report lane)
    o.append('(* regress_report_step_log: an unreadable log %s *)' % ('is reported with warn()' if regress_warns else 'makes the report fail WITHOUT a diagnostic'))
    o.append('Definition regress_unreadable_log_warns : bool := %s.' % ('true' if regress_warns else 'false'))
    # ---- cvs log table
    b = func_body(src, 'report_cvs_log')
    m = need(r'paths\[\] = \{\n(.*?)\n\t\};', b, 'report_cvs_log: table', re.S)
    rows = re.findall(r'\{\s*(\w+),\s*"([^"]*)"\s*\},', m.group(1))
    nl = len([l for l in m.group(1).splitlines() if l.strip()])
    if not rows or len(rows) != nl:
        raise ValueError('report.c: report_cvs_log: table has %d lines, %d understood' % (nl, len(rows)))
    for mo, _ in rows:
        if mo not in MODES:
            raise ValueError('report.c: report_cvs_log: unknown mode %s' % mo)
    o.append('Definition cvs_logs : list (mode * bytes) :=')
    o.append('  [' + ';\n   '.join('(%s, %s)' % (MODES[mo], coq_bytes(fn)) for mo, fn in rows) + '].')
    # the two known forms of the test that passes over a cvs log: only an empty file (as shipped; a file that was never
    # written makes format_file fail, D18) or also a file stat(2) cannot find (/repo da850b3, findings/D18_ports_cvs_report.diff)
    loop_tail = r'\n\t\t\tcontinue;\n\t\tif \(ncvs\+\+ > 0\)\n\t\t\tbuffer_putc\(r->out, \'\\n\'\);\n\t\tif \(format_file\(r, path\)\)\n\t\t\treturn STEP_LOG_ERROR;'
    if re.search(r'if \(stat\(path, &st\) == 0 && st\.st_size == 0\)' + loop_tail, b):
        cvs_missing_skipped = False
    elif re.search(r'(?:/\*[^\n]*\*/\n\t\t)?if \(stat\(path, &st\) == -1 \|\| st\.st_size == 0\)' + loop_tail, b):
        cvs_missing_skipped = True
    else:
        raise ValueError('report.c: report_cvs_log: loop: pattern no longer matches')
    o.append('(* report_cvs_log: a cvs log that %s *)' % ('does not exist is passed over like an empty one' if cvs_missing_skipped
                                                         else 'does not exist makes the report fail (only an empty one is passed over)'))
    o.append('Definition cvs_missing_skipped : bool := %s.' % ('true' if cvs_missing_skipped else 'false'))
    # ---- regress flags
    b = func_body(src, 'regress_report_skip_step')
    need(r'if \(regress_log_peek\(log_path,\n\t    REGRESS_LOG_SKIPPED \| REGRESS_LOG_XFAILED\) > 0\)\n\t\treturn 0;\n\treturn 1;', b, 'regress_report_skip_step: peek flags')
    need(r'if \(!is_regress_step\(r, name\) \|\| is_regress_quiet\(r, name\)\)\n\t\treturn 1;', b, 'regress_report_skip_step: suite test')
    b = func_body(src, 'regress_report_step_log')
    need(r'regress_log_flags = REGRESS_LOG_FAILED \| REGRESS_LOG_XPASSED;\n\tif \(!is_regress_quiet\(r, name\)\)\n\t\tregress_log_flags \|= REGRESS_LOG_SKIPPED \| REGRESS_LOG_XFAILED;', b,
         'regress_report_step_log: flags')
    # ---- sizes
    b = func_body(src, 'report_stats_sizes')
    m = need(r'if \(strcmp\(entry->basename, "([^"]*)"\) == 0 \|\|\n\t\t    fnmatch\("([^"]*)", entry->basename, 0\) == 0\)\n\t\t\tcontinue;', b, 'report_stats_sizes: exclusions')
    changelog, pattern = m.group(1), m.group(2)
    if pattern != '*.diff.[[:digit:]]*':
        raise ValueError('report.c: report_stats_sizes: exclusion pattern %r is not the modelled *.diff.[[:digit:]]*' % pattern)
    m = need(r'if \(strcmp\(entry->basename, "([^"]*)"\) == 0\) \{\n\t\t\tif \(delta_abs (<=|<|>=|>) threshold_size_ramdisk_b\)\n\t\t\t\tcontinue;\n'
             r'\t\t\} else if \(delta_abs (<=|<|>=|>) threshold_size_b\) \{\n\t\t\tcontinue;\n\t\t\}', b, 'report_stats_sizes: threshold tests')
    o.append('Definition name_changelog : bytes := %s.' % coq_bytes(changelog))
    o.append('Definition name_ramdisk : bytes := %s.' % coq_bytes(m.group(1)))
    o.append('(* report_stats_sizes: bsd.rd passed over when  delta_abs %s threshold_size_ramdisk_b,  others when  delta_abs %s threshold_size_b *)'
             % (m.group(2), m.group(3)))
    o.append('Definition size_below_ramdisk (a thr : Z) : bool := (a %s thr)%%Z.' % cmp_coq(m.group(2), 'the ramdisk size threshold'))
    o.append('Definition size_below (a thr : Z) : bool := (a %s thr)%%Z.' % cmp_coq(m.group(3), 'the size threshold'))
    need(r'size = \(size_t\)st\.st_size;\n\t\tdelta = st\.st_size - prev_st\.st_size;\n\t\tdelta_abs = \(size_t\)\(delta < 0 \? -delta : delta\);', b,
         'report_stats_sizes: delta')
    need(r'str = arena_sprintf\(&s, "Size: %s %s \(%c%s\)",\s*entry->basename, format_size\(size, &s\),\s*delta < 0 \? \'-\' : \'\+\', format_size\(delta_abs, &s\)\);', b,
         'report_stats_sizes: line format')
    b = func_body(src, 'report_stats')
    need(r'if \(r->mode == ROBSD\)\n\t\terror = report_stats_sizes\(r\);', b, 'report_stats: sizes only in robsd mode')
    b = func_body(src, 'format_size')
    m = need(r'if \(size >= ([^{]+?)\) \{\n\t\tdiv = ([^;]+);\n\t\tprefix = "([^"]*)";\n\t\} else if \(size >= ([^{]+?)\) \{\n\t\tdiv = ([^;]+);\n\t\tprefix = "([^"]*)";\n\t\}', b,
             'format_size: units')
    u1, d1, p1, u2, d2, p2 = cexpr_int(m.group(1)), cexpr_int(m.group(2)), m.group(3), cexpr_int(m.group(4)), cexpr_int(m.group(5)), m.group(6)
    if u1 != d1 or u2 != d2:
        raise ValueError('report.c: format_size: unit boundary and divisor differ (%d/%d, %d/%d)' % (u1, d1, u2, d2))
    for d in (d1, d2):
        if d <= 0 or d & (d - 1):
            raise ValueError('report.c: format_size: divisor %d is not a power of two (the exact rounding model needs it)' % d)
    need(r'return arena_sprintf\(s, "%\.01f%s", size / div, prefix\);', b, 'format_size: format')
    o.append('Definition size_units : list (Z * bytes) := [(%d%%Z, %s); (%d%%Z, %s)].' % (u1, coq_bytes(p1), u2, coq_bytes(p2)))
    # ---- sanitize
    b = func_body(src, 'report_sanitize')
    cases = re.findall(r"case '(\\?.)':\n\t\t\tbuffer_printf\(bf, \"([^\"]*)\"(, \(unsigned char\)c)?\);\n\t\t\tbreak;", b)
    if not cases or not re.search(r'default:\n\t\t\tbuffer_putc\(bf, c\);', b):
        raise ValueError('report.c: report_sanitize: switch changed')
    if len(cases) != len(re.findall(r'\bcase\b', b)):
        raise ValueError('report.c: report_sanitize: a case was not understood')
    tab = []
    for ch, fmt, arg in cases:
        c = unescape(ch)[0]
        if arg:
            if fmt != '\\\\x%02x':
                raise ValueError('report.c: report_sanitize: format %r not understood' % fmt)
            rep = b'\\x%02x' % c
        else:
            if '%' in fmt:
                raise ValueError('report.c: report_sanitize: format %r not understood' % fmt)
            rep = unescape(fmt)
        tab.append('(%d, %s)' % (c, coq_bytes(rep)))
    o.append('Definition sanitize_table : list (N * bytes) := [%s].' % '; '.join(tab))
    # ---- subject / stats line formats (modelled by hand; checked to be the ones modelled)
    need(r'buffer_printf\(r->out, "Subject: %s: %s:%s%s\\n\\n",\s*mode, hostname, status_prefix, status\);', func_body(src, 'report_subject'), 'report_subject: format')
    need(r'buffer_printf\(r->out, "Subject: %s: %s: %s\\n\\n",\s*robsd_mode_str\(r->mode\), canvas_name, report_status\(r, &s\)\);', func_body(src, 'canvas_report_subject'),
         'canvas_report_subject: format')
    b = func_body(src, 'report_stats')
    need(r'buffer_printf\(r->out, "> stats\\n"\);\n\tbuffer_printf\(r->out, "Status: %s\\n", report_status\(r, &s\)\);\n'
         r'\tbuffer_printf\(r->out, "Duration: %s\\n", report_stats_duration\(r, &s\)\);\n\tbuffer_printf\(r->out, "Build: %s\\n", r->builddir\);', b, 'report_stats: lines')
    o.append('')
    return {'Gen_Report.v': '\n'.join(o)}


if __name__ == '__main__':
    import sys
    print(generate(sys.argv[1] if len(sys.argv) > 1 else '/repo')['Gen_Report.v'])
