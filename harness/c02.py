"""C02 - concurrent robsd-step writers/readers: real processes driven through the sync points of step.c
(hook ROBSD_VERIF) along generated schedules; the observed event trace is replayed on the Coq transition
system; the serialisability oracle is applied to what the processes really left and printed."""
import hashlib, json, glob, os, signal, subprocess, time, errno
import common
from common import hexs

TRANSLATORS = ['t_step', 't_interp', 't_lock']
TRUSTED = ['tools/chaos_preload.c (LD_PRELOAD shim: random delays for the undriven lane, call trace with file sizes for the call-order lane)',
           'translator t_lock.py (step.c / robsd-step.c: the order of open/flock/read/serialise/fopen/fwrite/fclose/unlock/close and of the sync points; '
           'helper functions of step.c are expanded in place, error exits left out; every lock/unlock/truncate/write/close call must stand at its expected brace depth '
           'in exactly its expected statement, and no preprocessor line other than the ROBSD_VERIF points may occur in the three functions)',
           'the meaning of each call on the shared state (Lock/LockInterp.exec_op: flock grants when free, read snapshots the file, fopen("we") empties it, fwrite/fclose '
           'deliver the new content, LOCK_UN releases) is the assumption under which the generated call lists are proved to be the transitions of the model',
           'ASSUMED about libc (observed by the call-order lane only): fwrite writes the whole 4096-byte blocks of a large buffer itself and fclose the tail, '
           'so a rewrite passes through at most one intermediate content',
           'the ROBSD_VERIF sync-point hook in step.c (verif.h), this scheduler (FIFO + SIGSTOP/SIGCONT, /proc/<pid>/wchan to tell "blocked in flock")',
           'ASSUMED, not verified: flock(2) grants LOCK_EX to one holder at a time and releases it at LOCK_UN/exit; each syscall between two sync points is atomic; '
           'fopen("w") truncates at open; a process\'s output and exit status depend only on the content it read',
           'schedules are driven at sync-point granularity for 1-5 processes with arbitrary operations and for 8, 16 and 17 processes of two families; the theorem quantifies over all schedules of any number of processes',
           'CAPPED by the cost of the extracted oracle: LockSpec.spec_ok_serial enumerates the n! orders (0.3 s at n = 6, 3 s at n = 7 per failing case, 100 times that on a 100-row file), so it is asked for up to 5 processes; for more processes only two families are generated - writers of pairwise different rows with readers of one row each, and full writes of one row with readers of it - whose serial results are enumerated by harness code (c02.structured_serial: what one process does to a content and reports is still computed by the model, the argument that every order gives the same file / that the last writer decides it is the harness\'s)']

POINTS = ['step.after_open', 'step.after_lock', 'step.after_read', 'step.before_truncate', 'step.after_truncate',
          'step.after_write', 'step.after_unlock']
FULL = ['name=%s', 'exit=%s', 'duration=%s', 'user=root', 'time=%s']


def gen_op(rng, i):
    k = rng.random()
    if k < 0.62:
        idarg = rng.choice(['1', '2', '3', '2', '7'])
        kvs = ['name=' + rng.choice(['one', 'two', 'p%d' % i]), 'exit=' + rng.choice(['0', '1', '-1']), 'duration=' + str(rng.randint(-1, 90)),
               'user=root', 'time=' + str(1700000000 + rng.randint(0, 99))]
        if rng.random() < 0.3:
            kvs = [rng.choice(['exit=0', 'duration=5', 'log=00%d-x.log' % i, 'skip=1'])]     # partial update: fails on a missing row
        if rng.random() < 0.1:
            kvs.append(rng.choice(['name=a,b', 'bogus=1', 'exit=x']))                           # rejected write
        return {'kind': 'w', 'id': idarg, 'kvs': kvs}
    if rng.random() < 0.3:
        # by name: what util.sh step_eval -n does most (a fast path without the lock for -R -n would pass a generator of -i reads only)
        return {'kind': 'r', 'how': 'n', 'arg': rng.choice(['one', 'two', 'p0', 'p1', 'nosuch']),
                'template': rng.choice(['${step}:${name}:${exit}:${duration}\n', '${exit}\n'])}
    return {'kind': 'r', 'how': 'i', 'arg': rng.choice(['1', '-1', '2', '-2']),
            'template': rng.choice(['${step}:${name}:${exit}:${duration}\n', '${name} ${log}\n'])}


INIT_FILES = [b'', b'step,name,exit,duration,delta,log,user,time,skip\n1,one,0,5,0,,root,1700000000,0\n',
              b'step,name,exit,duration,delta,log,user,time,skip\n1,one,0,5,0,,root,1700000000,0\n2,two,-1,-1,0,002-two.log,root,1700000001,0\n']


# ---------------------------------------------------------------------------------------------------------------------
# Boundary SIZE / COUNT classes of the critical section (corpus/C02/b*.json first, then ~6% of the generated cases of the
# driven and of the undriven lane; `class:` lines of the input distribution):
#  * starting files of exactly 4095 / 4096 / 4097 / 8191 / 8192 / 8193 bytes and of 2 and 3 stdio blocks: the rewrite then reaches
#    the file in two write(2) calls (fwrite the whole blocks, fclose the tail) and a window between them in which the lock is
#    not held shows a block-aligned prefix to whoever gets in;
#  * 0 / 1 / 16 / 17 / 32 / 33 / 64 / 65 rows; 1, 5, 8, 16 and 17 concurrent processes; N writers of the SAME row and of N different
#    rows; one reader started between every pair of the writer's sync points; the same id written twice with the same
#    arguments; ids 2^31 apart (the merged result depends on the 64-bit sort order).
# Cap: LockSpec.spec_ok_serial enumerates all n! orders (n = 6: 0.3 s, n = 7: 3 s per failing case on a three-row file, 18 s /
# 147 s on a 100-row file), so it is asked for n <= EXACT_MAX processes; cases with more processes are generated only in two
# families whose serial results can be enumerated without the orders (structured_serial below).
BLOCK = 4096
EXACT_MAX = 5
SIZE_CLASSES = [BLOCK - 1, BLOCK, BLOCK + 1, 2 * BLOCK - 1, 2 * BLOCK, 2 * BLOCK + 1, 3 * BLOCK]
ROW_CLASSES = [0, 1, 16, 17, 32, 33, 64, 65]
HDR = b'step,name,exit,duration,delta,log,user,time,skip\n'


def brow(i, name=None, log=b''):
    return b'%d,%s,0,%d,0,%s,root,17000000%02d,0\n' % (i, name if name is not None else b'step-number-%d' % i, i % 1000, log, i % 100)


def rows_file(n):
    return HDR + b''.join(brow(i) for i in range(1, n + 1))


def sized_file(total, rowlen=120):
    """a step file of exactly `total` bytes (rows of about `rowlen` bytes, the last one padded through its log column)"""
    out, i = HDR, 0

    def nm(j):
        return (b'step-number-%d-' % j) + b'n' * max(0, rowlen - 45)
    while len(out) + len(brow(i + 1, nm(i + 1))) + len(brow(i + 2, nm(i + 2))) <= total:
        i += 1
        out += brow(i, nm(i))
    gap = total - len(out) - len(brow(i + 1, nm(i + 1)))
    if gap >= 0:
        out += brow(i + 1, nm(i + 1), b'p' * gap)
    return out


def full_w(idarg, name, t=0):
    return {'kind': 'w', 'id': str(idarg), 'kvs': ['name=%s' % name, 'exit=0', 'duration=%d' % (t % 90), 'user=root', 'time=%d' % (1700000000 + t % 100)]}


def fam_distinct(rng, n, init, nrows):
    """n processes that commute: writers of pairwise different ids (new rows, or partial updates of rows the file holds), and
    readers by a name only one row can carry - every serial order gives the same final file and the same writer reports, and
    a reader reports what its row looked like before or after the one writer of that row"""
    ops, used = [], set()
    for i in range(n):
        k = rng.random()
        if k < 0.2 and i > 0 and ops[0]['kind'] == 'w':
            j = rng.randrange(i)
            nmq = [kv[5:] for kv in ops[j]['kvs'] if kv.startswith('name=')] if ops[j]['kind'] == 'w' else []
            ops.append({'kind': 'r', 'how': 'n', 'arg': nmq[0] if nmq else 'step-number-1', 'template': '${step}:${name}:${exit}:${duration}\n'})
            continue
        if nrows and k < 0.5:
            cand = [r for r in range(1, nrows + 1) if r not in used]
            if cand:
                r = rng.choice(cand)
                used.add(r)
                ops.append({'kind': 'w', 'id': str(r), 'kvs': [rng.choice(['exit=1', 'duration=77', 'log=%03d-x.log' % r, 'skip=1'])]})
                continue
        ops.append(full_w(1000 + i, 'p%d' % i, i))
    return ops


def fam_same(rng, n, row):
    """n full writes of ONE id with the same keys (plus at most n/4 readers of that row by position): the final row is that of
    whichever writer came last, every writer exits 0, a reader sees the starting file or the row of one of the writers"""
    ops = []
    for i in range(n):
        if i > 0 and rng.random() < 0.2:
            ops.append({'kind': 'r', 'how': 'i', 'arg': str(row), 'template': '${step}:${name}:${duration}\n'})
        else:
            ops.append(full_w(row, 'same%d' % i, i))
    return ops


def gen_boundary_case(rng, lane):
    c = rng.choice(['size', 'size', 'rows', 'rows', 'procs', 'procs', 'same-row', 'reader-between', 'same-id-twice', 'ids-apart'])
    case = {'init': '', 'ops': [], 'sched': []}
    if c == 'size':
        total = rng.choice(SIZE_CLASSES + [BLOCK + rng.randint(2, 3000), 2 * BLOCK + rng.randint(2, 3000)])
        init = sized_file(total, rng.choice([60, 120, 200]))
        nrows = init.count(b'\n') - 1
        n = rng.choice([2, 2, 3])
        ops = []
        for i in range(n):
            k = rng.random()
            if k < 0.45:
                ops.append({'kind': 'w', 'id': str(rng.choice([1, nrows, max(1, nrows // 2)])), 'kvs': [rng.choice(['exit=1', 'exit=0', 'skip=1'])]})   # keeps the length
            elif k < 0.75:
                ops.append(full_w(nrows + 1 + i, 'p%d' % i, i))
            else:
                ops.append({'kind': 'r', 'how': 'i', 'arg': rng.choice(['1', '-1', str(nrows)]), 'template': '${step}:${name}:${exit}\n'})
        if not any(o['kind'] == 'w' for o in ops):
            ops[0] = full_w(nrows + 1, 'p0')
        case.update(init=init.hex(), ops=ops)
    elif c == 'rows':
        nrows = rng.choice(ROW_CLASSES)
        init = rows_file(nrows)
        n = rng.choice([2, 3, 3])
        ops = []
        for i in range(n):
            k = rng.random()
            if k < 0.5:
                ops.append(full_w(nrows + 1 + rng.choice([0, 0, 1]), 'p%d' % i, i))          # the row that makes the vector grow, possibly the same one twice
            elif k < 0.75 and nrows:
                ops.append({'kind': 'w', 'id': str(rng.choice([1, nrows])), 'kvs': ['exit=%d' % i]})
            else:
                ops.append({'kind': 'r', 'how': 'i', 'arg': rng.choice(['-1', str(nrows + 1), str(max(1, nrows))]), 'template': '${step}:${name}:${exit}\n'})
        if not any(o['kind'] == 'w' for o in ops):
            ops[0] = full_w(nrows + 1, 'p0')
        case.update(init=init.hex(), ops=ops)
    elif c == 'procs':
        n = rng.choice([1, 5, 5, 8, 8, 16, 17] if lane == 'undriven' else [1, 1, 5, 5, 5, 5, 8, 8, 8, 8, 16, 17])
        nrows = rng.choice([0, 2, 17])
        init = rows_file(nrows) if nrows else rng.choice([b'', HDR])
        if n <= EXACT_MAX:
            ops = [gen_op(rng, i) for i in range(n)]
            if not any(o['kind'] == 'w' for o in ops):
                ops[0] = full_w(2, 'two')
            case.update(init=(INIT_FILES[2] if nrows else b'').hex(), ops=ops)
        else:
            case.update(init=init.hex(), ops=fam_distinct(rng, n, init, nrows), family='distinct')
    elif c == 'same-row':
        n = rng.choice([3, 4, 5, 8, 16])
        init = rows_file(rng.choice([2, 3]))
        case.update(init=init.hex(), ops=fam_same(rng, n, 2), family='same')
    elif c == 'reader-between':
        init = rng.choice([rows_file(3), sized_file(2 * BLOCK + 500)])
        ops = [full_w(2, 'rewritten') if rng.random() < 0.5 else full_w(1000, 'new')]
        for k in range(1, 8):
            ops.append({'kind': 'r', 'how': 'n', 'arg': rng.choice(['rewritten', 'new', 'step-number-2', 'step-number-1']), 'template': '${step}:${name}:${exit}:${duration}\n'})
        case.update(init=init.hex(), ops=ops, family='distinct')
        for k in range(1, 8):
            case['sched'] += [0] + [k] * 5
    elif c == 'same-id-twice':
        init = rng.choice([b'', rows_file(1), rows_file(3)])
        w = full_w(rng.choice([2, 3, 9]), 'twice', 5)
        ops = [w, dict(w)] + ([gen_op(rng, 2)] if rng.random() < 0.5 else [])
        case.update(init=init.hex(), ops=ops)
    else:   # ids-apart
        ids = rng.choice([[-1073741824, 1073741824], [-2147483647, 1], [2147483647, -1], [-2147483647, 2147483647], [1073741823, -1073741825]])
        init = HDR + b''.join(brow(i, b'id%d' % i) for i in sorted(rng.sample(ids, rng.randint(0, 1)) + [5]))
        ops = [full_w(i, 'w%d' % i, abs(i)) for i in ids]
        ops.append({'kind': 'r', 'how': 'i', 'arg': rng.choice(['1', '-1', '2']), 'template': '${step}:${name}\n'})
        rng.shuffle(ops)
        case.update(init=init.hex(), ops=ops)
    n = len(case['ops'])
    if not case['sched'] and lane == 'driven':
        sched = list(range(n))
        order = list(range(n))
        rng.shuffle(order)
        if n <= 5:
            for p in order:
                sched += [p] * rng.randint(1, 4) + [rng.randrange(n)] * rng.randint(0, 2)
        else:
            sched += [rng.randrange(n) for _ in range(rng.randint(n, 2 * n))]
        tail = list(range(n)) * (9 if n <= 5 else 1)
        rng.shuffle(tail)
        case['sched'] = sched + tail
    return case


P_BOUNDARY = 0.06


def gen_case(rng, lane='driven'):
    if rng.random() < P_BOUNDARY:
        return gen_boundary_case(rng, lane)
    n = rng.choice([2, 2, 3, 3, 4])
    ops = [gen_op(rng, i) for i in range(n)]
    if not any(o['kind'] == 'w' for o in ops):
        ops[0] = gen_op(rng, 0)
        ops[0] = {'kind': 'w', 'id': '2', 'kvs': ['name=two', 'exit=0', 'duration=1', 'user=root', 'time=1700000002']}
    style = rng.random()
    sched = []
    if style < 0.35:       # adversarial: everybody opens, one goes far, others pushed, ...
        for p in range(n):
            sched += [p]
        order = list(range(n))
        rng.shuffle(order)
        for p in order:
            sched += [p] * rng.randint(1, 4)
            sched += [rng.randrange(n)] * rng.randint(0, 2)
    else:
        for _ in range(rng.randint(6, 10 * n)):
            sched.append(rng.randrange(n))
    # then let everybody finish in some order
    tail = list(range(n)) * 9
    rng.shuffle(tail)
    init = rng.choice(INIT_FILES)
    if rng.random() < 0.08:
        # a step file of several stdio blocks: the rewrite reaches the file in two write(2) calls (fwrite the whole blocks,
        # fclose the tail), so a process that got in between would see a block-aligned prefix
        init = big_file(rng.choice([60, 100, 120]))
    return {'init': init.hex(), 'ops': ops, 'sched': sched + tail}


def op_toks(o):
    if o['kind'] == 'w':
        return ['w', o['id'].encode().hex() or '-', str(len(o['kvs']))] + [k.encode().hex() or '-' for k in o['kvs']]
    return ['r', o['how'], o['arg'].encode().hex(), o['template'].encode().hex()]


class Sched:
    """Drives real robsd-step processes through the sync points."""

    def __init__(self, impl, work, case):
        self.impl, self.work, self.case = impl, work, case
        self.path = os.path.join(work, 'step.csv')
        open(self.path, 'wb').write(bytes.fromhex(case['init']))
        self.fifo = os.path.join(work, 'fifo')
        os.mkfifo(self.fifo)
        self.fd = os.open(self.fifo, os.O_RDWR | os.O_NONBLOCK)
        self.buf = b''
        self.procs = {}      # index -> Popen
        self.at = {}         # index -> last point reached (stopped there) or 'running' / 'exited'
        self.events = []     # (index, point, file content hex)
        self.pid2idx = {}

    def start(self, i):
        o = self.case['ops'][i]
        env = dict(os.environ, ROBSD_VERIF_SYNC=','.join(POINTS), ROBSD_VERIF_FIFO=self.fifo)
        if o['kind'] == 'w':
            args = [os.path.join(self.impl, 'robsd-step'), '-W', '-f', self.path, '-i', o['id'], '--'] + o['kvs']
            stdin = subprocess.DEVNULL
        else:
            args = [os.path.join(self.impl, 'robsd-step'), '-R', '-f', self.path, '-' + o['how'], o['arg']]
            t = os.path.join(self.work, 'tmpl%d' % i)
            open(t, 'w').write(o['template'])
            stdin = open(t, 'rb')
        p = subprocess.Popen(args, env=env, stdin=stdin, stdout=subprocess.PIPE, stderr=subprocess.PIPE)
        self.procs[i] = p
        self.pid2idx[p.pid] = i
        self.at[i] = 'running'

    def state_of(self, pid):
        try:
            st = open('/proc/%d/stat' % pid).read()
            return st[st.rindex(')') + 2]
        except (OSError, ValueError):
            return 'X'

    def blocked_in_flock(self, pid):
        try:
            return 'lock' in open('/proc/%d/wchan' % pid).read()
        except OSError:
            return False

    def poll_events(self):
        got = []
        try:
            while True:
                chunk = os.read(self.fd, 4096)
                if not chunk:
                    break
                self.buf += chunk
        except OSError as e:
            if e.errno not in (errno.EAGAIN, errno.EWOULDBLOCK):
                raise
        while b'\n' in self.buf:
            line, self.buf = self.buf.split(b'\n', 1)
            name, pid = line.decode().split()
            got.append((self.pid2idx.get(int(pid)), name, int(pid)))
        return got

    def settle(self, timeout=3.0):
        """Collect arrivals until the system is quiet: every started process is stopped at a point, blocked in flock, or exited."""
        deadline = time.time() + timeout
        while True:
            evs = self.poll_events()
            for idx, name, pid in evs:
                # wait until the process has really stopped itself
                t1 = time.time() + 2
                while self.state_of(pid) not in ('T', 't') and time.time() < t1:
                    time.sleep(0.0005)
                self.at[idx] = name
                running = sorted(j for j in self.procs if j != idx and self.at[j] == 'running' and self.procs[j].poll() is None)
                self.events.append((idx, name, open(self.path, 'rb').read().hex(), running))
            quiet = True
            for i, p in self.procs.items():
                if self.at[i] == 'running':
                    if p.poll() is not None:
                        self.at[i] = 'exited'
                    elif self.blocked_in_flock(p.pid):
                        pass
                    else:
                        quiet = False
            if quiet and not evs:
                # one more look: a process that just got the lock may be about to report
                time.sleep(0.002)
                if not self.peek():
                    return
            if time.time() > deadline:
                return
            time.sleep(0.0005)

    def peek(self):
        try:
            chunk = os.read(self.fd, 4096)
            if chunk:
                self.buf += chunk
        except OSError as e:
            if e.errno not in (errno.EAGAIN, errno.EWOULDBLOCK):
                raise
        if b'\n' in self.buf:
            return True
        # a running, not blocked process also means "not quiet"
        for i, p in self.procs.items():
            if self.at[i] == 'running' and p.poll() is None and not self.blocked_in_flock(p.pid):
                return True
        return False

    def advance(self, i):
        if i not in self.procs:
            self.start(i)
        elif self.at[i] in POINTS:
            self.at[i] = 'running'
            os.kill(self.procs[i].pid, signal.SIGCONT)
        else:
            return    # blocked in flock or finished: nothing to push
        self.settle()

    def finish(self):
        outs = []
        for i in range(len(self.case['ops'])):
            if i not in self.procs:
                self.start(i)
                self.settle()
        # push everybody until all have exited (a process blocked in flock is not pushed: with n processes behind one lock
        # only its holder moves, seven points each)
        for _ in range(40 + 8 * len(self.case['ops'])):
            alive = [i for i, p in self.procs.items() if p.poll() is None]
            if not alive:
                break
            for i in alive:
                self.advance(i)
        for i in range(len(self.case['ops'])):
            p = self.procs[i]
            try:
                out, err = p.communicate(timeout=5)
                outs.append((p.returncode, out, err))
            except subprocess.TimeoutExpired:
                outs.append((-999, b'', b'stuck'))
        return outs

    def cleanup(self):
        for p in self.procs.values():
            if p.poll() is None:
                try:
                    os.kill(p.pid, signal.SIGKILL)
                    os.kill(p.pid, signal.SIGCONT)
                except OSError:
                    pass
                try:
                    p.wait(timeout=2)
                except Exception:
                    pass
        os.close(self.fd)


def drive(impl, work, case):
    s = Sched(impl, work, case)
    try:
        for i in case['sched']:
            s.advance(i)
        outs = s.finish()
        final = open(s.path, 'rb').read()
        return {'events': s.events, 'outs': outs, 'final': final}
    finally:
        s.cleanup()


def normalise(events):
    """A process released from its last point inside the critical section (after_write, or after_read when it
    writes nothing) performs exactly one more operation, the unlock, before its next report.  A waiter can be
    granted the lock and report step.after_lock before the releasing process gets to report step.after_unlock.
    Only in that situation - the previous holder was RUNNING when the waiter reported, and its very next report
    is step.after_unlock - the two reports are put in the order of the operations they stand for."""
    ev = [list(e) for e in events]
    k = 0
    while k < len(ev):
        idx, name, fhex, running = ev[k]
        if name == 'step.after_lock':
            for h in running:
                nxt = next((j for j in range(k + 1, len(ev)) if ev[j][0] == h), None)
                if nxt is not None and ev[nxt][1] == 'step.after_unlock':
                    e = ev.pop(nxt)
                    ev.insert(k, e)
                    k += 1
                    break
        k += 1
    return [(i, n, f) for i, n, f, _ in ev]


def single(drv, content, op):
    """one process alone on `content`, on the model: (content it leaves, its report token)"""
    a = common.run_driver(drv, [' '.join(['trace', hexs(content), '1'] + op_toks(op) + ['9'] + ['0'] * 9)])[0]
    tr, lg, reps = [x.strip() for x in a.split('|')]
    last = [t for t in tr.split(' ') if t.startswith('1')][-1]
    return common.unhex(last[1:]), reps.split(' ')[0]


def structured_serial(drv, case, final, reps):
    """Serialisability for more than EXACT_MAX processes (LockSpec.spec_ok_serial enumerates n! orders), for the two generated
    families only.  What one process does to a content and what it reports are the model's (LockSpec.op_upd / op_out through the
    driver); the argument about the ORDERS is made here and is part of the trusted harness:
      distinct - writers of pairwise different ids whose acceptance does not depend on the other rows, readers of one row each:
                 every order leaves the same file F (computed in index order) and the same writer reports; a reader is placed
                 before or after the one writer of its row, so it reports what the starting file or F gives;
      same     - full writes of one id with the same keys: the file is that of the starting file with the row of the writer that
                 came last; a reader of that row reports the starting file's or some writer's row.
    Returns (ok, why)."""
    fam = case.get('family')
    ops = case['ops']
    init = bytes.fromhex(case['init'])
    writers = [i for i, o in enumerate(ops) if o['kind'] == 'w']
    readers = [i for i, o in enumerate(ops) if o['kind'] == 'r']
    if fam == 'distinct':
        ids = [ops[i]['id'] for i in writers]
        if len(set(ids)) != len(ids):
            raise common.BuildFailure('family distinct with a repeated id')
        cur = init
        for i in writers:
            alone = single(drv, init, ops[i])[1]
            cur, rep = single(drv, cur, ops[i])
            if rep != alone:
                raise common.BuildFailure('family distinct: the report of process %d depends on the other writers' % i)
            if reps[i] != rep:
                return False, 'writer %d reports %s, in every order it reports %s' % (i, reps[i], rep)
        if final != cur:
            return False, 'the final file differs from the result of the writers in any order'
        cands = [init, cur]
    elif fam == 'same':
        cands = [init]
        for i in writers:
            c1, rep = single(drv, init, ops[i])
            if reps[i] != rep:
                return False, 'writer %d reports %s, the model %s' % (i, reps[i], rep)
            cands.append(c1)
        if final not in (cands[1:] if writers else cands):
            return False, 'the final file is not the starting file with the row of one of the writers'
    else:
        raise common.BuildFailure('a case of %d processes without a family: the n! oracle is not asked beyond %d processes' % (len(ops), EXACT_MAX))
    for i in readers:
        qs = [' '.join(['serial', hexs(c), hexs(c), '1'] + op_toks(ops[i]) + [reps[i]]) for c in cands]
        if '1' not in common.run_driver(drv, qs):
            return False, 'reader %d reports %s, which no content between two writers gives' % (i, reps[i])
    return True, ''


def serial_verdict(drv, case, final, reps):
    """'1'/'0' (+ reason): the extracted n! oracle up to EXACT_MAX processes, the structured one beyond"""
    n = len(case['ops'])
    if n <= EXACT_MAX:
        optoks = [str(n)]
        for o in case['ops']:
            optoks += op_toks(o)
        return common.run_driver(drv, [' '.join(['serial', case['init'] or '-', hexs(final)] + optoks + reps)])[0] == '1', ''
    return structured_serial(drv, case, final, reps)


def classes_of_case(case):
    cl = set()
    init = bytes.fromhex(case['init'])
    ops = case['ops']
    n = len(ops)
    if len(init) in SIZE_CLASSES:
        cl.add('starting file of exactly %d bytes' % len(init))
    if len(init) > BLOCK:
        cl.add('starting file of %d stdio blocks (rewrite in several write(2) calls)' % ((len(init) + BLOCK - 1) // BLOCK))
    if init == b'' or init.startswith(HDR):
        nrows = max(0, init.count(b'\n') - 1)
        if nrows in ROW_CLASSES and nrows != 1 or (nrows == 1 and init not in INIT_FILES):
            cl.add('starting file of %d rows' % nrows)
    if n in (1, 5, 8, 16, 17):
        cl.add('%d concurrent processes' % n)
    wids = [o['id'] for o in ops if o['kind'] == 'w']
    if case.get('family') == 'same' or (len(wids) >= 3 and len(set(wids)) == 1):
        cl.add('%s writers of the same row' % ('3-5' if len(wids) <= 5 else '6-17'))
    if case.get('family') == 'distinct' and len(wids) >= 6:
        cl.add('6-17 writers of different rows')
    if len(wids) >= 2 and any(ops[i]['kind'] == 'w' and ops[j]['kind'] == 'w' and ops[i]['id'] == ops[j]['id'] and ops[i]['kvs'] == ops[j]['kvs']
                              for i in range(n) for j in range(i + 1, n)):
        cl.add('the same id written twice with the same arguments')
    try:
        nums = sorted(set(int(x) for x in wids))
        if any(b - a >= 2 ** 31 for a in nums for b in nums):
            cl.add('writers of ids 2^31 or more apart')
    except ValueError:
        pass
    if len(wids) == 1 and n == 8 and case.get('sched', [])[:2] == [0, 1]:
        cl.add('a reader between every pair of writer sync points')
    return cl


def expand_case(c):
    """compact corpus forms: 'init_build': {'rows': N} | {'total': T, 'rowlen': L}; 'ops_build': {'family': 'distinct'|'same', 'n': N, 'seed': S,
    'rows': R}; 'sched_build': 'all-open-then-round-robin' | 'reader-between'"""
    import random
    c = dict(c)
    ib = c.pop('init_build', None)
    if ib is not None:
        c['init'] = (rows_file(ib['rows']) if 'rows' in ib else sized_file(ib['total'], ib.get('rowlen', 120))).hex()
    ob = c.pop('ops_build', None)
    if ob is not None:
        r = random.Random(ob.get('seed', 0))
        init = bytes.fromhex(c['init'])
        c['ops'] = fam_distinct(r, ob['n'], init, max(0, init.count(b'\n') - 1)) if ob['family'] == 'distinct' else fam_same(r, ob['n'], ob.get('row', 2))
        c['family'] = ob['family']
    sb = c.pop('sched_build', None)
    n = len(c['ops'])
    if sb == 'all-open-then-round-robin':
        c['sched'] = list(range(n)) + list(range(n)) * 2
    elif sb == 'reader-between':
        c['sched'] = [x for k in range(1, n) for x in [0] + [k] * 5]
    return c


def built(ctx):
    """the implementation and the driver, built once per run (every lane used to rebuild both: four times the Coq lock)"""
    if not hasattr(ctx, '_c02_built'):
        ctx._c02_built = (ctx.build_impl(), ctx.build_driver('lk'))
    return ctx._c02_built


def evaluate(ctx, cases, res):
    impl, drv = built(ctx)
    import shutil, tempfile
    base = ctx.mkscratch('c02')
    for ci, case in enumerate(cases):
        work = tempfile.mkdtemp(dir=base)
        try:
            ob = drive(impl, work, case)
            ob['events'] = normalise(ob['events'])
        finally:
            shutil.rmtree(work, ignore_errors=True)
        n = len(case['ops'])
        # every process passes step.after_open before anything else: a process without a single event means that the
        # sync points are not there (VERIF_POINT expanded to nothing, -DROBSD_VERIF or ROBSD_VERIF_SYNC plumbing broken).
        # Without events nothing is compared below (the zip would be empty): that is a broken tie, not a pass.
        silent = [i for i in range(n) if not any(e[0] == i for e in ob['events'])]
        if silent:
            if not any(e.startswith('driven lane: process(es)') for e in res.tie_errors):
                res.tie_errors.append('driven lane: process(es) %s of %d reported no sync point at all (events: %d) - the ROBSD_VERIF hook of step.c '
                                      'is not active, nothing was compared (first such case; see input_distribution for the count)' % (silent, n, len(ob['events'])))
            res.count('driven case without events')
            continue
        optoks = [str(n)]
        for o in case['ops']:
            optoks += op_toks(o)
        evs = [str(i) for (i, _, _) in ob['events']]
        q1 = ' '.join(['trace', case['init'] or '-'] + optoks + [str(len(evs))] + evs)
        reps = ['%d:%s' % (rc if rc >= 0 else 999, hexs(out)) for (rc, out, err) in ob['outs']]
        why2 = ''
        if n <= EXACT_MAX:
            a1, a2 = common.run_driver(drv, [q1, ' '.join(['serial', case['init'] or '-', hexs(ob['final'])] + optoks + reps)])
        else:
            a1 = common.run_driver(drv, [q1])[0]
            ok2, why2 = structured_serial(drv, case, ob['final'], reps)
            a2 = '1' if ok2 else '0'
        for c_ in sorted(classes_of_case(case)):
            res.count('class: %s [driven]' % c_)
        res.evaluations += 1
        key = hashlib.sha1(json.dumps([case['ops'], evs], sort_keys=True).encode()).hexdigest()
        tr, lg, mreps = [x.strip() for x in a1.split('|')]
        trs = tr.split(' ') if tr else []
        writers = sum(1 for o in case['ops'] if o['kind'] == 'w')
        # interleaved: some process reached a point while another one was between lock and unlock
        if writers >= 1 and len(set(evs)) >= 2:
            res.nontrivial.add(key)
        res.count('procs=%d' % n)
        res.count('events=%d' % (len(evs) // 5 * 5))
        bad = None
        if len(trs) != len(ob['events']):
            bad = 'the model answered %d events for %d observed ones' % (len(trs), len(ob['events']))
        for k, ((idx, name, fhex), t) in enumerate(zip(ob['events'], trs)):
            if t[0] != '1':
                bad = 'event %d (process %d reached %s) is not enabled in the model' % (k, idx, name)
                break
            if t[1:] != (fhex or '-'):
                bad = 'after event %d (process %d at %s) the file on disk differs from the model' % (k, idx, name)
                break
        if bad is None and mreps.split(' ') != reps:
            bad = 'reports differ: model %s, implementation %s' % (mreps, ' '.join(reps))
        if bad:
            res.disagreements.append({'case': case, 'why': bad, 'events': [(i, nme) for (i, nme, _) in ob['events']], 'model': a1[:600]})
        if a2 != '1':
            res.oracle_failures.append({'case': case, 'signature': 'not-serialisable',
                                        'what': 'final file / reports of %d concurrent robsd-step processes equal no serial order of them%s' % (n, (': ' + why2) if why2 else ''),
                                        'final': ob['final'].decode('latin1'), 'reports': reps,
                                        'events': [(i, nme) for (i, nme, _) in ob['events']]})
        if any(rc not in (0, 1) for (rc, _, _) in ob['outs']):
            res.oracle_failures.append({'case': case, 'signature': 'abnormal-termination', 'what': 'exit codes %s' % [rc for rc, _, _ in ob['outs']]})
    return res


def build_chaos(ctx):
    if hasattr(ctx, '_c02_chaos'):
        return ctx._c02_chaos
    d = ctx.mkscratch('chaos')
    so = os.path.join(d, 'chaos.so')
    r = common.sh(['cc', '-shared', '-fPIC', '-O1', os.path.join(common.VERIF, 'tools', 'chaos_preload.c'), '-o', so, '-ldl'])
    if r.returncode != 0:
        raise common.BuildFailure('chaos_preload: ' + r.stdout[-800:])
    ctx._c02_chaos = so
    return so


def undriven_one(impl, drv, so, base, case, chaos_seed):
    """One undriven execution of a case under the delay shim; returns (serialisable?, final bytes, reports)."""
    import shutil, tempfile
    work = tempfile.mkdtemp(dir=base)
    path = os.path.join(work, 'step.csv')
    open(path, 'wb').write(bytes.fromhex(case['init']))
    procs = []
    env = dict(os.environ, LD_PRELOAD=so, CHAOS_MAX_US='3000', CHAOS_SEED=str(chaos_seed))
    env.pop('ROBSD_VERIF_SYNC', None)
    for i, o in enumerate(case['ops']):
        if o['kind'] == 'w':
            args = [os.path.join(impl, 'robsd-step'), '-W', '-f', path, '-i', o['id'], '--'] + o['kvs']
            procs.append(subprocess.Popen(args, env=env, stdin=subprocess.DEVNULL, stdout=subprocess.PIPE, stderr=subprocess.PIPE))
        else:
            args = [os.path.join(impl, 'robsd-step'), '-R', '-f', path, '-' + o['how'], o['arg']]
            # the template comes from a file: a reader that fails before it looks at its input must not break the pipe
            tp = os.path.join(work, 'tmpl%d' % i)
            open(tp, 'w').write(o['template'])
            p = subprocess.Popen(args, env=env, stdin=open(tp, 'rb'), stdout=subprocess.PIPE, stderr=subprocess.PIPE)
            procs.append(p)
    reps = []
    for p in procs:
        try:
            p.wait(timeout=20)
            reps.append('%d:%s' % (p.returncode, hexs(p.stdout.read())))
        except subprocess.TimeoutExpired:
            p.kill()
            reps.append('999:-')
    final = open(path, 'rb').read()
    shutil.rmtree(work, ignore_errors=True)
    ok, _why = serial_verdict(drv, case, final, reps)
    return ok, final, reps


def undriven(ctx, impl, drv, res, rounds):
    """No sync points: all processes of a case are started at once under the delay shim; only the serialisability
    oracle applies (there is no event trace to replay on the model)."""
    so = build_chaos(ctx)
    base = ctx.mkscratch('c02u')
    for k in range(rounds):
        case = gen_case(ctx.rng, 'undriven')
        case['sched'] = []
        ok, final, reps = undriven_one(impl, drv, so, base, case, ctx.seed * 100003 + k)
        res.evaluations += 1
        res.count('undriven procs=%d' % len(case['ops']))
        for c_ in sorted(classes_of_case(case)):
            res.count('class: %s [undriven]' % c_)
        if not ok:
            res.oracle_failures.append({'case': dict(case, undriven=True, chaos_seed=ctx.seed * 100003 + k), 'signature': 'not-serialisable',
                                        'what': 'undriven run under the delay shim: final file / reports of %d concurrent robsd-step processes equal no serial order' % len(case['ops']),
                                        'final': final.decode('latin1'), 'reports': reps})


def big_file(rows):
    body = ''.join('%d,step-number-%d-with-a-long-name,0,%d,0,%03d-step-number-%d.log,root,17000000%02d,0\n' % (i, i, i, i, i, i % 100) for i in range(1, rows + 1))
    return ('step,name,exit,duration,delta,log,user,time,skip\n' + body).encode()


def callorder(ctx, impl, drv, res, rounds):
    """One robsd-step process at a time under the tracing shim: the calls on the step file and its lock, in the order the
    process made them, with the size of the file at the points where the model says what it holds - empty after the
    truncation, the blocks fwrite writes by itself when fclose is entered (the intermediate content of the model),
    complete when fclose returns and still complete at the unlock."""
    import shutil, tempfile
    so = build_chaos(ctx)
    base = ctx.mkscratch('c02o')
    rng = ctx.rng
    for k in range(rounds):
        rows = rng.choice([0, 1, 3, 30, 55, 56, 57, 58, 60, 100, 110, 112, 113, 114, 140, 170])
        init = big_file(rows) if rows else b''
        kind = rng.random()
        if kind < 0.6:
            pad = rng.choice([0, 0, 1, 2, 3, 7, 31, 64, 100]) if rows else 0
            tgt = max(1, rows // 2)
            op = {'kind': 'w', 'id': str(tgt), 'kvs': ['name=n', 'exit=0', 'duration=1', 'user=root', 'time=1', 'log=' + 'x' * pad]}
            if rows >= 55 and rng.random() < 0.5:
                # aim at a new content that ends exactly on a stdio block boundary
                op['aim'] = ((len(init) // 4096) + rng.choice([0, 1])) * 4096
        elif kind < 0.75:
            op = {'kind': 'w', 'id': '1', 'kvs': ['exit=x']}                       # rejected: no rewrite
        else:
            op = {'kind': 'r', 'how': 'i', 'arg': '1', 'template': '${name}\n'}
        if op.get('aim'):
            probe = common.run_driver(drv, [' '.join(['plan', init.hex() or '-'] + op_toks(op))])[0].split(' ')
            if probe[0] != '-':
                need = op['aim'] - int(probe[0]) + len(op['kvs'][-1]) - 4
                if 0 < need < 3000:
                    op['kvs'][-1] = 'log=' + 'x' * need
        work = tempfile.mkdtemp(dir=base)
        path = os.path.join(work, 'step.csv')
        tr = os.path.join(work, 'trace')
        open(path, 'wb').write(init)
        env = dict(os.environ, LD_PRELOAD=so, CHAOS_MAX_US='0', CHAOS_TRACE=tr)
        env.pop('ROBSD_VERIF_SYNC', None)
        if op['kind'] == 'w':
            args = [os.path.join(impl, 'robsd-step'), '-W', '-f', path, '-i', op['id'], '--'] + op['kvs']
            subprocess.run(args, env=env, stdin=subprocess.DEVNULL, stdout=subprocess.PIPE, stderr=subprocess.PIPE, timeout=20)
        else:
            args = [os.path.join(impl, 'robsd-step'), '-R', '-f', path, '-' + op['how'], op['arg']]
            subprocess.run(args, env=env, input=op['template'].encode(), stdout=subprocess.PIPE, stderr=subprocess.PIPE, timeout=20)
        seen = open(tr).read().split('\n')[:-1] if os.path.exists(tr) else []
        shutil.rmtree(work, ignore_errors=True)
        n, d, ms = (common.run_driver(drv, [' '.join(['plan', init.hex() or '-'] + op_toks(op))])[0].split(' ') + [''])[:3]
        if n == '-':
            want = ['flock EX %d' % len(init), 'flock UN %d' % len(init)]
            res.count('call order: no rewrite')
        else:
            mids = [int(x) for x in ms.split(',') if x]
            # when fclose is entered the file holds what fwrite wrote by itself: the model's intermediate content, or
            # nothing (small file), or everything (the content ends on a block boundary)
            pre = mids[-1] if mids else int(d)
            want = ['flock EX %d' % len(init), 'fopen we 0', 'fclose %d %s' % (pre, n), 'flock UN %s' % n]
            res.count('call order: rewrite ' + ('in one piece' if not mids and int(d) == 0 else 'ending on a block boundary' if not mids else 'in two pieces'))
        res.evaluations += 1
        if seen != want:
            res.disagreements.append({'case': {'callorder': True, 'init_rows': rows, 'op': op}, 'why': 'calls on the step file differ from the order/contents of the model',
                                      'model': want, 'impl': seen})


def load_corpus():
    """Minimised cases that run first.  corpus/C02 holds the schedules of the two seeded changes (seeded/C02: shared lock then
    upgrade; seeded/C02-2: unlock before the flush).  A missing or empty directory is an error, not an empty list."""
    d = os.path.join(common.VERIF, 'corpus', 'C02')
    paths = sorted(glob.glob(os.path.join(d, '*.json')))
    if not paths:
        raise common.BuildFailure('corpus/C02 is missing or empty (%s): the replays of the seeded schedules must run first' % d)
    out = []
    for p in paths:
        c = expand_case(json.load(open(p)))
        c['corpus'] = os.path.basename(p)
        out.append(c)
    return out


def run_corpus(ctx, res):
    """driven corpus cases go through the same evaluation as generated ones; undriven ones (a window without a sync
    point) are executed under the delay shim with the recorded number of delay seeds"""
    corpus = load_corpus()
    driven = [c for c in corpus if not c.get('undriven')]
    evaluate(ctx, driven, res)
    und = [c for c in corpus if c.get('undriven')]
    if und:
        (impl, drv), so, base = built(ctx), build_chaos(ctx), ctx.mkscratch('c02c')
        for c in und:
            for k in range(int(c.get('chaos_rounds', 40))):
                seed = int(c.get('chaos_seed', 0)) + k
                ok, final, reps = undriven_one(impl, drv, so, base, c, seed)
                res.evaluations += 1
                res.count('corpus undriven ' + c['corpus'])
                if k == 0:
                    for c_ in sorted(classes_of_case(c)):
                        res.count('class: %s [undriven]' % c_)
                if not ok:
                    res.oracle_failures.append({'case': dict(c, chaos_seed=seed), 'signature': 'not-serialisable',
                                                'what': 'corpus case %s, undriven under the delay shim: final file / reports equal no serial order' % c['corpus'],
                                                'final': final.decode('latin1'), 'reports': reps})
                    break
    res.count('corpus cases', len(corpus))
    return len(corpus)


def run(ctx, n=None):
    res = common.Result()
    res.rule = ('the corpus first (the schedules of the two seeded changes; the window without a sync point undriven under the delay shim); then 2-4 (boundary classes: 1-17) real robsd-step -W/-R processes (new ids, same ids, partial updates, rejected writes, reads by position and by name) on one file, '
                'driven through the 7 sync points of step.c along adversarial and random schedules; the observed event trace is replayed on the model '
                '(file content compared after every event, reports at the end) and the final file/reports checked against all serial orders; single processes under a '
                'tracing shim (order of the calls on the step file and its lock; file size after the truncation, at the entry of fclose, after it and at the unlock, for files '
                'below, across and exactly on stdio block boundaries); '
                'boundary classes in the corpus (corpus/C02/b*.json) and in ~6% of the generated cases of the driven and the undriven lane (`class:` lines): starting files of exactly 4095-4097 / 8191-8193 bytes and of 2 and 3 stdio blocks, '
                '0/1/16/17/32/33/64/65 rows, 1, 5, 8, 16 and 17 processes, up to 17 writers of the same row and of different rows, a reader started between every two sync points of a writer, the same id written twice, ids 2^31 apart; '
                'non-trivial = at least one writer and at least two processes produced events; distinct by ops+event trace')
    n = n or ctx.budget(250, 4000)
    run_corpus(ctx, res)                      # corpus first
    cases = [gen_case(ctx.rng) for _ in range(n)]
    res.samples = cases[:2]
    evaluate(ctx, cases, res)
    if not any(k.startswith('events=') for k in res.distribution):
        res.tie_errors.append('driven lane: no case produced an event trace')
    res.traces_validated = res.evaluations
    undriven(ctx, built(ctx)[0], built(ctx)[1], res, ctx.budget(150, 3000) if n >= 250 else max(20, n // 2))
    callorder(ctx, built(ctx)[0], built(ctx)[1], res, ctx.budget(120, 1500) if n >= 250 else 30)
    return res


def extended_search(ctx, res, proof):
    return run(ctx, n=250)


def replay(ctx, rep):
    case = rep.get('case') or (rep.get('first_disagreements') or [{}])[0].get('case')
    res = common.Result()
    if case.get('callorder'):
        callorder(ctx, ctx.build_impl(), ctx.build_driver('lk'), res, 60)
        print('disagreements:', res.disagreements[:3])
        return 1 if res.disagreements else 0
    if case.get('undriven'):
        # a race without sync points: re-execute the same processes under the delay shim, the recorded delay seed
        # first and then further seeds; the replay fails as soon as one execution equals no serial order
        impl, drv, so, base = ctx.build_impl(), ctx.build_driver('lk'), build_chaos(ctx), ctx.mkscratch('c02u')
        for k in range(200):
            ok, final, reps = undriven_one(impl, drv, so, base, case, case.get('chaos_seed', 0) + k)
            if not ok:
                print('case:', json.dumps(case))
                print('attempt %d: final file %r reports %r equal no serial order' % (k, final, reps))
                return 1
        print('200 undriven executions were all serialisable')
        return 0
    evaluate(ctx, [case], res)
    print('case:', json.dumps(case))
    print('disagreements:', res.disagreements)
    print('oracle failures:', res.oracle_failures)
    return 1 if (res.disagreements or res.oracle_failures) else 0
