"""C01 - step file writes round-trip: histories of robsd-step -W / -R against the model and the abstract dictionary."""
import hashlib, json, glob, os, signal, subprocess, time
from concurrent.futures import ThreadPoolExecutor
import common
from common import hexs

TRANSLATORS = ['t_step', 't_interp', 't_lock']
TRUSTED = ['translator t_step.py (step.c / robsd-step.c: field table, strtonum bounds; the write-time value check, the fclose result check and the id test of action_write '
           'are matched as whole guarded statements - `if (...) { warnx; return 1; }`, `if (... fclose(fh) == EOF && !error) { warn; error = 1; }` - and anything else raises; '
           'the fwrite call by its argument positions and the guarded `error = 1`)',
           'modelled, not verified: strtoll (decimal syntax re-written in Gallina), fopen("w") truncation, the file system; ASSUMED about libc: a 4096-byte stdio block, '
           'fwrite writes whole blocks itself and leaves the tail to fclose (compared with the implementation at byte granularity around the block boundaries); '
           'a refusing file system is RLIMIT_FSIZE = k bytes with SIGXFSZ ignored (tools/c01_fsize.c)',
           'qsort is modelled as an insertion sort: agreement is claimed for distinct ids; rows of equal id (after a renumbering step= argument) are compared as a multiset']

FIELDS = ['step', 'name', 'exit', 'duration', 'delta', 'log', 'user', 'time', 'skip']
INTF = ['exit', 'duration', 'delta', 'time', 'skip']
STRF = ['name', 'log', 'user']
GOOD_INT = [b'0', b'1', b'-1', b'124', b'255', b'1666666666', b'9223372036854775807', b'-9223372036854775808', b' 7', b'+7', b'007', b'\t-3']
BAD_INT = [b'9223372036854775808', b'-9223372036854775809', b'7x', b'', b'1e3', b'--1', b'0x10', b'5 ', b'-', b'+']
GOOD_STR = [b'one', b'a b', b'/dev/null', b'x=y', b'=', b'\xc3\xbc', b'{}', b'}', b'end', b'root', b'a;b', b'"q"', b"'", b' lead', b'trail ', b'\r']
BAD_STR = [b'a,b', b'a\nb', b'', b'${user}', b'$x', b',', b'\n', b'$', b'${name}', b'x${', b'a$b']
IDS = [b'1', b'2', b'3', b'4', b'10', b'-1', b'-5', b'2147483647', b'-2147483647']
BAD_IDS = [b'0', b'2147483648', b'-2147483648', b'x', b'', b' ', b'1x', b'99999999999999999999']
ALT_IDS = {b'1': [b' 1', b'+1', b'01'], b'2': [b'002'], b'10': [b'+10']}


def full_kvs(rng, bad=False):
    kvs = [b'name=' + rng.choice(GOOD_STR), b'exit=' + rng.choice(GOOD_INT), b'duration=' + rng.choice(GOOD_INT),
           b'user=' + rng.choice(GOOD_STR), b'time=' + rng.choice(GOOD_INT)]
    if rng.random() < 0.5:
        kvs.append(b'log=' + rng.choice(GOOD_STR + [b'']))
    if rng.random() < 0.3:
        kvs.append(b'skip=' + rng.choice([b'0', b'1']))
    if rng.random() < 0.3:
        kvs.append(b'delta=' + rng.choice(GOOD_INT))
    rng.shuffle(kvs)
    return kvs


def gen_write(rng, known_ids):
    k = rng.random()
    idarg = rng.choice(IDS)
    if k < 0.06:
        idarg = rng.choice(BAD_IDS)
    elif k < 0.12 and idarg in ALT_IDS:
        idarg = rng.choice(ALT_IDS[idarg])
    canon = idarg.strip().lstrip(b'+')
    existing = any(c == canon or (canon.lstrip(b'0') == c) for c in known_ids)
    r = rng.random()
    if existing and r < 0.6:      # partial update
        kvs = []
        for _ in range(rng.randint(1, 3)):
            f = rng.choice(FIELDS[1:])
            kvs.append(f.encode() + b'=' + rng.choice(GOOD_INT if f in INTF else GOOD_STR + ([b''] if f == 'log' else [])))
    else:
        kvs = full_kvs(rng)
        if r > 0.92:              # drop a mandatory field
            kvs = [kv for kv in kvs if not kv.startswith(rng.choice([b'name=', b'user=', b'time=', b'exit=', b'duration=']))]
    e = rng.random()
    if e < 0.10:                  # one bad argument somewhere
        f = rng.choice(FIELDS[1:])
        kvs.insert(rng.randint(0, len(kvs)), f.encode() + b'=' + rng.choice(BAD_INT if f in INTF else BAD_STR if f != 'log' else [b'a,b', b'$', b'l\n']))
    elif e < 0.14:
        kvs.insert(rng.randint(0, len(kvs)), rng.choice([b'bogus=1', b'noequals', b'=v', b'Name=x', b'name']))
    elif e < 0.20:                # repeated key: last wins
        f = rng.choice(['name', 'exit', 'log'])
        kvs.append(f.encode() + b'=' + rng.choice(GOOD_INT if f in INTF else GOOD_STR))
    elif e < 0.22 and canon.lstrip(b'-').isdigit():
        kvs.append(b'step=' + canon)   # the same id: allowed
    elif e < 0.245:
        kvs.insert(rng.randint(0, len(kvs)), b'step=' + rng.choice(IDS + [b'0', b'x', b'']))   # another id: must be refused (17c91c8)
    elif e < 0.26:
        kvs = []                                                                                  # no key=value at all: usage
    return idarg, kvs


START_FILES = [b''] * 24 + [
               b'step,name,exit,duration,delta,log,user,time,skip\n',
               b'step,name,exit,duration,user,time\n1,one,0,5,root,100\n',
               b'time,user,name,step,exit,duration\n100,root,one,3,0,5\n200,root,two,1,-1,-1\n',
               b'step,name,exit,duration,delta,log,user,time,skip\n1,one,0,5,0,,root,100,0\n2,two,1,6,0,002-two.log,root,101,0',   # unterminated
               b'step,name,exit,duration,delta,log,user,time,skip\n1,one,0,5,0,,root,100,0\n\x00junk',
               b'step,name\n1,one\n', b'step,name,exit,duration,delta,log,user,time,skip\n1,$x,0,5,0,,root,100,0\n',
               b'step,name,exit,duration,delta,log,user,time,skip\n7,seven,0,5,0,,root,100,0\n3,three,0,1,0,,root,100,1\n',
               b'bogus\nx\n', b'\n', b',\n', b'step,,name\n']


def gen_history(rng):
    start = rng.choice(START_FILES)
    n = rng.choice([1, 2, 3, 4, 6, 8, 12])
    known = set()
    ws = []
    for _ in range(n):
        idarg, kvs = gen_write(rng, known)
        ws.append([idarg.hex(), [kv.hex() for kv in kvs]])
        known.add(idarg.strip().lstrip(b'+').lstrip(b'0') or b'0')
    fault = rng.random() < 0.12
    h = {'start': start.hex(), 'writes': ws, 'fault_at': (rng.randrange(n) if fault else -1)}
    if fault:
        # the file system accepts only the first k bytes of the rewrite: nothing, a piece of the header, the header,
        # a cut inside a row, a cut on a row boundary ({'rows': j} = header + j rows, resolved when the case runs),
        # everything but the last byte, everything
        h['fault_k'] = rng.choice([0, 0, 1, 20, 48, 49, 50, rng.randint(51, 400), rng.randint(51, 400), {'rows': 1}, {'rows': 1},
                                   {'rows': 2}, {'rows': 3}, {'short': 1}, {'short': 0}])
    if rng.random() < 0.06:
        # a large step file (beyond the stdio buffer) and a file system that accepts only the first KiBs of the rewrite
        rows = rng.randint(75, 130)
        big = 'step,name,exit,duration,delta,log,user,time,skip\n' + ''.join(
            '%d,step-number-%d-with-a-long-name,0,%d,0,%03d-step-number-%d.log,root,17000000%02d,0\n' % (i, i, i, i, i, i % 100) for i in range(1, rows + 1))
        h = {'start': big.encode().hex(), 'writes': ws[:3], 'fault_at': rng.randrange(min(3, len(ws))),
             'fault_k': rng.choice([0, 1, 1024, 4095, 4096, 4097, 5000, 8191, 8192, 8193, {'short': 1}, {'short': 0}, {'rows': 40}, {'rows': 90},
                                    rng.randint(0, 9000)])}
    return h


def sh_write(impl, path, idarg, kvs, fault_k=None, tool=None):
    args = [os.path.join(impl, 'robsd-step'), '-W', '-f', path, '-i', idarg, '--'] + kvs
    if fault_k is not None:
        # RLIMIT_FSIZE = k bytes with SIGXFSZ ignored: write(2) lets the file grow to k bytes and then fails with EFBIG
        cmd = [tool, str(fault_k)] + args
    else:
        cmd = args
    r = subprocess.run(cmd, stdout=subprocess.PIPE, stderr=subprocess.PIPE, timeout=20)
    return r.returncode, r.stderr


def resolve_k(impl, work, idx, before, idarg, kvs, spec):
    """A symbolic refusal point, resolved against what the command writes when nothing is refused."""
    if isinstance(spec, int):
        return spec
    tmp = os.path.join(work, 'dry%d.csv' % idx)
    open(tmp, 'wb').write(before)
    sh_write(impl, tmp, idarg, kvs)
    new = open(tmp, 'rb').read()
    os.unlink(tmp)
    if 'rows' in spec:
        lines = new.split(b'\n')
        return len(b'\n'.join(lines[:1 + spec['rows']]) + b'\n') if len(lines) > 1 + spec['rows'] else max(0, len(new) - 1)
    return max(0, len(new) - spec['short'])


def dry_run(impl, work, idx, before, idarg, kvs):
    """what THIS command leaves in the file when the file system refuses nothing (None when it rejects its arguments)"""
    tmp = os.path.join(work, 'new%d.csv' % idx)
    open(tmp, 'wb').write(before)
    rc, _ = sh_write(impl, tmp, idarg, kvs)
    new = open(tmp, 'rb').read()
    os.unlink(tmp)
    return new if rc == 0 else None


def refusal_class(st):
    """The input class of the known finding refused-write-damages-file, as a predicate on the case and the observation:
    a fault plan was injected into THIS write, its refusal point k lies before the end of what the command writes,
    the command exited 1, and the file holds exactly the first k bytes of the new content.  Returns the sub-class
    named in the finding (k=0 / cut on a row boundary / cut inside a row) or None: any other damage is not the finding."""
    new = st.get('new')
    if not st['fault'] or new is None or st['k'] is None or not (st['k'] < len(new)) or st['rc'] != 1 or st['after'] != new[:st['k']]:
        return None
    if st['k'] == 0:
        return 'k=0 (empty file)'
    if st['after'].endswith(b'\n') and st['k'] >= len(new.split(b'\n')[0]) + 1:
        return 'cut on a row boundary'
    return 'cut inside a row or the header'


def sh_read(impl, path, how, arg, tmpl):
    r = subprocess.run([os.path.join(impl, 'robsd-step'), '-R', '-f', path, how, arg], input=tmpl,
                       stdout=subprocess.PIPE, stderr=subprocess.PIPE, timeout=20)
    return r.returncode, r.stdout


def argv_ok(b):
    return b'\0' not in b


def canon(file_hex):
    """Rows carrying the same id (possible only after a renumbering step= argument or in a hand-made file) are left in an
    order that depends on qsort; the comparison puts rows of equal id in byte order on both sides."""
    if file_hex in ('-', '!', ''):
        return file_hex
    lines = bytes.fromhex(file_hex).split(b'\n')
    if len(lines) < 4 or lines[-1] != b'':
        return file_hex
    rows = lines[1:-1]
    try:
        ids = [int(r.split(b',')[0]) for r in rows]
    except ValueError:
        return file_hex
    if len(set(ids)) == len(ids):
        return file_hex
    rows = [r for _, r in sorted(zip(ids, rows), key=lambda p: (p[0], p[1]))] if ids == sorted(ids) else rows
    return b'\n'.join([lines[0]] + rows + [b'']).hex()


def canon_ans(s):
    p = s.split(' ')
    return ' '.join([p[0], canon(p[1])] + p[2:]) if len(p) >= 2 else s


def names_of(h):
    out = []
    for idh, kvh in h['writes']:
        for k in kvh:
            b = bytes.fromhex(k)
            if b.startswith(b'name=') and argv_ok(b) and b[5:] and b[5:] not in out:
                out.append(b[5:])
    return (out[:3] + [b'one'])[:4]


def run_history(impl, tool, work, idx, h):
    path = os.path.join(work, 'h%d.csv' % idx)
    open(path, 'wb').write(bytes.fromhex(h['start']))
    steps = []
    for i, (idh, kvh) in enumerate(h['writes']):
        before = open(path, 'rb').read()
        fault = (i == h['fault_at'])
        idarg, kvs = bytes.fromhex(idh), [bytes.fromhex(k) for k in kvh]
        k = None
        new = None
        if fault:
            k = resolve_k(impl, work, idx, before, idarg, kvs, h.get('fault_k', 1024 * h.get('fault_blocks', 0)))
            new = dry_run(impl, work, idx, before, idarg, kvs)
        rc, err = sh_write(impl, path, idarg, kvs, k, tool)
        after = open(path, 'rb').read()
        steps.append({'before': before, 'rc': rc, 'after': after, 'fault': fault, 'k': k, 'new': new, 'stderr': err[-200:]})
    final = open(path, 'rb').read()
    reads = []
    for pos in (1, 2, 3, -1, -2, 5, -5):
        for f in (FIELDS if pos in (1, -1) else ['step', 'name', 'log']):
            rc, out = sh_read(impl, path, '-i', str(pos), ('${%s}\n' % f).encode())
            reads.append((pos, f, rc, out))
    byname = []
    for nm in names_of(h):
        rcn, outn = sh_read(impl, path, '-n', nm, b'${step}:${name}:${exit}\n')
        rc1, out1 = sh_read(impl, path, '-n', nm, b'${step}\n')          # which row: for the oracle
        byname.append((nm, rcn, outn, rc1, out1))
    os.unlink(path)
    return steps, final, reads, byname


def build_fsize(ctx):
    d = ctx.mkscratch('fsize')
    exe = os.path.join(d, 'c01_fsize')
    r = common.sh(['cc', '-O1', os.path.join(common.VERIF, 'tools', 'c01_fsize.c'), '-o', exe])
    if r.returncode != 0:
        raise common.BuildFailure('c01_fsize: ' + r.stdout[-800:])
    return exe


def renumbering(h, steps):
    """accepted writes whose step=J names another id than -i (the row is renumbered)"""
    for (idh, kvh), st in zip(h['writes'], steps):
        if st['rc'] != 0:
            continue
        try:
            want = int(bytes.fromhex(idh).decode())
        except ValueError:
            continue
        for k in kvh:
            b = bytes.fromhex(k)
            if b.startswith(b'step='):
                try:
                    if int(b[5:].decode()) != want:
                        return True
                except ValueError:
                    pass
    return False


def evaluate(ctx, hs, res):
    impl = ctx.build_impl()
    drv = ctx.build_driver('st', withz=True)
    tool = build_fsize(ctx)
    work = ctx.mkscratch('c01')
    with ThreadPoolExecutor(16) as ex:
        obs = list(ex.map(lambda ih: run_history(impl, tool, work, ih[0], ih[1]), enumerate(hs)))
    qs = []
    index = []
    for hi, (h, (steps, final, reads, byname)) in enumerate(zip(hs, obs)):
        for i, st in enumerate(steps):
            idh, kvh = h['writes'][i]
            qs.append(' '.join(['writek', str(st['k']) if st['fault'] else '-', hexs(st['before']), idh or '-', str(len(kvh))] + [k or '-' for k in kvh]))
            index.append(('w', hi, i))
            if st['fault']:
                qs.append(qs_for_write(h, i, st['before'], False))       # what the file must hold if the command says 0
                index.append(('w0', hi, i))
                qs.append('ids ' + hexs(st['before']))
                index.append(('ib', hi, i))
                qs.append('ids ' + hexs(st['after']))
                index.append(('ia', hi, i))
                qs.append('canon ' + hexs(st['before']))
                index.append(('cb', hi, i))
                qs.append('canon ' + hexs(st['after']))
                index.append(('ca', hi, i))
        for (pos, f, rc, out) in reads:
            qs.append(' '.join(['read', hexs(final), 'i', str(pos).encode().hex(), ('${%s}\n' % f).encode().hex()]))
            index.append(('r', hi, (pos, f, rc, out)))
        for (nm, rc, out, rc1, out1) in byname:
            qs.append(' '.join(['read', hexs(final), 'n', nm.hex(), b'${step}:${name}:${exit}\n'.hex()]))
            index.append(('n', hi, (nm, rc, out)))
        # a history with a refused write: the two-sided agreement on the writes BEFORE the refusal is still judged
        if h['start'] == '' and any(s_['fault'] for s_ in steps) and h['fault_at'] > 0:
            toks = ['hist', str(h['fault_at'])]
            for (idh, kvh), st in list(zip(h['writes'], steps))[:h['fault_at']]:
                toks += [idh or '-', '1' if st['rc'] == 0 else '0', str(len(kvh))] + [k or '-' for k in kvh]
            toks.append('0')
            qs.append(' '.join(toks))
            index.append(('hp', hi, None))
        # oracle on the whole observed history, only when it started from the empty file
        if h['start'] == '':
            toks = ['hist', str(len(steps))]
            for (idh, kvh), st in zip(h['writes'], steps):
                toks += [idh or '-', '1' if st['rc'] == 0 else '0', str(len(kvh))] + [k or '-' for k in kvh]
            toks.append(str(len(reads)))
            for (pos, f, rc, out) in reads:
                toks += [str(pos), f.encode().hex(), hexs(out) if rc == 0 else '!']
            qs.append(' '.join(toks))
            index.append(('h', hi, None))
            # the same writes, then the reads by name
            toks = ['histn', str(len(steps))]
            for (idh, kvh), st in zip(h['writes'], steps):
                toks += [idh or '-', '1' if st['rc'] == 0 else '0', str(len(kvh))] + [k or '-' for k in kvh]
            toks.append(str(len(byname)))
            for (nm, rc, out, rc1, out1) in byname:
                toks += [nm.hex(), b'step'.hex(), hexs(out1) if rc1 == 0 else '!']
            qs.append(' '.join(toks))
            index.append(('hn', hi, None))
    ans = common.run_driver(drv, qs)
    check_expectations(hs, obs, res)
    ids_before = {}
    for (kind, hi, info), a in zip(index, ans):
        h = hs[hi]
        steps, final, reads, byname = obs[hi]
        if kind == 'w':
            st = steps[info]
            res.evaluations += 1
            res.count('write rc=%d%s' % (st['rc'], ' refused' if st['fault'] else ''))
            impl_s = '%d %s' % (st['rc'], hexs(st['after']))
            if st['fault']:
                # the same command under the same refusal point on the model: exit status AND the bytes left in the file
                res.count('refusal ' + ('nothing' if st['k'] == 0 else 'below one stdio block' if st['k'] < 4096 else 'beyond one stdio block'))
            else:
                if st['rc'] != 0 and st['after'] != st['before']:
                    res.oracle_failures.append({'case': {'history': h, 'step': info}, 'signature': 'rejected-write-changed-file',
                                                'what': 'write exited %d and changed the file' % st['rc']})
            if st['rc'] not in (0, 1):
                res.oracle_failures.append({'case': {'history': h, 'step': info}, 'signature': 'abnormal-termination',
                                            'what': 'robsd-step -W terminated with status %d' % st['rc']})
            if canon_ans(impl_s) != canon_ans(a):
                res.disagreements.append({'case': {'history': h, 'step': info}, 'model': a[:400], 'impl': impl_s[:400]})
        elif kind == 'w0':
            st = steps[info]
            ok_model = a.split(' ')
            # oracle: exit 0 only if the file holds the new state
            if st['rc'] == 0 and ok_model[0] == '0' and canon(ok_model[1]) != canon(hexs(st['after'])):
                res.oracle_failures.append({'case': {'history': h, 'step': info}, 'signature': 'exit0-without-new-state',
                                            'what': 'write exited 0 under a refusing file system (first %d bytes accepted) but the file does not hold the new state (size %d)' % (st['k'], len(st['after']))})
            # oracle: a command that rejects its arguments does not touch the file, whatever the file system would do
            if ok_model[0] != '0' and (st['rc'] == 0 or st['after'] != st['before']):
                res.oracle_failures.append({'case': {'history': h, 'step': info}, 'signature': 'rejected-write-changed-file',
                                            'what': 'a write that rejects its arguments exited %d / changed the file under a refusing file system' % st['rc']})
        elif kind == 'ib':
            ids_before[(hi, info)] = a
        elif kind == 'ia':
            ids_before[(hi, info, 'after')] = a
        elif kind == 'cb':
            ids_before[(hi, info, 'cb')] = a
        elif kind == 'ca':
            # ORACLE (clause 1 of the property under fault_sequences): after a write that did NOT exit 0 the step file must still
            # be readable and hold the rows it held (the most recently written values): the parsed rows, re-serialised in id
            # order, are compared - not the bytes, a refused write need not leave the bytes alone, only what reads return.
            st = steps[info]
            cb = ids_before.get((hi, info, 'cb'), 'error')
            b, aa = ids_before.get((hi, info), 'error'), ids_before.get((hi, info, 'after'), 'error')
            if st['rc'] != 0 and cb.startswith('ok') and a != cb:
                had = set(x for x in b[3:].split(',') if x) if b.startswith('ok') else set()
                left = set(x for x in aa[3:].split(',') if x) if aa.startswith('ok') else None
                if left is None:
                    how = 'left a step file that no command can read'
                elif had - left:
                    how = 'left a step file that still parses but lacks rows %s written earlier' % sorted(had - left)
                else:
                    how = 'left a step file whose rows differ from those written earlier'
                cls = refusal_class(st)
                if cls is not None:
                    # the known finding, recognised by the case: a fault plan with k < length was injected into THIS very
                    # write, it exited 1, and the file is exactly the first k bytes of the new content
                    res.count('refused write (%s) %s' % (cls, 'left an unreadable file' if left is None else 'left a readable file without rows' if had - left else 'changed rows'))
                    res.oracle_failures.append({'case': {'history': h, 'step': info}, 'signature': 'refused-write-damages-file',
                                                'what': 'a write refused by the file system (first %d of %d bytes accepted: %s) exited 1 and %s'
                                                        % (st['k'], len(st['new']), cls, how)})
                else:
                    # any other damage by a failing write is NOT the known finding (e.g. bytes other than a prefix of the new
                    # content, an exit status other than 1, damage although everything was accepted, no new content at all)
                    res.oracle_failures.append({'case': {'history': h, 'step': info}, 'signature': 'failed-write-damaged-file',
                                                'what': 'a write under a refusing file system (first %s bytes accepted, new content %s bytes) exited %d and %s; the file is not '
                                                        'the first k bytes of the new content with k below its length, so this is not the known refusal damage'
                                                        % (st['k'], len(st['new']) if st['new'] is not None else 'none:', st['rc'], how)})
        elif kind == 'r':
            pos, f, rc, out = info
            res.evaluations += 1
            if a != '%d %s' % (rc, hexs(out)):
                res.disagreements.append({'case': {'history': h, 'read': [pos, f]}, 'model': a, 'impl': '%d %s' % (rc, hexs(out))})
        elif kind == 'n':
            nm, rc, out = info
            res.evaluations += 1
            res.count('read by name rc=%d' % rc)
            if a != '%d %s' % (rc, hexs(out)):
                res.disagreements.append({'case': {'history': h, 'read': 'name ' + nm.hex()}, 'model': a, 'impl': '%d %s' % (rc, hexs(out))})
        elif kind == 'hp':
            ok, nrows, mism = (a.split(' ') + ['-'])[:3]
            res.count('history with a refused write: writes before it judged by the two-sided oracle')
            if ok != '1' and not renumbering(h, steps[:h['fault_at']]):
                res.oracle_failures.append({'case': {'history': h}, 'signature': 'acceptable-write-refused' if mism.endswith(':S') else 'readback-differs-from-written',
                                            'what': 'before the refused write of the history, write %s: %s' % (mism[:-2], 'the dictionary specification accepts it, '
                                                    'robsd-step -W refused' if mism.endswith(':S') else 'robsd-step -W accepted what the specification rejects')})
        elif kind == 'hn':
            okn, mism = (a.split(' ') + ['-'])[:2]
            # a refused acceptable write / an accepted unacceptable one is reported once, by the 'h' answer below
            if okn != '1' and mism == '-' and not any(s['fault'] for s in steps) and not renumbering(h, steps):
                res.oracle_failures.append({'case': {'history': h}, 'signature': 'read-by-name-wrong-row',
                                            'what': 'after the history, reading by name does not select the first row in ascending id order '
                                                    'that carries the name (or fails although such a row exists)'})
        else:
            ok, nrows, mism = (a.split(' ') + ['-'])[:3]
            res.count('history judged by the two-sided oracle' if not any(s['fault'] for s in steps) else 'history with a refused write (history oracle not applied)')
            accepted = sum(1 for s in steps if s['rc'] == 0)
            if accepted >= 2:
                res.nontrivial.add(hashlib.sha1(json.dumps(h, sort_keys=True).encode()).hexdigest())
            renum = renumbering(h, steps)
            if renum:
                res.count('history with a renumbering step= argument')
                res.oracle_failures.append({'case': {'history': h}, 'signature': 'step-key-renumbers-row',
                                            'what': 'robsd-step -W -i I -- step=J (J different from I) exited 0: the row of id I now carries id J'})
            if ok != '1' and not any(s['fault'] for s in steps) and not renum:
                if mism.endswith(':S'):
                    # the side the oracle lacked (gap report 2): the dictionary specification accepts the write, the command refused it
                    wi = int(mism[:-2])
                    res.oracle_failures.append({'case': {'history': h, 'step': wi}, 'signature': 'acceptable-write-refused',
                                                'what': 'write %d of the history is accepted by the dictionary specification but robsd-step -W exited %d'
                                                        % (wi, steps[wi]['rc'])})
                else:
                    res.oracle_failures.append({'case': {'history': h}, 'signature': 'readback-differs-from-written',
                                                'what': 'after the history, reading does not return the most recently written values '
                                                        '(or a write was accepted that cannot be read back%s)'
                                                        % ('' if mism == '-' else ': write %s, which the specification rejects' % mism[:-2])})
            # rows ascending by id on disk
            ids = []
            for line in final.split(b'\n')[1:]:
                if line:
                    try:
                        ids.append(int(line.split(b',')[0]))
                    except ValueError:
                        pass
            if (ids != sorted(ids) or len(set(ids)) != len(ids)) and not renum and not any(s['fault'] for s in steps):
                res.oracle_failures.append({'case': {'history': h}, 'signature': 'rows-not-ascending',
                                            'what': 'ids on disk: %s' % ids})


KILL_POINTS = ['step.before_truncate', 'step.after_truncate']


def kill_at(impl, work, idx, path, idarg, kvs, point):
    """robsd-step -W stopped at a sync point of steps_write (ROBSD_VERIF hook), then SIGTERM + SIGCONT: what C07's takedown
    of the step's process group does to a step_write that happens to run.  Returns (reached, returncode)."""
    fifo = os.path.join(work, 'kfifo%d' % idx)
    os.mkfifo(fifo)
    fd = os.open(fifo, os.O_RDWR | os.O_NONBLOCK)
    env = dict(os.environ, ROBSD_VERIF_SYNC=point, ROBSD_VERIF_FIFO=fifo)
    p = subprocess.Popen([os.path.join(impl, 'robsd-step'), '-W', '-f', path, '-i', idarg, '--'] + kvs, env=env,
                         stdin=subprocess.DEVNULL, stdout=subprocess.PIPE, stderr=subprocess.PIPE)
    reached = False
    deadline = time.time() + 10
    try:
        while time.time() < deadline and p.poll() is None:
            try:
                st = open('/proc/%d/stat' % p.pid).read()
                if st[st.rindex(')') + 2] in 'Tt':
                    reached = True
                    break
            except (OSError, ValueError):
                pass
            time.sleep(0.0005)
        if reached:
            os.kill(p.pid, signal.SIGTERM)
            os.kill(p.pid, signal.SIGCONT)
        try:
            p.wait(timeout=10)
        except subprocess.TimeoutExpired:
            p.kill()
            p.wait()
    finally:
        os.close(fd)
        os.unlink(fifo)
    return reached, p.returncode


def kill_lane(ctx, impl, drv, res, rounds):
    """The most likely trigger of the state the known finding describes needs no file-system fault: C07's takedown sends SIGTERM
    to the step's process group, and a `robsd-step -W` (util.sh step_write) of that group that is between fopen("we") and fclose
    dies there; the kernel drops its flock.  Stopped at step.after_truncate and terminated, the command leaves the k = 0 state
    (an empty file: nothing left stdio yet); terminated at step.before_truncate it leaves the file untouched.
    OUTSIDE C01's quantifier - counted, not judged: C01 ranges over write INVOCATIONS that run to their exit status ("a write
    command that rejects its arguments exits non-zero ...", "exits zero only if ...") and over "a write failure injected at the
    final flush"; a killed command reports no exit status, so no clause of C01 speaks about it (C02 likewise quantifies over
    schedules, not crashes).  What IS compared: the bytes left are those the fault model predicts for k = 0 (model: writek 0),
    i.e. the kill reaches exactly the state of the known finding; and what the next writer then does is recorded."""
    work = ctx.mkscratch('c01k')
    rng = ctx.rng
    n_reached = 0
    for r in range(rounds):
        path = os.path.join(work, 'k%d.csv' % r)
        open(path, 'wb').write(b'')
        nrows = rng.choice([1, 2, 3, 5, 90])
        for i in range(1, nrows + 1):
            sh_write(impl, path, str(i).encode(), [b'name=step%d' % i, b'exit=0', b'duration=%d' % i, b'user=root', b'time=17000000%02d' % (i % 100)])
        before = open(path, 'rb').read()
        point = rng.choice(KILL_POINTS + ['step.after_truncate'])
        victim_id = str(rng.choice([1, nrows, nrows + 1])).encode()
        kvs = [b'name=victim', b'exit=1', b'duration=7', b'user=root', b'time=1700000099']
        reached, rc = kill_at(impl, work, r, path, victim_id.decode(), [k.decode() for k in kvs], point)
        after = open(path, 'rb').read()
        res.evaluations += 1
        if not reached:
            res.tie_errors.append('kill lane: robsd-step -W never stopped at %s (ROBSD_VERIF hook inactive?)' % point)
            continue
        n_reached += 1
        a = common.run_driver(drv, [' '.join(['writek', '0', hexs(before), victim_id.hex(), str(len(kvs))] + [k.hex() for k in kvs])])[0]
        model_after = common.unhex(a.split(' ')[1]) if point == 'step.after_truncate' else before
        case = {'kill': True, 'rows': nrows, 'point': point, 'id': victim_id.decode()}
        res.count('outside: writer killed by SIGTERM at %s (no exit status of a write command to judge; state %s)'
                  % (point, 'k=0: empty file' if point == 'step.after_truncate' else 'file untouched'))
        if rc != -signal.SIGTERM:
            res.disagreements.append({'case': case, 'model': 'terminated by SIGTERM', 'impl': 'return code %s' % rc})
        if after != model_after:
            res.disagreements.append({'case': case, 'model': model_after.hex()[:200], 'impl': after.hex()[:200],
                                      'why': 'bytes left by a writer killed at %s differ from the k=0 state of the fault model' % point})
        # what the next writer of the invocation experiences: it silently starts from the damaged file
        rc2, _ = sh_write(impl, path, b'777', [b'name=next', b'exit=0', b'duration=1', b'user=root', b'time=1700000100'])
        ids = common.run_driver(drv, ['ids ' + hexs(open(path, 'rb').read())])[0]
        if point == 'step.after_truncate':
            res.count('after the kill the next write exited %d and the file holds ids %s of formerly %d rows' % (rc2, ids[3:] if ids.startswith('ok') else ids, nrows)
                      if nrows <= 3 else 'after the kill of a large file the next write exited %d' % rc2)
        os.unlink(path)
    if rounds and not n_reached:
        res.tie_errors.append('kill lane: no round reached a sync point')


def qs_for_write(h, i, before, fault):
    idh, kvh = h['writes'][i]
    return ' '.join(['write', '1' if fault else '0', hexs(before), idh or '-', str(len(kvh))] + [k or '-' for k in kvh])


def load_corpus():
    """corpus/C01/*.json: one history per `fixed`/`known` entry of known_findings.json for C01 (and the stored seeds); they run
    FIRST.  A missing or empty directory is an error (it used to be an empty list, silently)."""
    d = os.path.join(common.VERIF, 'corpus', 'C01')
    paths = sorted(glob.glob(os.path.join(d, '*.json')))
    if not paths:
        raise common.BuildFailure('corpus/C01 is missing or empty (%s): the replays of the repaired defects and of the known finding must run first' % d)
    out = []
    for p in paths:
        h = json.load(open(p))
        h['corpus'] = os.path.basename(p)
        for key in ('start', 'writes', 'fault_at'):
            if key not in h:
                raise common.BuildFailure('%s: corpus case without %r' % (p, key))
        out.append(h)
    # every entry of known_findings.json for C01 names its replay class; each class must be present
    need = ['d1', 'd2', 'd3', 'd4', 'd22', 'known_k0', 'known_row_boundary', 'known_mid_row']
    have = ' '.join(os.path.basename(p) for p in paths)
    missing = [n for n in need if n not in have]
    if missing:
        raise common.BuildFailure('corpus/C01 lacks a case for: %s' % ', '.join(missing))
    return out


def check_expectations(hs, obs, res):
    """A corpus case may pin what the repaired / known behaviour looks like (`expect`: exit status per write, and whether the
    refusal damage of the known finding must be OBSERVED): a corpus case that no longer exercises its input class - the
    refusal lands elsewhere, the write is no longer reached - is a broken tie, not a pass."""
    for h, (steps, final, reads, byname) in zip(hs, obs):
        exp = h.get('expect')
        if not exp:
            continue
        if 'rc' in exp and [st['rc'] for st in steps] != exp['rc']:
            res.count('corpus case with unexpected exit statuses')
            res.oracle_failures.append({'case': {'history': h}, 'signature': 'repaired-defect-is-back',
                                        'what': 'corpus case %s: exit statuses %s, the repaired behaviour is %s' % (h.get('corpus'), [st['rc'] for st in steps], exp['rc'])})
        if 'refusal_class' in exp:
            st = steps[h['fault_at']]
            got = refusal_class(st)
            if got != exp['refusal_class']:
                res.tie_errors.append('corpus case %s no longer exercises its input class: refusal class %r, expected %r (k=%s, new content %s bytes, rc=%s)'
                                      % (h.get('corpus'), got, exp['refusal_class'], st['k'], len(st['new']) if st['new'] is not None else None, st['rc']))


def valid(h):
    for idh, kvh in h['writes']:
        if not argv_ok(bytes.fromhex(idh)) or any(not argv_ok(bytes.fromhex(k)) for k in kvh):
            return False
    return True


def run(ctx, n=None):
    res = common.Result()
    res.rule = ('the corpus first (one history per repaired defect D1-D4, D22, per class of the known finding, per stored seed); histories of 1-12 robsd-step -W invocations (new/replaced ids, partial updates, repeated keys, unknown keys, missing =, step= naming the same and '
                'another id, hostile string values with , newline $ and empty, integers at the 64-bit limits and with strtoll syntax variants, id arguments at and '
                'beyond +-INT_MAX) on empty and hand-made starting files; in ~12% of histories (and in the ~6% with a file of several stdio blocks) one write runs '
                'on a file system that accepts only the first k bytes (k = 0, inside the header, inside a row, on a row boundary, at and around the 4096/8192 block '
                'boundaries, all but the last byte, all), exit status and file bytes compared with the model; followed by reads of every field at 7 positions and '
                'by up to 4 names, judged by the two-sided dictionary oracle; a lane in which the writer is terminated by SIGTERM at step.before_truncate / step.after_truncate (outside the quantifier: counted, the bytes left compared with the k=0 state of the fault model); non-trivial = started from the empty file with at least two accepted writes; distinct by content hash')
    n = n or ctx.budget(250, 8000)
    hs = [h for h in load_corpus() + [gen_history(ctx.rng) for _ in range(n)] if valid(h)]
    res.samples = hs[:2]
    for i in range(0, len(hs), 1000):
        evaluate(ctx, hs[i:i + 1000], res)
    if not any(k.startswith('history judged by the two-sided oracle') for k in res.distribution):
        res.tie_errors.append('no history was judged by the two-sided oracle')
    if not any(k.startswith('refusal ') for k in res.distribution):
        res.tie_errors.append('no write ran under a refusing file system')
    kill_lane(ctx, ctx.build_impl(), ctx.build_driver('st', withz=True), res, ctx.budget(12, 200) if n >= 250 else 4)
    res.traces_validated = len(hs)
    res.extra['histories'] = len(hs)
    return res


def extended_search(ctx, res, proof):
    return run(ctx, n=2500)


def replay(ctx, rep):
    case = rep.get('case') or (rep.get('first_disagreements') or [{}])[0].get('case')
    res = common.Result()
    if case.get('kill'):
        kill_lane(ctx, ctx.build_impl(), ctx.build_driver('st', withz=True), res, 30)
        print('disagreements:', res.disagreements[:3], 'tie errors:', res.tie_errors[:3])
        return 1 if (res.disagreements or res.tie_errors) else 0
    h = case['history']
    evaluate(ctx, [h], res)
    print('history:', json.dumps(h))
    print('disagreements:', res.disagreements)
    print('oracle failures:', res.oracle_failures)
    return 1 if (res.disagreements or res.oracle_failures) else 0


def shrink(ctx, failure):
    """smallest history (by writes) on which the same oracle signature still fails"""
    case = failure['case']
    h = case.get('history')
    if not h or h.get('expect') or failure.get('signature') == 'repaired-defect-is-back':
        return None        # a corpus case is already minimal, and its expectations refer to its own writes

    def still(ws):
        hh = dict(h, writes=ws, fault_at=-1 if h['fault_at'] < 0 else min(h['fault_at'], len(ws) - 1))
        r = common.Result()
        evaluate(ctx, [hh], r)
        return any(x.get('signature') == failure.get('signature') for x in r.oracle_failures)
    small = common.ddmin(h['writes'], still, budget=30)
    return {'history': dict(h, writes=small, fault_at=-1 if h['fault_at'] < 0 else min(h['fault_at'], len(small) - 1))}
