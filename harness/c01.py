"""C01 - step file writes round-trip: histories of robsd-step -W / -R against the model and the abstract dictionary."""
import hashlib, json, glob, os, subprocess
from concurrent.futures import ThreadPoolExecutor
import common
from common import hexs

TRANSLATORS = ['t_step', 't_interp']
TRUSTED = ['translator t_step.py (regexes on step.c / robsd-step.c: field table, strtonum bounds, write-time value check, fclose check)',
           'modelled, not verified: strtoll (decimal syntax re-written in Gallina), stdio buffering and fopen("w") truncation, the file system; '
           'the flush fault is injected with ulimit -f 0 and SIGXFSZ ignored',
           'qsort is modelled as a stable insertion sort: agreement is claimed for distinct ids only']

FIELDS = ['step', 'name', 'exit', 'duration', 'delta', 'log', 'user', 'time', 'skip']
INTF = ['exit', 'duration', 'delta', 'time', 'skip']
STRF = ['name', 'log', 'user']
GOOD_INT = [b'0', b'1', b'-1', b'124', b'255', b'1666666666', b'9223372036854775807', b'-9223372036854775808', b' 7', b'+7', b'007', b'\t-3']
BAD_INT = [b'9223372036854775808', b'-9223372036854775809', b'7x', b'', b'1e3', b'--1', b'0x10', b'5 ', b'-', b'+']
GOOD_STR = [b'one', b'a b', b'/dev/null', b'x=y', b'=', b'\xc3\xbc', b'{}', b'}', b'end', b'root', b'a;b', b'"q"', b"'", b' lead', b'trail ', b'\r']
BAD_STR = [b'a,b', b'a\nb', b'', b'${user}', b'$x', b',', b'\n', b'$', b'${name}', b'x${', b'a$b']
IDS = [b'1', b'2', b'3', b'4', b'10', b'-1', b'-5', b'2147483647', b'-2147483647']
BAD_IDS = [b'0', b'2147483648', b'-2147483648', b'x', b'', b' ', b'1x', b'99999999999999999999']
ALT_IDS = {b'1': [b' 1', b'+1', b'01'], b'2': [b'002'], b'10': [b'+10']}


def full_kvs(rng, bad=False):
    kvs = [b'name=' + rng.choice(GOOD_STR), b'exit=' + rng.choice(GOOD_INT), b'duration=' + rng.choice(GOOD_INT),
           b'user=' + rng.choice(GOOD_STR), b'time=' + rng.choice(GOOD_INT)]
    if rng.random() < 0.5:
        kvs.append(b'log=' + rng.choice(GOOD_STR + [b'']))
    if rng.random() < 0.3:
        kvs.append(b'skip=' + rng.choice([b'0', b'1']))
    if rng.random() < 0.3:
        kvs.append(b'delta=' + rng.choice(GOOD_INT))
    rng.shuffle(kvs)
    return kvs


def gen_write(rng, known_ids):
    k = rng.random()
    idarg = rng.choice(IDS)
    if k < 0.06:
        idarg = rng.choice(BAD_IDS)
    elif k < 0.12 and idarg in ALT_IDS:
        idarg = rng.choice(ALT_IDS[idarg])
    canon = idarg.strip().lstrip(b'+')
    existing = any(c == canon or (canon.lstrip(b'0') == c) for c in known_ids)
    r = rng.random()
    if existing and r < 0.6:      # partial update
        kvs = []
        for _ in range(rng.randint(1, 3)):
            f = rng.choice(FIELDS[1:])
            kvs.append(f.encode() + b'=' + rng.choice(GOOD_INT if f in INTF else GOOD_STR + ([b''] if f == 'log' else [])))
    else:
        kvs = full_kvs(rng)
        if r > 0.92:              # drop a mandatory field
            kvs = [kv for kv in kvs if not kv.startswith(rng.choice([b'name=', b'user=', b'time=', b'exit=', b'duration=']))]
    e = rng.random()
    if e < 0.10:                  # one bad argument somewhere
        f = rng.choice(FIELDS[1:])
        kvs.insert(rng.randint(0, len(kvs)), f.encode() + b'=' + rng.choice(BAD_INT if f in INTF else BAD_STR if f != 'log' else [b'a,b', b'$', b'l\n']))
    elif e < 0.14:
        kvs.insert(rng.randint(0, len(kvs)), rng.choice([b'bogus=1', b'noequals', b'=v', b'Name=x', b'name']))
    elif e < 0.20:                # repeated key: last wins
        f = rng.choice(['name', 'exit', 'log'])
        kvs.append(f.encode() + b'=' + rng.choice(GOOD_INT if f in INTF else GOOD_STR))
    elif e < 0.22 and canon.lstrip(b'-').isdigit():
        kvs.append(b'step=' + canon)   # the same id: allowed
    elif e < 0.23:
        kvs = []
    return idarg, kvs


START_FILES = [b''] * 24 + [
               b'step,name,exit,duration,delta,log,user,time,skip\n',
               b'step,name,exit,duration,user,time\n1,one,0,5,root,100\n',
               b'time,user,name,step,exit,duration\n100,root,one,3,0,5\n200,root,two,1,-1,-1\n',
               b'step,name,exit,duration,delta,log,user,time,skip\n1,one,0,5,0,,root,100,0\n2,two,1,6,0,002-two.log,root,101,0',   # unterminated
               b'step,name,exit,duration,delta,log,user,time,skip\n1,one,0,5,0,,root,100,0\n\x00junk',
               b'step,name\n1,one\n', b'step,name,exit,duration,delta,log,user,time,skip\n1,$x,0,5,0,,root,100,0\n',
               b'step,name,exit,duration,delta,log,user,time,skip\n7,seven,0,5,0,,root,100,0\n3,three,0,1,0,,root,100,1\n',
               b'bogus\nx\n', b'\n', b',\n', b'step,,name\n']


def gen_history(rng):
    start = rng.choice(START_FILES)
    n = rng.choice([1, 2, 3, 4, 6, 8, 12])
    known = set()
    ws = []
    for _ in range(n):
        idarg, kvs = gen_write(rng, known)
        ws.append([idarg.hex(), [kv.hex() for kv in kvs]])
        known.add(idarg.strip().lstrip(b'+').lstrip(b'0') or b'0')
    fault = rng.random() < 0.08
    h = {'start': start.hex(), 'writes': ws, 'fault_at': (rng.randrange(n) if fault else -1)}
    if rng.random() < 0.06:
        # a large step file (beyond the stdio buffer) and a file system that accepts only the first KiBs of the rewrite
        rows = rng.randint(75, 130)
        big = 'step,name,exit,duration,delta,log,user,time,skip\n' + ''.join(
            '%d,step-number-%d-with-a-long-name,0,%d,0,%03d-step-number-%d.log,root,17000000%02d,0\n' % (i, i, i, i, i, i % 100) for i in range(1, rows + 1))
        h = {'start': big.encode().hex(), 'writes': ws[:3], 'fault_at': rng.randrange(min(3, len(ws))), 'fault_blocks': rng.choice([0, 1, 4, 5])}
    return h


def sh_write(impl, path, idarg, kvs, fault, blocks=0):
    args = [os.path.join(impl, 'robsd-step'), '-W', '-f', path, '-i', idarg, '--'] + kvs
    if fault:
        # ulimit -f N (1024-byte blocks) with SIGXFSZ ignored: write(2) beyond N KiB fails with EFBIG; N = 0 refuses
        # everything, N > 0 lets the first part of a large file through and refuses the rest (partial write)
        cmd = ['bash', '-c', 'trap "" XFSZ; ulimit -f %d; exec "$@"' % blocks, 'x'] + args
    else:
        cmd = args
    r = subprocess.run(cmd, stdout=subprocess.PIPE, stderr=subprocess.PIPE, timeout=20)
    return r.returncode, r.stderr


def sh_read(impl, path, how, arg, tmpl):
    r = subprocess.run([os.path.join(impl, 'robsd-step'), '-R', '-f', path, how, arg], input=tmpl,
                       stdout=subprocess.PIPE, stderr=subprocess.PIPE, timeout=20)
    return r.returncode, r.stdout


def argv_ok(b):
    return b'\0' not in b


def run_history(impl, work, idx, h):
    path = os.path.join(work, 'h%d.csv' % idx)
    open(path, 'wb').write(bytes.fromhex(h['start']))
    steps = []
    for i, (idh, kvh) in enumerate(h['writes']):
        before = open(path, 'rb').read()
        fault = (i == h['fault_at'])
        rc, err = sh_write(impl, path, bytes.fromhex(idh), [bytes.fromhex(k) for k in kvh], fault, h.get('fault_blocks', 0))
        after = open(path, 'rb').read()
        steps.append({'before': before, 'rc': rc, 'after': after, 'fault': fault, 'stderr': err[-200:]})
    final = open(path, 'rb').read()
    reads = []
    for pos in (1, 2, 3, -1, -2, 5, -5):
        for f in (FIELDS if pos in (1, -1) else ['step', 'name', 'log']):
            rc, out = sh_read(impl, path, '-i', str(pos), ('${%s}\n' % f).encode())
            reads.append((pos, f, rc, out))
    rcn, outn = sh_read(impl, path, '-n', 'one', b'${step}:${name}\n')
    os.unlink(path)
    return steps, final, reads, (rcn, outn)


def evaluate(ctx, hs, res):
    impl = ctx.build_impl()
    drv = ctx.build_driver('st', withz=True)
    work = ctx.mkscratch('c01')
    with ThreadPoolExecutor(16) as ex:
        obs = list(ex.map(lambda ih: run_history(impl, work, ih[0], ih[1]), enumerate(hs)))
    qs = []
    index = []
    for hi, (h, (steps, final, reads, rn)) in enumerate(zip(hs, obs)):
        for i, st in enumerate(steps):
            idh, kvh = h['writes'][i]
            qs.append(' '.join(['write', '1' if st['fault'] else '0', hexs(st['before']), idh or '-', str(len(kvh))] + [k or '-' for k in kvh]))
            index.append(('w', hi, i))
        for (pos, f, rc, out) in reads:
            qs.append(' '.join(['read', hexs(final), 'i', str(pos).encode().hex(), ('${%s}\n' % f).encode().hex()]))
            index.append(('r', hi, (pos, f, rc, out)))
        qs.append(' '.join(['read', hexs(final), 'n', b'one'.hex(), b'${step}:${name}\n'.hex()]))
        index.append(('n', hi, rn))
        # oracle on the whole observed history, only when it started from the empty file
        if h['start'] == '':
            toks = ['hist', str(len(steps))]
            for (idh, kvh), st in zip(h['writes'], steps):
                toks += [idh or '-', '1' if st['rc'] == 0 else '0', str(len(kvh))] + [k or '-' for k in kvh]
            toks.append(str(len(reads)))
            for (pos, f, rc, out) in reads:
                toks += [str(pos), f.encode().hex(), hexs(out) if rc == 0 else '!']
            qs.append(' '.join(toks))
            index.append(('h', hi, None))
    ans = common.run_driver(drv, qs)
    for (kind, hi, info), a in zip(index, ans):
        h = hs[hi]
        steps, final, reads, rn = obs[hi]
        if kind == 'w':
            st = steps[info]
            res.evaluations += 1
            res.count('write rc=%d%s' % (st['rc'], ' fault' if st['fault'] else ''))
            if st['fault']:
                # under the fault only the exit status is compared (how much reached the disk is the kernel's business)
                impl_s = str(st['rc'])
                model_s = a.split(' ')[0]
                # oracle: exit 0 only if the file holds the new state
                if st['rc'] == 0:
                    ok_model = common.run_driver(ctx.build_driver('st', withz=True),
                                                 [qs_for_write(h, info, st['before'], False)])[0].split(' ')
                    if ok_model[0] == '0' and ok_model[1] != hexs(st['after']):
                        res.oracle_failures.append({'case': {'history': h, 'step': info}, 'signature': 'exit0-without-new-state',
                                                    'what': 'write exited 0 under a refusing file system but the file does not hold the new state (size %d)' % len(st['after'])})
            else:
                impl_s = '%d %s' % (st['rc'], hexs(st['after']))
                model_s = a
                if st['rc'] != 0 and st['after'] != st['before']:
                    res.oracle_failures.append({'case': {'history': h, 'step': info}, 'signature': 'rejected-write-changed-file',
                                                'what': 'write exited %d and changed the file' % st['rc']})
                if st['rc'] not in (0, 1):
                    res.oracle_failures.append({'case': {'history': h, 'step': info}, 'signature': 'abnormal-termination',
                                                'what': 'robsd-step -W terminated with status %d' % st['rc']})
            if impl_s != model_s:
                res.disagreements.append({'case': {'history': h, 'step': info}, 'model': model_s[:400], 'impl': impl_s[:400]})
        elif kind == 'r':
            pos, f, rc, out = info
            res.evaluations += 1
            if a != '%d %s' % (rc, hexs(out)):
                res.disagreements.append({'case': {'history': h, 'read': [pos, f]}, 'model': a, 'impl': '%d %s' % (rc, hexs(out))})
        elif kind == 'n':
            rc, out = info
            if a != '%d %s' % (rc, hexs(out)):
                res.disagreements.append({'case': {'history': h, 'read': 'name one'}, 'model': a, 'impl': '%d %s' % (rc, hexs(out))})
        else:
            ok, nrows = a.split(' ')
            accepted = sum(1 for s in steps if s['rc'] == 0)
            if accepted >= 2:
                res.nontrivial.add(hashlib.sha1(json.dumps(h, sort_keys=True).encode()).hexdigest())
            if ok != '1' and not any(s['fault'] for s in steps):
                res.oracle_failures.append({'case': {'history': h}, 'signature': 'readback-differs-from-written',
                                            'what': 'after the history, reading does not return the most recently written values '
                                                    '(or a write was accepted that cannot be read back)'})
            # rows ascending by id on disk
            ids = []
            for line in final.split(b'\n')[1:]:
                if line:
                    try:
                        ids.append(int(line.split(b',')[0]))
                    except ValueError:
                        pass
            if ids != sorted(ids) or len(set(ids)) != len(ids):
                res.oracle_failures.append({'case': {'history': h}, 'signature': 'rows-not-ascending',
                                            'what': 'ids on disk: %s' % ids})


def qs_for_write(h, i, before, fault):
    idh, kvh = h['writes'][i]
    return ' '.join(['write', '1' if fault else '0', hexs(before), idh or '-', str(len(kvh))] + [k or '-' for k in kvh])


def load_corpus():
    return [json.load(open(p)) for p in sorted(glob.glob(os.path.join(common.VERIF, 'corpus', 'C01', '*.json')))]


def valid(h):
    for idh, kvh in h['writes']:
        if not argv_ok(bytes.fromhex(idh)) or any(not argv_ok(bytes.fromhex(k)) for k in kvh):
            return False
    return True


def run(ctx, n=None):
    res = common.Result()
    res.rule = ('histories of 1-12 robsd-step -W invocations (new/replaced ids, partial updates, repeated keys, unknown keys, missing =, '
                'hostile string values with , newline $ and empty, integers at the 64-bit limits and with strtoll syntax variants, id arguments at and '
                'beyond +-INT_MAX) on empty and hand-made starting files, one flush fault in ~8% of histories, followed by reads of every field at 7 '
                'positions and by name; non-trivial = started from the empty file with at least two accepted writes; distinct by content hash')
    n = n or ctx.budget(250, 8000)
    hs = [h for h in load_corpus() + [gen_history(ctx.rng) for _ in range(n)] if valid(h)]
    res.samples = hs[:2]
    for i in range(0, len(hs), 1000):
        evaluate(ctx, hs[i:i + 1000], res)
    res.traces_validated = len(hs)
    res.extra['histories'] = len(hs)
    return res


def extended_search(ctx, res, proof):
    return run(ctx, n=2500)


def replay(ctx, rep):
    case = rep.get('case') or (rep.get('first_disagreements') or [{}])[0].get('case')
    h = case['history']
    res = common.Result()
    evaluate(ctx, [h], res)
    print('history:', json.dumps(h))
    print('disagreements:', res.disagreements)
    print('oracle failures:', res.oracle_failures)
    return 1 if (res.disagreements or res.oracle_failures) else 0


def shrink(ctx, failure):
    """smallest history (by writes) on which the same oracle signature still fails"""
    case = failure['case']
    h = case.get('history')
    if not h:
        return None

    def still(ws):
        hh = dict(h, writes=ws, fault_at=-1 if h['fault_at'] < 0 else min(h['fault_at'], len(ws) - 1))
        r = common.Result()
        evaluate(ctx, [hh], r)
        return any(x.get('signature') == failure.get('signature') for x in r.oracle_failures)
    small = common.ddmin(h['writes'], still, budget=30)
    return {'history': dict(h, writes=small, fault_at=-1 if h['fault_at'] < 0 else min(h['fault_at'], len(small) - 1))}
