"""C01 - step file writes round-trip: histories of robsd-step -W / -R against the model and the abstract dictionary."""
import hashlib, json, glob, os, signal, subprocess, time
from concurrent.futures import ThreadPoolExecutor
import common
from common import hexs

TRANSLATORS = ['t_step', 't_interp', 't_lock']
TRUSTED = ['translator t_step.py (step.c / robsd-step.c: field table, strtonum bounds; the write-time value check, the fclose result check and the id test of action_write '
           'are matched as whole guarded statements - `if (...) { warnx; return 1; }`, `if (... fclose(fh) == EOF && !error) { warn; error = 1; }` - and anything else raises; '
           'the fwrite call by its argument positions and the guarded `error = 1`)',
           'modelled, not verified: strtoll (decimal syntax re-written in Gallina), fopen("w") truncation, the file system; ASSUMED about libc: a 4096-byte stdio block, '
           'fwrite writes whole blocks itself and leaves the tail to fclose (compared with the implementation at byte granularity around the block boundaries); '
           'a refusing file system is RLIMIT_FSIZE = k bytes with SIGXFSZ ignored (tools/c01_fsize.c)',
           'qsort is modelled as an insertion sort: agreement is claimed for distinct ids; rows of equal id (after a renumbering step= argument) are compared as a multiset',
           'CAPPED by the cost of the extracted model: StepDefs.lex_value is quadratic in the length of a field (109 s for 64 KiB), so the model parses files with fields up to 8193 bytes '
           '(and answers only a few reads above 1100 bytes); longer values (65535, 65536, 131000 bytes - the kernel allows 128 KiB - 1 per argument) are judged by the dictionary oracle '
           'on every write and read, and the write that introduces them is still compared byte for byte; StepDefs.select_row / StepSpec.spec_read use Z.to_nat (pos - 1), so read positions '
           'above 10^6 are compared with the fixed answer (exit 1, nothing printed) instead',
           'the starting-file oracle (hand-made files, no history to hand to the dictionary) reads the rows before and after through the MODEL\'s parser (driver command canon)']

FIELDS = ['step', 'name', 'exit', 'duration', 'delta', 'log', 'user', 'time', 'skip']
INTF = ['exit', 'duration', 'delta', 'time', 'skip']
STRF = ['name', 'log', 'user']
GOOD_INT = [b'0', b'1', b'-1', b'124', b'255', b'1666666666', b'9223372036854775807', b'-9223372036854775808', b' 7', b'+7', b'007', b'\t-3']
# boundary values of the integer columns (a column narrowed to int / unsigned / long shows at these): +-2^31, 2^32, +-2^63 and their neighbours
LIMIT_INT = [b'2147483647', b'2147483648', b'-2147483648', b'-2147483649', b'4294967295', b'4294967296', b'4294967297', b'-4294967296',
             b'9223372036854775806', b'-9223372036854775807', b'9223372036854775807', b'-9223372036854775808']
GOOD_INT = GOOD_INT + LIMIT_INT
BAD_INT = [b'9223372036854775808', b'-9223372036854775809', b'7x', b'', b'1e3', b'--1', b'0x10', b'5 ', b'-', b'+',
           b'18446744073709551615', b'18446744073709551616', b'18446744073709551617', b'-18446744073709551615']
# arguments whose key is a proper prefix / an extension / a case variant of a field name (a lookup by strncmp with the argument's
# length, or case-insensitively, would accept them), and separators around the key
BAD_KEYS = [b'bogus=1', b'noequals', b'=v', b'Name=x', b'name', b'nam=x', b'names=x', b'n=x', b'exi=1', b'exit0=1', b'e=1', b'lo=x', b'logs=x',
            b'l=', b's=1', b'ste=1', b'steps=1', b'ti=5', b'timer=5', b'd=1', b'del=1', b'dur=1', b'us=root', b'users=root', b'NAME=x', b'name =x',
            b' name=x', b'EXIT=0', b'=', b'==', b'skip', b'skipp=1', b'ski=1']
GOOD_STR = [b'one', b'a b', b'/dev/null', b'x=y', b'=', b'\xc3\xbc', b'{}', b'}', b'end', b'root', b'a;b', b'"q"', b"'", b' lead', b'trail ', b'\r']
BAD_STR = [b'a,b', b'a\nb', b'', b'${user}', b'$x', b',', b'\n', b'$', b'${name}', b'x${', b'a$b']
IDS = [b'1', b'2', b'3', b'4', b'10', b'-1', b'-5', b'2147483647', b'-2147483647']
BAD_IDS = [b'0', b'2147483648', b'-2147483648', b'x', b'', b' ', b'1x', b'99999999999999999999']
ALT_IDS = {b'1': [b' 1', b'+1', b'01'], b'2': [b'002'], b'10': [b'+10']}


def full_kvs(rng, bad=False):
    kvs = [b'name=' + rng.choice(GOOD_STR), b'exit=' + rng.choice(GOOD_INT), b'duration=' + rng.choice(GOOD_INT),
           b'user=' + rng.choice(GOOD_STR), b'time=' + rng.choice(GOOD_INT)]
    if rng.random() < 0.5:
        kvs.append(b'log=' + rng.choice(GOOD_STR + [b'']))
    if rng.random() < 0.3:
        kvs.append(b'skip=' + rng.choice([b'0', b'1']))
    if rng.random() < 0.3:
        kvs.append(b'delta=' + rng.choice(GOOD_INT))
    rng.shuffle(kvs)
    return kvs


def gen_write(rng, known_ids):
    k = rng.random()
    idarg = rng.choice(IDS)
    if k < 0.06:
        idarg = rng.choice(BAD_IDS)
    elif k < 0.12 and idarg in ALT_IDS:
        idarg = rng.choice(ALT_IDS[idarg])
    canon = idarg.strip().lstrip(b'+')
    existing = any(c == canon or (canon.lstrip(b'0') == c) for c in known_ids)
    r = rng.random()
    if existing and r < 0.6:      # partial update
        kvs = []
        for _ in range(rng.randint(1, 3)):
            f = rng.choice(FIELDS[1:])
            kvs.append(f.encode() + b'=' + rng.choice(GOOD_INT if f in INTF else GOOD_STR + ([b''] if f == 'log' else [])))
    else:
        kvs = full_kvs(rng)
        if r > 0.92:              # drop a mandatory field
            kvs = [kv for kv in kvs if not kv.startswith(rng.choice([b'name=', b'user=', b'time=', b'exit=', b'duration=']))]
    e = rng.random()
    if e < 0.10:                  # one bad argument somewhere
        f = rng.choice(FIELDS[1:])
        kvs.insert(rng.randint(0, len(kvs)), f.encode() + b'=' + rng.choice(BAD_INT if f in INTF else BAD_STR if f != 'log' else [b'a,b', b'$', b'l\n']))
    elif e < 0.14:
        kvs.insert(rng.randint(0, len(kvs)), rng.choice(BAD_KEYS))
    elif e < 0.20:                # repeated key: last wins
        f = rng.choice(['name', 'exit', 'log'])
        kvs.append(f.encode() + b'=' + rng.choice(GOOD_INT if f in INTF else GOOD_STR))
    elif e < 0.22 and canon.lstrip(b'-').isdigit():
        kvs.append(b'step=' + canon)   # the same id: allowed
    elif e < 0.245:
        kvs.insert(rng.randint(0, len(kvs)), b'step=' + rng.choice(IDS + [b'0', b'x', b'']))   # another id: must be refused (17c91c8)
    elif e < 0.26:
        kvs = []                                                                                  # no key=value at all: usage
    return idarg, kvs


START_FILES = [b''] * 24 + [
               b'step,name,exit,duration,delta,log,user,time,skip\n',
               b'step,name,exit,duration,user,time\n1,one,0,5,root,100\n',
               b'time,user,name,step,exit,duration\n100,root,one,3,0,5\n200,root,two,1,-1,-1\n',
               b'step,name,exit,duration,delta,log,user,time,skip\n1,one,0,5,0,,root,100,0\n2,two,1,6,0,002-two.log,root,101,0',   # unterminated
               b'step,name,exit,duration,delta,log,user,time,skip\n1,one,0,5,0,,root,100,0\n\x00junk',
               b'step,name\n1,one\n', b'step,name,exit,duration,delta,log,user,time,skip\n1,$x,0,5,0,,root,100,0\n',
               b'step,name,exit,duration,delta,log,user,time,skip\n7,seven,0,5,0,,root,100,0\n3,three,0,1,0,,root,100,1\n',
               b'bogus\nx\n', b'\n', b',\n', b'step,,name\n']



# ---------------------------------------------------------------------------------------------------------------------
# Boundary SIZE / SHAPE classes (lengths, counts, integer limits, related names, file shapes, stdio block boundaries).
# Every class is generated with a small probability by gen_history (gen_boundary) and has one deterministic case under
# corpus/C01/b*.json; classes_of() recognises the classes from the CONTENT of a case, so that generated and corpus cases
# are counted alike (`class: ...` lines of the input distribution).
# Caps (measured on the extracted model, st_driver):
#  * StepDefs.lex_value appends one byte at a time (acc ++ [c]): parsing a file is quadratic in the longest field -
#    4096 bytes 0.1 s, 8192 0.4 s, 16384 2.1 s, 65536 109 s per parse.  The model is therefore asked to PARSE only files whose
#    longest field is at most MODEL_FIELD_CAP bytes, for files with a field above MODEL_LIGHT bytes only a few of the reads
#    (name and log at positions 1, 2, -1 and the first read by name), above MODEL_LIGHT2 only those at position 2;
#    beyond the cap the writes whose `before` is small are still compared byte for byte (set_keyval is linear) and the
#    two-sided dictionary oracle (linear: it never parses a file) judges every write and read.
#  * StepDefs.select_row / StepSpec.spec_read compute `Z.to_nat (pos - 1)` (a unary nat once extracted): positions above
#    MODEL_POS_CAP are not given to the model or the oracle; with fewer rows than that the answer is fixed (exit 1, no output)
#    and compared directly.
#  * kernel: one argv string holds at most 128 KiB - 1 bytes (MAX_ARG_STRLEN), so `name=<value>` stops at 131000 here.
HDR = b'step,name,exit,duration,delta,log,user,time,skip\n'
LENS = [1, 254, 255, 256, 1023, 1024, 1025, 4095, 4096, 4097, 8191, 8192, 8193, 65535, 65536, 131000]
MODEL_FIELD_CAP = 8193
MODEL_LIGHT = 1100
MODEL_LIGHT2 = 4097
MODEL_POS_CAP = 1000000
ROW_COUNTS = [15, 16, 17, 31, 32, 33, 63, 64, 65, 255, 256]
COUNT_CLASSES = [0, 1] + ROW_COUNTS + [257]
BLOCK = 4096
NAME_FAMILY = [b'one', b'on', b'onee', b'One', b'ONE', b'one ', b' one', b'one=', b'=one', b'one=1', b'one"', b'"one"', b'one\r', b'one.', b'one-',
               b'one/', b'o', b'on\xc3\xa9', b'one\x7f', b'onf', b'ond']
NAME_PROBES = [b'one,', b'one\n', b'', b'one\n1', b',', b'one,1', b'\r', b'ONe']
PAIR_IDS = [(-1073741824, 1073741824), (-2147483647, 1), (-2147483647, 2147483647), (-1, 2147483647), (1, 2147483647), (-2147483647, -1),
            (1073741823, -1073741825), (2147483646, -2), (-2147483646, 2), (1, -2147483647)]
START_IDS = [[1, 4294967297], [4294967297, 1], [5, 4294967301, 8589934597], [2147483649, 1], [1, -4294967295], [-4294967295, 1],
             [9223372036854775807, -9223372036854775808, 1], [2147483648, -2147483648], [4294967296, 2], [2, 4294967298, 1, 4294967297],
             [-9223372036854775808, 9223372036854775807], [4294967298, 4294967297, 2, 1]]


def pattern(n):
    """a value of exactly n bytes, no two neighbouring 16-byte pieces alike, with a last byte that occurs nowhere else"""
    if n <= 0:
        return b''
    body = b''.join(b'%07x-%07x.' % (i, n) for i in range(n // 16 + 1))
    return body[:n - 1] + b'Z'


def mkrow(i, name=None, log=b'', exit_=0):
    return b'%d,%s,%d,%d,0,%s,root,17000000%02d,0\n' % (i, name if name is not None else b'step-number-%d' % i, exit_, i % 1000, log, i % 100)


def mkkvs(i, name=None, log=b'', exit_=0):
    """the key=value arguments that make robsd-step -W write exactly mkrow(i, ...)"""
    kvs = [b'name=' + (name if name is not None else b'step-number-%d' % i), b'exit=%d' % exit_, b'duration=%d' % (i % 1000), b'user=root',
           b'time=17000000%02d' % (i % 100)]
    if log:
        kvs.append(b'log=' + log)
    return kvs


def sized_rows(marks, total, rowlen=0):
    """[(id, name, log)] of a step file (after HDR) in which a row ends exactly at every byte offset of `marks` and the file
    ends exactly at `total`; `rowlen` > 0 pads the names so that fewer rows are needed"""
    rows, size, i = [], len(HDR), 0
    for t in sorted(set(list(marks) + [total])):
        def nm(j):
            return (b'step-number-%d-' % j) + b'n' * max(0, rowlen - 45)
        while size + len(mkrow(i + 1, nm(i + 1))) + len(mkrow(i + 2, nm(i + 2))) <= t:
            i += 1
            rows.append((i, nm(i), b''))
            size += len(mkrow(i, nm(i)))
        gap = t - size - len(mkrow(i + 1, nm(i + 1)))
        if gap < 0:
            continue                      # targets closer together than one row: the later one is dropped
        i += 1
        rows.append((i, nm(i), b'p' * gap))
        size += len(mkrow(i, nm(i), b'p' * gap))
    return rows


def sized_file(marks, total, rowlen=0):
    return HDR + b''.join(mkrow(i, n, l) for i, n, l in sized_rows(marks, total, rowlen))


def W(idarg, kvs):
    return [idarg.hex() if isinstance(idarg, bytes) else str(idarg).encode().hex(), [k.hex() for k in kvs]]


def expand(h):
    """Compact forms used by corpus/C01/b*.json (so that a 256-row or a 64 KiB case stays a small file):
       'build': {'rows': N, 'order': 'asc'|'desc'|'mixed', 'marks': [...], 'total': T, 'rowlen': L}  -> writes put in front of 'writes'
               (N plain rows, or the rows of sized_rows(marks, total)), 'fault_at' then counts from the first explicit write when
               'fault_at_explicit' is given;
       'start_build': {'marks': [...], 'total': T, 'rowlen': L} or {'ids': [...]} -> 'start';
       a key=value given as {'k': 'name', 'len': N} -> name=<pattern(N)>, as {'t': 'text'} -> the text."""
    h = dict(h)
    ws = []
    for idh, kvh in h.get('writes', []):
        kk = []
        for k in kvh:
            if isinstance(k, dict):
                k = ((k['k'].encode() + b'=' + pattern(k['len'])) if 'len' in k else k['t'].encode('latin1')).hex()
            kk.append(k)
        ws.append([idh if not isinstance(idh, dict) else idh['t'].encode('latin1').hex(), kk])
    b = h.pop('build', None)
    pre = []
    if b:
        if 'total' in b:
            pre = [W(i, mkkvs(i, n, l)) for i, n, l in sized_rows(b.get('marks', []), b['total'], b.get('rowlen', 0))]
        else:
            ids = list(range(1, b['rows'] + 1))
            if b.get('order') == 'desc':
                ids.reverse()
            elif b.get('order') == 'mixed':
                ids = ids[1::2] + ids[0::2][::-1]
            pre = [W(i, mkkvs(i)) for i in ids]
    h['writes'] = pre + ws
    if 'fault_at_explicit' in h:
        h['fault_at'] = len(pre) + h.pop('fault_at_explicit')
    sb = h.pop('start_build', None)
    if sb:
        h['start'] = (sized_file(sb.get('marks', []), sb['total'], sb.get('rowlen', 0)) if 'total' in sb
                      else HDR + b''.join(mkrow(i) for i in sb['ids'])).hex()
    if isinstance(h.get('start'), dict):
        h['start'] = h['start']['t'].encode('latin1').hex()
    return h


# hand-made starting files, one per shape
SHAPES = {
    'header without newline': HDR[:-1],
    'header only': HDR,
    'last row without newline': HDR + mkrow(1) + mkrow(2)[:-1],
    'CRLF line ends': HDR[:-1] + b'\r\n' + mkrow(1)[:-1] + b'\r\n',
    'CRLF header only': HDR[:-1] + b'\r\n',
    'NUL byte inside a field': HDR + b'1,o\x00ne,0,5,0,,root,100,0\n' + mkrow(2),
    'NUL byte first': b'\x00' + HDR + mkrow(1),
    'NUL byte after the last row': HDR + mkrow(1) + b'\x00',
    'blank line in the middle': HDR + mkrow(1) + b'\n' + mkrow(2),
    'blank line at the end': HDR + mkrow(1) + b'\n',
    'header column of 5000 bytes': b'step,name,exit,duration,user,time,' + b'c' * 5000 + b'\n' + b'1,one,0,5,root,100\n',
    'header of 65 columns': b'step,name,exit,duration,user,time' + b',log' * 59 + b'\n' + b'1,one,0,5,root,100\n' + b'2,two,0,5,root,100' + b',x' * 59 + b'\n',
    'header of 256 columns': b'step,name,exit,duration,user,time' + b',log,delta,skip' * 83 + b',log\n' + b'1,one,0,5,root,100\n',
    'row with one column too many': HDR + mkrow(1)[:-1] + b',extra\n',
    'row of commas only': HDR + b',,,,,,,,\n',
    'two rows of one id': HDR + mkrow(1, b'first') + mkrow(1, b'second'),
    'header column that is a prefix of a field name': b'ste,name\n1,one\n',
    'header column that differs in case': b'Step,name,exit,duration,user,time\n1,one,0,5,root,100\n',
    'rows in descending id order': HDR + mkrow(3) + mkrow(2) + mkrow(1),
    'id column beyond 64 bits': HDR + mkrow(1).replace(b'1,', b'9223372036854775808,', 1),
}
START_FILES = [b''] * 22 + START_FILES + list(SHAPES.values())


def tokens_max(data):
    """length of the longest field of a step file"""
    return max((len(t) for line in data.split(b'\n') for t in line.split(b',')), default=0)


def ids_apart(ids):
    out = set()
    ids = sorted(set(ids))
    for a in ids:
        for b_ in ids:
            if b_ > a:
                d = b_ - a
                if d == 2 ** 31:
                    out.add('two ids exactly 2^31 apart')
                elif d == 2 ** 32:
                    out.add('two ids exactly 2^32 apart (equal low words)')
                elif 2 ** 31 < d < 2 ** 32:
                    out.add('two ids between 2^31 and 2^32 apart')
                elif d > 2 ** 32:
                    out.add('two ids more than 2^32 apart')
    return out


def file_ids(data):
    out = []
    for line in data.split(b'\n')[1:]:
        try:
            out.append(int(line.split(b',')[0]))
        except ValueError:
            pass
    return out


def classes_of(h, steps, final):
    """the boundary classes a case belongs to, from its content and from what was observed (sizes of the files it went through)"""
    cl = set()
    start = bytes.fromhex(h['start'])
    for name, data in SHAPES.items():
        if start == data:
            cl.add('start file: ' + name)
    if start == b'':
        cl.add('start file: empty')
    ids = file_ids(start)
    related = []
    for idh, kvh in h['writes']:
        try:
            ids.append(int(bytes.fromhex(idh)))
        except ValueError:
            pass
        if len(idh) // 2 >= 254:
            cl.add('id argument of %d bytes' % (len(idh) // 2))
        for k in kvh:
            b = bytes.fromhex(k)
            key, eq, val = b.partition(b'=')
            if eq and len(val) in LENS and key.decode('latin1') in FIELDS and len(val) > 1:
                cl.add('value of %d bytes%s' % (len(val), '' if len(val) <= MODEL_FIELD_CAP else ' (beyond the model cap: oracle only once it is in the file)'))
            if eq and len(val) == 1 and key.decode('latin1') in STRF:
                cl.add('string value of 1 byte')
            if eq and val == b'' and key == b'log':
                cl.add('empty value (optional field)')
            if eq and val == b'' and key in (b'name', b'user'):
                cl.add('empty value (mandatory field)')
            if eq and b'=' in val:
                cl.add("value containing '='")
            if len(key) >= 254:
                cl.add('key of %d bytes' % len(key))
            if b in BAD_KEYS and key.decode('latin1') not in FIELDS and any(f.encode().startswith(key.strip()) or key.strip().startswith(f.encode())
                                                                            or key.strip().lower() == f.encode() for f in FIELDS) and key.strip():
                cl.add('key that is a prefix / extension / case variant of a field name')
            if eq and key.decode('latin1') in INTF and val.strip().lstrip(b'+') in LIMIT_INT:
                cl.add('integer column at a 2^31 / 2^32 / 2^63 limit')
            if eq and key.decode('latin1') in INTF and val in BAD_INT[10:]:
                cl.add('integer column beyond 2^64')
            if eq and key == b'name':
                related.append(val)
    for c in ids_apart(ids):
        cl.add(c)
    rs = set(related)
    if any(a != b and b.startswith(a) for a in rs for b in rs if a):
        cl.add('names that are prefixes of each other')
    if any(a != b and a.lower() == b.lower() for a in rs for b in rs):
        cl.add('names that differ in case only')
    for ch, nm in ((b'=', "'='"), (b'"', 'a double quote'), (b' ', 'a blank'), (b'\r', 'CR'), (b',', "','"), (b'\n', 'newline')):
        if any(ch in a for a in rs):
            cl.add('name containing ' + nm)
    for x in h.get('read_names', []):
        nb = bytes.fromhex(x)
        if nb not in rs and any(a.startswith(nb) or nb.startswith(a) or a.lower() == nb.lower() for a in rs if a and nb):
            cl.add('read by a name that is a prefix / extension / case variant of a written name')
    for p_ in h.get('read_pos', []):
        if abs(p_) >= 2 ** 31 - 1:
            cl.add('read at position +-INT_MAX')
    # sizes of the files the commands went through
    for st in steps:
        for what, data in (('read', st['before']), ('written', st['after'] if st['rc'] == 0 else None)):
            if data is None:
                continue
            n = max(0, data.count(b'\n') - 1) if data.startswith(HDR) else None
            if n in COUNT_CLASSES and what == 'read':
                cl.add('write on a file of %d rows' % n)
            if len(data) in (BLOCK - 1, BLOCK, BLOCK + 1, 2 * BLOCK - 1, 2 * BLOCK, 2 * BLOCK + 1, 3 * BLOCK - 1, 3 * BLOCK, 3 * BLOCK + 1):
                cl.add('file %s of exactly %d bytes' % (what, len(data)))
            if what == 'read' and len(data) > BLOCK:
                pos, ends = 0, set()
                for line in data.split(b'\n')[:-1]:
                    pos += len(line) + 1
                    ends.add(pos)
                for m in (BLOCK - 1, BLOCK, BLOCK + 1, 2 * BLOCK - 1, 2 * BLOCK, 2 * BLOCK + 1):
                    if m in ends and m < len(data):
                        cl.add('file with a row that ends at byte %d' % m)
        if st['fault'] and st['new'] is not None and st['k'] is not None:
            nb = (len(st['new']) + BLOCK - 1) // BLOCK
            kk = st['k']
            where = ('%d' % kk if kk in (BLOCK - 1, BLOCK, BLOCK + 1, 2 * BLOCK - 1, 2 * BLOCK, 2 * BLOCK + 1, 3 * BLOCK) else
                     'length-1' if kk == len(st['new']) - 1 else 'length' if kk == len(st['new']) else None)
            if where and nb in (1, 2, 3):
                cl.add('refusal at k=%s of a rewrite of %d stdio block(s)' % (where, nb))
    n = max(0, final.count(b'\n') - 1) if final.startswith(HDR) else None
    if n in COUNT_CLASSES:
        cl.add('reads (first, last, -n, -(n+1), n+1, by name) on a file of %d rows' % n)
    if tokens_max(final) > MODEL_FIELD_CAP:
        cl.add('model capped: file with a field above %d bytes is judged by the dictionary oracle only' % MODEL_FIELD_CAP)
    return cl


def full_row(rng, i, name=None, **kw):
    kvs = [b'name=' + (name if name is not None else b'row%d' % i), b'exit=' + rng.choice([b'0', b'1']), b'duration=%d' % rng.randint(0, 99),
           b'user=root', b'time=17000000%02d' % rng.randint(0, 99)]
    for k, v in kw.items():
        kvs = [x for x in kvs if not x.startswith(k.encode() + b'=')] + [k.encode() + b'=' + v]
    rng.shuffle(kvs)
    return kvs


def gen_boundary(rng):
    """one history of a boundary class (see the comment above LENS)"""
    c = rng.choice(['length', 'length', 'rows', 'ids', 'ids-start', 'names', 'names', 'block-read', 'block-refuse', 'block-refuse', 'keys', 'positions'])
    h = {'start': '', 'writes': [], 'fault_at': -1}
    if c == 'length':
        ln = rng.choice(LENS + [1, 254, 255, 256, 1023, 1024, 1025, 4095, 4096, 4097])       # the cheap ones more often
        f = rng.choice(STRF)
        ws = [W(1, full_row(rng, 1))]
        how = rng.random()
        if how < 0.15:
            # a key / an argument without '=' / an id argument of that length: all must be refused (or read as the number they spell)
            n2 = min(ln, 4097)
            ws.append(W(2, full_row(rng, 2) + [rng.choice([b'k' * n2 + b'=v', b'k' * n2, b'name' + b'e' * n2 + b'=v'])]))
            ws.append(W(b'0' * n2 + b'3', full_row(rng, 3)))
            ws.append(W(4, full_row(rng, 4, exit=b'0' * n2 + b'7')))
        elif how < 0.55:
            ws.append(W(2, full_row(rng, 2, **{f: pattern(ln)})))                        # a new row with the long value
        else:
            ws.append(W(2, full_row(rng, 2)))
            ws.append(W(2, [f.encode() + b'=' + pattern(ln)]))                            # a partial update with the long value
        if ln <= MODEL_FIELD_CAP and rng.random() < 0.6:
            ws.append(W(3, full_row(rng, 3)))                                             # parsed and written back by a later command
            if rng.random() < 0.5:
                ws.append(W(2, [b'exit=3']))
        if rng.random() < 0.3 and ln <= MODEL_FIELD_CAP:
            h['fault_at'], h['fault_k'] = len(ws) - 1, rng.choice([ln - 1, ln, ln + 1, BLOCK, {'short': 1}, {'short': 0}])
        h['writes'] = ws
        h['read_names'] = [pattern(ln).hex(), pattern(ln)[:-1].hex()] if f == 'name' and ln <= 4097 else []
    elif c == 'rows':
        n = rng.choice(ROW_COUNTS + [15, 16, 17, 31, 32, 33, 63, 64, 65])
        ids = list(range(1, n + 1))
        o = rng.random()
        if o < 0.3:
            ids.reverse()
        elif o < 0.6:
            rng.shuffle(ids)
        ws = [W(i, mkkvs(i)) for i in ids]
        for _ in range(rng.randint(1, 4)):
            t = rng.choice([1, n, n // 2, n + 1, n + 2, 16, 17, 32, 33])
            ws.append(W(t, [rng.choice([b'exit=1', b'log=x.log', b'name=renamed%d' % t])] if t <= n and rng.random() < 0.7 else mkkvs(t)))
        h['writes'] = ws
        h['read_names'] = [b'step-number-1'.hex(), (b'step-number-%d' % n).hex(), (b'step-number-%d' % (n // 2)).hex(), (b'step-number-%d' % (n + 1)).hex()]
        h['read_pos'] = [15, 16, 17, 31, 32, 33, 63, 64, 65, 255, 256, 257]
        if rng.random() < 0.25:
            h['fault_at'], h['fault_k'] = len(ws) - 1, rng.choice([{'rows': n - 1}, {'rows': 16}, {'short': 1}, BLOCK, 0])
    elif c == 'ids':
        a, b = rng.choice(PAIR_IDS)
        ids = [a, b] + rng.sample([1, 2, -1, 7, 2147483647, -2147483647, 1073741824, -1073741824, 65536, -65536], rng.randint(0, 3))
        rng.shuffle(ids)
        ws = [W(i, full_row(rng, abs(i) % 1000, name=b'id%d' % i)) for i in ids]
        ws.append(W(rng.choice(ids), [b'exit=2']))
        h['writes'] = ws
        h['read_names'] = [(b'id%d' % a).hex(), (b'id%d' % b).hex()]
    elif c == 'ids-start':
        ids = rng.choice(START_IDS)
        h['start'] = (HDR + b''.join(mkrow(i, b'id%d' % i) for i in ids)).hex()
        low = [i & 0xffffffff for i in ids]
        ws = []
        for _ in range(rng.randint(1, 3)):
            t = rng.choice([x if x < 2 ** 31 else x - 2 ** 32 for x in low] + [1, 2, 3])
            if t == 0:
                t = 1
            ws.append(W(t, full_row(rng, 1, name=b'w%d' % t) if rng.random() < 0.7 else [b'exit=3']))
        h['writes'] = ws
        h['read_names'] = [(b'id%d' % ids[0]).hex(), (b'id%d' % ids[-1]).hex()]
    elif c == 'names':
        fam = rng.sample(NAME_FAMILY, rng.randint(2, 5))
        if rng.random() < 0.5 and b'one' not in fam:
            fam.append(b'one')
        ids = rng.sample(range(1, 9), len(fam))
        ws = [W(i, full_row(rng, i, name=nm)) for i, nm in zip(ids, fam)]
        if rng.random() < 0.4:
            ws.append(W(9, full_row(rng, 9, name=rng.choice(fam))))      # the same name twice: the lower id is read
        h['writes'] = ws
        h['read_names'] = [x.hex() for x in rng.sample(NAME_FAMILY, 5) + rng.sample(NAME_PROBES, 2) + [rng.choice(fam)[:-1], rng.choice(fam) + b'e']]
    elif c == 'block-read':
        # the file read by the commands ends / has a row boundary exactly at a stdio block boundary (built from the empty file, so
        # that the dictionary oracle judges every write and read)
        m = rng.choice([BLOCK - 1, BLOCK, BLOCK + 1, 2 * BLOCK - 1, 2 * BLOCK, 2 * BLOCK + 1])
        total = rng.choice([m, m, m + rng.randint(150, 600)])
        rows = sized_rows([m], total, rowlen=rng.choice([120, 160, 200]))
        ws = [W(i, mkkvs(i, n_, l_)) for i, n_, l_ in rows]
        last = rows[-1][0]
        ws.append(W(rng.choice([1, last, last + 1]), mkkvs(last + 1) if rng.random() < 0.5 else [b'exit=1']))
        h['writes'] = ws
    elif c == 'block-refuse':
        # seeded/C01-2 (fwrite(ptr, 1, len, fh) with the `n < 1` test kept): a rewrite of 1, 2 or 3 stdio blocks refused at a block
        # boundary, next to it, and one byte before the end
        nb = rng.choice([1, 2, 3])
        total = rng.choice([nb * BLOCK, nb * BLOCK - 1, nb * BLOCK - rng.randint(2, 2000), (nb - 1) * BLOCK + 1, (nb - 1) * BLOCK + rng.randint(2, 300)])
        total = max(total, 400)
        h['start'] = sized_file([x for x in (BLOCK, 2 * BLOCK) if x + 200 < total and rng.random() < 0.5], total, rowlen=rng.choice([60, 120, 200])).hex()
        nrows = bytes.fromhex(h['start']).count(b'\n') - 1
        h['writes'] = [W(rng.choice([1, nrows, max(1, nrows // 2)]), [rng.choice([b'exit=1', b'exit=0', b'skip=1'])])]     # the new content keeps the length
        h['fault_at'] = 0
        h['fault_k'] = rng.choice([BLOCK - 1, BLOCK, BLOCK + 1, 2 * BLOCK - 1, 2 * BLOCK, 2 * BLOCK + 1, 3 * BLOCK, {'short': 1}, {'short': 1}, {'short': 0}])
    elif c == 'keys':
        ws = [W(1, full_row(rng, 1))]
        for i in range(2, rng.randint(3, 6)):
            kvs = full_row(rng, i, name=rng.choice([b'x=y', b'=', b'a=b=c', b'name=one', b'=x']))
            r = rng.random()
            if r < 0.5:
                kvs.insert(rng.randint(0, len(kvs)), rng.choice(BAD_KEYS))
            elif r < 0.7:
                kvs.append(b'log=')
            ws.append(W(i, kvs))
        ws.append(W(1, [rng.choice(BAD_KEYS)]))
        h['writes'] = ws
    else:   # positions
        n = rng.randint(1, 5)
        h['writes'] = [W(i, full_row(rng, i)) for i in range(1, n + 1)]
        h['read_pos'] = rng.sample([0, 2147483647, -2147483647, 2147483646, 1000000, -1000000, 65536, -65536, 4, -4, 6, -6], 5)
    return h

P_BOUNDARY = 0.12


def gen_history(rng):
    if rng.random() < P_BOUNDARY:
        return gen_boundary(rng)
    start = rng.choice(START_FILES)
    n = rng.choice([1, 2, 3, 4, 6, 8, 12])
    known = set()
    ws = []
    for _ in range(n):
        idarg, kvs = gen_write(rng, known)
        ws.append([idarg.hex(), [kv.hex() for kv in kvs]])
        known.add(idarg.strip().lstrip(b'+').lstrip(b'0') or b'0')
    fault = rng.random() < 0.12
    if len(set(file_ids(start))) != len(file_ids(start)):
        # rows of one id: their order after qsort is libc's (the model's insertion sort reverses them), which the comparison evens out
        # for complete files only - the bytes of a CUT rewrite depend on it, so no refusal is injected on such a starting file
        fault = False
    h = {'start': start.hex(), 'writes': ws, 'fault_at': (rng.randrange(n) if fault else -1)}
    if fault:
        # the file system accepts only the first k bytes of the rewrite: nothing, a piece of the header, the header,
        # a cut inside a row, a cut on a row boundary ({'rows': j} = header + j rows, resolved when the case runs),
        # everything but the last byte, everything
        h['fault_k'] = rng.choice([0, 0, 1, 20, 48, 49, 50, rng.randint(51, 400), rng.randint(51, 400), {'rows': 1}, {'rows': 1},
                                   {'rows': 2}, {'rows': 3}, {'short': 1}, {'short': 0}])
    if rng.random() < 0.06:
        # a large step file (beyond the stdio buffer) and a file system that accepts only the first KiBs of the rewrite
        rows = rng.randint(75, 130)
        big = 'step,name,exit,duration,delta,log,user,time,skip\n' + ''.join(
            '%d,step-number-%d-with-a-long-name,0,%d,0,%03d-step-number-%d.log,root,17000000%02d,0\n' % (i, i, i, i, i, i % 100) for i in range(1, rows + 1))
        h = {'start': big.encode().hex(), 'writes': ws[:3], 'fault_at': rng.randrange(min(3, len(ws))),
             'fault_k': rng.choice([0, 1, 1024, 4095, 4096, 4097, 5000, 8191, 8192, 8193, {'short': 1}, {'short': 0}, {'rows': 40}, {'rows': 90},
                                    rng.randint(0, 9000)])}
    return h


def sh_write(impl, path, idarg, kvs, fault_k=None, tool=None):
    args = [os.path.join(impl, 'robsd-step'), '-W', '-f', path, '-i', idarg, '--'] + kvs
    if fault_k is not None:
        # RLIMIT_FSIZE = k bytes with SIGXFSZ ignored: write(2) lets the file grow to k bytes and then fails with EFBIG
        cmd = [tool, str(fault_k)] + args
    else:
        cmd = args
    r = subprocess.run(cmd, stdout=subprocess.PIPE, stderr=subprocess.PIPE, timeout=20)
    return r.returncode, r.stderr


def resolve_k(impl, work, idx, before, idarg, kvs, spec):
    """A symbolic refusal point, resolved against what the command writes when nothing is refused."""
    if isinstance(spec, int):
        return spec
    tmp = os.path.join(work, 'dry%d.csv' % idx)
    open(tmp, 'wb').write(before)
    sh_write(impl, tmp, idarg, kvs)
    new = open(tmp, 'rb').read()
    os.unlink(tmp)
    if 'rows' in spec:
        lines = new.split(b'\n')
        return len(b'\n'.join(lines[:1 + spec['rows']]) + b'\n') if len(lines) > 1 + spec['rows'] else max(0, len(new) - 1)
    return max(0, len(new) - spec['short'])


def dry_run(impl, work, idx, before, idarg, kvs):
    """what THIS command leaves in the file when the file system refuses nothing (None when it rejects its arguments)"""
    tmp = os.path.join(work, 'new%d.csv' % idx)
    open(tmp, 'wb').write(before)
    rc, _ = sh_write(impl, tmp, idarg, kvs)
    new = open(tmp, 'rb').read()
    os.unlink(tmp)
    return new if rc == 0 else None


def refusal_class(st):
    """The input class of the known finding refused-write-damages-file, as a predicate on the case and the observation:
    a fault plan was injected into THIS write, its refusal point k lies before the end of what the command writes,
    the command exited 1, and the file holds exactly the first k bytes of the new content.  Returns the sub-class
    named in the finding (k=0 / cut on a row boundary / cut inside a row) or None: any other damage is not the finding."""
    new = st.get('new')
    if not st['fault'] or new is None or st['k'] is None or not (st['k'] < len(new)) or st['rc'] != 1 or st['after'] != new[:st['k']]:
        return None
    if st['k'] == 0:
        return 'k=0 (empty file)'
    if st['after'].endswith(b'\n') and st['k'] >= len(new.split(b'\n')[0]) + 1:
        return 'cut on a row boundary'
    return 'cut inside a row or the header'


def sh_read(impl, path, how, arg, tmpl):
    r = subprocess.run([os.path.join(impl, 'robsd-step'), '-R', '-f', path, how, arg], input=tmpl,
                       stdout=subprocess.PIPE, stderr=subprocess.PIPE, timeout=20)
    return r.returncode, r.stdout


def argv_ok(b):
    return b'\0' not in b


def canon(file_hex):
    """Rows carrying the same id (possible only after a renumbering step= argument or in a hand-made file) are left in an
    order that depends on qsort; the comparison puts rows of equal id in byte order on both sides."""
    if file_hex in ('-', '!', ''):
        return file_hex
    lines = bytes.fromhex(file_hex).split(b'\n')
    if len(lines) < 4 or lines[-1] != b'':
        return file_hex
    rows = lines[1:-1]
    try:
        ids = [int(r.split(b',')[0]) for r in rows]
    except ValueError:
        return file_hex
    if len(set(ids)) == len(ids):
        return file_hex
    rows = [r for _, r in sorted(zip(ids, rows), key=lambda p: (p[0], p[1]))] if ids == sorted(ids) else rows
    return b'\n'.join([lines[0]] + rows + [b'']).hex()


def canon_ans(s):
    p = s.split(' ')
    return ' '.join([p[0], canon(p[1])] + p[2:]) if len(p) >= 2 else s


def names_of(h):
    out = []
    for idh, kvh in h['writes']:
        for k in kvh:
            b = bytes.fromhex(k)
            if b.startswith(b'name=') and argv_ok(b) and b[5:] and b[5:] not in out:
                out.append(b[5:])
    extra = [bytes.fromhex(x) for x in h.get('read_names', [])]
    return (out[:3] + [b'one'])[:4] + [x for x in extra if argv_ok(x)]


def run_history(impl, tool, work, idx, h):
    path = os.path.join(work, 'h%d.csv' % idx)
    open(path, 'wb').write(bytes.fromhex(h['start']))
    steps = []
    for i, (idh, kvh) in enumerate(h['writes']):
        before = open(path, 'rb').read()
        fault = (i == h['fault_at'])
        idarg, kvs = bytes.fromhex(idh), [bytes.fromhex(k) for k in kvh]
        k = None
        new = None
        if fault:
            k = resolve_k(impl, work, idx, before, idarg, kvs, h.get('fault_k', 1024 * h.get('fault_blocks', 0)))
            new = dry_run(impl, work, idx, before, idarg, kvs)
        rc, err = sh_write(impl, path, idarg, kvs, k, tool)
        after = open(path, 'rb').read()
        steps.append({'before': before, 'rc': rc, 'after': after, 'fault': fault, 'k': k, 'new': new, 'stderr': err[-200:]})
    final = open(path, 'rb').read()
    reads = []
    nrows = max(0, final.count(b'\n') - 1)
    # the last row from the front and from the back, and the first position beyond the rows on either side
    rel = [p for p in (nrows, nrows + 1, -nrows, -(nrows + 1)) if p not in (0, 1, 2, 3, -1, -2, 5, -5)]
    for pos in [1, 2, 3, -1, -2, 5, -5] + sorted(set(rel + [p for p in h.get('read_pos', []) if p not in (1, 2, 3, -1, -2, 5, -5)])):
        for f in (FIELDS if pos in (1, -1) else ['step', 'name', 'log'] if pos in (2, 3, -2, 5, -5) else ['step', 'name'] if abs(pos) == nrows else ['step']):
            rc, out = sh_read(impl, path, '-i', str(pos), ('${%s}\n' % f).encode())
            reads.append((pos, f, rc, out))
    byname = []
    for nm in names_of(h):
        rcn, outn = sh_read(impl, path, '-n', nm, b'${step}:${name}:${exit}\n')
        rc1, out1 = sh_read(impl, path, '-n', nm, b'${step}\n')          # which row: for the oracle
        byname.append((nm, rcn, outn, rc1, out1))
    os.unlink(path)
    return steps, final, reads, byname


def build_fsize(ctx):
    d = ctx.mkscratch('fsize')
    exe = os.path.join(d, 'c01_fsize')
    r = common.sh(['cc', '-O1', os.path.join(common.VERIF, 'tools', 'c01_fsize.c'), '-o', exe])
    if r.returncode != 0:
        raise common.BuildFailure('c01_fsize: ' + r.stdout[-800:])
    return exe


def renumbering(h, steps):
    """accepted writes whose step=J names another id than -i (the row is renumbered)"""
    for (idh, kvh), st in zip(h['writes'], steps):
        if st['rc'] != 0:
            continue
        try:
            want = int(bytes.fromhex(idh).decode())
        except ValueError:
            continue
        for k in kvh:
            b = bytes.fromhex(k)
            if b.startswith(b'step='):
                try:
                    if int(b[5:].decode()) != want:
                        return True
                except ValueError:
                    pass
    return False


def evaluate(ctx, hs, res):
    impl = ctx.build_impl()
    drv = ctx.build_driver('st', withz=True)
    tool = build_fsize(ctx)
    work = ctx.mkscratch('c01')
    with ThreadPoolExecutor(16) as ex:
        obs = list(ex.map(lambda ih: run_history(impl, tool, work, ih[0], ih[1]), enumerate(hs)))
    qs = []
    index = []
    for hi, (h, (steps, final, reads, byname)) in enumerate(zip(hs, obs)):
        for c_ in sorted(classes_of(h, steps, final)):
            res.count('class: ' + c_)
        final_max = tokens_max(final)
        for i, st in enumerate(steps):
            idh, kvh = h['writes'][i]
            if max(tokens_max(st['before']), tokens_max(st['after']) if st['fault'] else 0) > MODEL_FIELD_CAP:
                # the model's lexer is quadratic in the length of a field (see MODEL_FIELD_CAP): this write is judged by the oracle only
                res.count('model capped: write on a file with a field above %d bytes not replayed on the model' % MODEL_FIELD_CAP)
                res.evaluations += 1
                if st['rc'] not in (0, 1):
                    res.oracle_failures.append({'case': {'history': h, 'step': i}, 'signature': 'abnormal-termination',
                                                'what': 'robsd-step -W terminated with status %d' % st['rc']})
                if st['rc'] != 0 and st['after'] != st['before'] and not st['fault']:
                    res.oracle_failures.append({'case': {'history': h, 'step': i}, 'signature': 'rejected-write-changed-file',
                                                'what': 'write exited %d and changed the file' % st['rc']})
                continue
            qs.append(' '.join(['writek', str(st['k']) if st['fault'] else '-', hexs(st['before']), idh or '-', str(len(kvh))] + [k or '-' for k in kvh]))
            index.append(('w', hi, i))
            if st['fault']:
                qs.append(qs_for_write(h, i, st['before'], False))       # what the file must hold if the command says 0
                index.append(('w0', hi, i))
                qs.append('ids ' + hexs(st['before']))
                index.append(('ib', hi, i))
                qs.append('ids ' + hexs(st['after']))
                index.append(('ia', hi, i))
                qs.append('canon ' + hexs(st['before']))
                index.append(('cb', hi, i))
                qs.append('canon ' + hexs(st['after']))
                index.append(('ca', hi, i))
            elif h['start'] != '':
                # a write on a hand-made starting file (the dictionary oracle below needs a history from the empty file): the rows the
                # model reads from the file before and after, and the dictionary specification's verdict on the same arguments for an
                # id the file does not hold (a new row: spec_write then depends on nothing else that is in the file)
                qs.append('canon ' + hexs(st['before']))
                index.append(('scb', hi, i))
                qs.append('canon ' + hexs(st['after']))
                index.append(('sca', hi, i))
                qs.append(' '.join(['hist', '1', idh or '-', '1', str(len(kvh))] + [k or '-' for k in kvh] + ['0']))
                index.append(('snew', hi, i))
        nrows_final = max(0, final.count(b'\n') - 1)
        light_done = set()
        for (pos, f, rc, out) in reads:
            if pos > MODEL_POS_CAP:
                # Z.to_nat (pos - 1) in select_row / spec_read: not computed; with fewer rows than that the command must fail
                res.evaluations += 1
                res.count('model capped: read at a position above %d compared with the fixed answer (exit 1, no output)' % MODEL_POS_CAP)
                if nrows_final < pos and (rc, out) != (1, b''):
                    res.disagreements.append({'case': {'history': h, 'read': [pos, f]}, 'model': '1 - (not computed: the file has %d rows)' % nrows_final,
                                              'impl': '%d %s' % (rc, hexs(out))})
                continue
            if final_max > MODEL_FIELD_CAP or (final_max > MODEL_LIGHT and not (pos in (1, -1, 2) and f in ('name', 'log'))) or (final_max > MODEL_LIGHT2 and pos != 2):
                continue
            qs.append(' '.join(['read', hexs(final), 'i', str(pos).encode().hex(), ('${%s}\n' % f).encode().hex()]))
            index.append(('r', hi, (pos, f, rc, out)))
        for ni, (nm, rc, out, rc1, out1) in enumerate(byname):
            if final_max > MODEL_FIELD_CAP or (final_max > MODEL_LIGHT and ni > 0):
                continue
            qs.append(' '.join(['read', hexs(final), 'n', nm.hex() or '-', b'${step}:${name}:${exit}\n'.hex()]))
            index.append(('n', hi, (nm, rc, out)))
        oreads = [r_ for r_ in reads if r_[0] <= MODEL_POS_CAP]
        # a history with a refused write: the two-sided agreement on the writes BEFORE the refusal is still judged
        if h['start'] == '' and any(s_['fault'] for s_ in steps) and h['fault_at'] > 0:
            toks = ['hist', str(h['fault_at'])]
            for (idh, kvh), st in list(zip(h['writes'], steps))[:h['fault_at']]:
                toks += [idh or '-', '1' if st['rc'] == 0 else '0', str(len(kvh))] + [k or '-' for k in kvh]
            toks.append('0')
            qs.append(' '.join(toks))
            index.append(('hp', hi, None))
        # oracle on the whole observed history, only when it started from the empty file
        if h['start'] == '':
            toks = ['hist', str(len(steps))]
            for (idh, kvh), st in zip(h['writes'], steps):
                toks += [idh or '-', '1' if st['rc'] == 0 else '0', str(len(kvh))] + [k or '-' for k in kvh]
            toks.append(str(len(oreads)))
            for (pos, f, rc, out) in oreads:
                toks += [str(pos), f.encode().hex(), hexs(out) if rc == 0 else '!']
            qs.append(' '.join(toks))
            index.append(('h', hi, None))
            # the same writes, then the reads by name
            toks = ['histn', str(len(steps))]
            for (idh, kvh), st in zip(h['writes'], steps):
                toks += [idh or '-', '1' if st['rc'] == 0 else '0', str(len(kvh))] + [k or '-' for k in kvh]
            toks.append(str(len(byname)))
            for (nm, rc, out, rc1, out1) in byname:
                toks += [nm.hex() or '-', b'step'.hex(), hexs(out1) if rc1 == 0 else '!']
            qs.append(' '.join(toks))
            index.append(('hn', hi, None))
    ans = run_driver_par(drv, qs)
    check_expectations(hs, obs, res)
    ids_before = {}
    for (kind, hi, info), a in zip(index, ans):
        h = hs[hi]
        steps, final, reads, byname = obs[hi]
        if kind == 'w':
            st = steps[info]
            res.evaluations += 1
            res.count('write rc=%d%s' % (st['rc'], ' refused' if st['fault'] else ''))
            impl_s = '%d %s' % (st['rc'], hexs(st['after']))
            if st['fault']:
                # the same command under the same refusal point on the model: exit status AND the bytes left in the file
                res.count('refusal ' + ('nothing' if st['k'] == 0 else 'below one stdio block' if st['k'] < 4096 else 'beyond one stdio block'))
            else:
                if st['rc'] != 0 and st['after'] != st['before']:
                    res.oracle_failures.append({'case': {'history': h, 'step': info}, 'signature': 'rejected-write-changed-file',
                                                'what': 'write exited %d and changed the file' % st['rc']})
            if st['rc'] not in (0, 1):
                res.oracle_failures.append({'case': {'history': h, 'step': info}, 'signature': 'abnormal-termination',
                                            'what': 'robsd-step -W terminated with status %d' % st['rc']})
            if canon_ans(impl_s) != canon_ans(a):
                res.disagreements.append({'case': {'history': h, 'step': info}, 'model': a[:400], 'impl': impl_s[:400]})
        elif kind == 'w0':
            st = steps[info]
            ok_model = a.split(' ')
            # oracle: exit 0 only if the file holds the new state
            if st['rc'] == 0 and ok_model[0] == '0' and canon(ok_model[1]) != canon(hexs(st['after'])):
                res.oracle_failures.append({'case': {'history': h, 'step': info}, 'signature': 'exit0-without-new-state',
                                            'what': 'write exited 0 under a refusing file system (first %d bytes accepted) but the file does not hold the new state (size %d)' % (st['k'], len(st['after']))})
            # oracle: a command that rejects its arguments does not touch the file, whatever the file system would do
            if ok_model[0] != '0' and (st['rc'] == 0 or st['after'] != st['before']):
                res.oracle_failures.append({'case': {'history': h, 'step': info}, 'signature': 'rejected-write-changed-file',
                                            'what': 'a write that rejects its arguments exited %d / changed the file under a refusing file system' % st['rc']})
        elif kind == 'ib':
            ids_before[(hi, info)] = a
        elif kind == 'ia':
            ids_before[(hi, info, 'after')] = a
        elif kind == 'cb':
            ids_before[(hi, info, 'cb')] = a
        elif kind == 'ca':
            # ORACLE (clause 1 of the property under fault_sequences): after a write that did NOT exit 0 the step file must still
            # be readable and hold the rows it held (the most recently written values): the parsed rows, re-serialised in id
            # order, are compared - not the bytes, a refused write need not leave the bytes alone, only what reads return.
            st = steps[info]
            cb = ids_before.get((hi, info, 'cb'), 'error')
            b, aa = ids_before.get((hi, info), 'error'), ids_before.get((hi, info, 'after'), 'error')
            if st['rc'] != 0 and cb.startswith('ok') and a != cb:
                had = set(x for x in b[3:].split(',') if x) if b.startswith('ok') else set()
                left = set(x for x in aa[3:].split(',') if x) if aa.startswith('ok') else None
                if left is None:
                    how = 'left a step file that no command can read'
                elif had - left:
                    how = 'left a step file that still parses but lacks rows %s written earlier' % sorted(had - left)
                else:
                    how = 'left a step file whose rows differ from those written earlier'
                cls = refusal_class(st)
                if cls is not None:
                    # the known finding, recognised by the case: a fault plan with k < length was injected into THIS very
                    # write, it exited 1, and the file is exactly the first k bytes of the new content
                    res.count('refused write (%s) %s' % (cls, 'left an unreadable file' if left is None else 'left a readable file without rows' if had - left else 'changed rows'))
                    res.oracle_failures.append({'case': {'history': h, 'step': info}, 'signature': 'refused-write-damages-file',
                                                'what': 'a write refused by the file system (first %d of %d bytes accepted: %s) exited 1 and %s'
                                                        % (st['k'], len(st['new']), cls, how)})
                else:
                    # any other damage by a failing write is NOT the known finding (e.g. bytes other than a prefix of the new
                    # content, an exit status other than 1, damage although everything was accepted, no new content at all)
                    res.oracle_failures.append({'case': {'history': h, 'step': info}, 'signature': 'failed-write-damaged-file',
                                                'what': 'a write under a refusing file system (first %s bytes accepted, new content %s bytes) exited %d and %s; the file is not '
                                                        'the first k bytes of the new content with k below its length, so this is not the known refusal damage'
                                                        % (st['k'], len(st['new']) if st['new'] is not None else 'none:', st['rc'], how)})
        elif kind == 'scb':
            ids_before[(hi, info, 'scb')] = a
        elif kind == 'sca':
            ids_before[(hi, info, 'sca')] = a
        elif kind == 'snew':
            start_file_oracle(h, info, steps[info], ids_before.get((hi, info, 'scb'), 'error'), ids_before.get((hi, info, 'sca'), 'error'), a, res)
        elif kind == 'r':
            pos, f, rc, out = info
            res.evaluations += 1
            if a != '%d %s' % (rc, hexs(out)):
                res.disagreements.append({'case': {'history': h, 'read': [pos, f]}, 'model': a, 'impl': '%d %s' % (rc, hexs(out))})
        elif kind == 'n':
            nm, rc, out = info
            res.evaluations += 1
            res.count('read by name rc=%d' % rc)
            if a != '%d %s' % (rc, hexs(out)):
                res.disagreements.append({'case': {'history': h, 'read': 'name ' + nm.hex()}, 'model': a, 'impl': '%d %s' % (rc, hexs(out))})
        elif kind == 'hp':
            ok, nrows, mism = (a.split(' ') + ['-'])[:3]
            res.count('history with a refused write: writes before it judged by the two-sided oracle')
            if ok != '1' and not renumbering(h, steps[:h['fault_at']]):
                res.oracle_failures.append({'case': {'history': h}, 'signature': 'acceptable-write-refused' if mism.endswith(':S') else 'readback-differs-from-written',
                                            'what': 'before the refused write of the history, write %s: %s' % (mism[:-2], 'the dictionary specification accepts it, '
                                                    'robsd-step -W refused' if mism.endswith(':S') else 'robsd-step -W accepted what the specification rejects')})
        elif kind == 'hn':
            okn, mism = (a.split(' ') + ['-'])[:2]
            # a refused acceptable write / an accepted unacceptable one is reported once, by the 'h' answer below
            if okn != '1' and mism == '-' and not any(s['fault'] for s in steps) and not renumbering(h, steps):
                res.oracle_failures.append({'case': {'history': h}, 'signature': 'read-by-name-wrong-row',
                                            'what': 'after the history, reading by name does not select the first row in ascending id order '
                                                    'that carries the name (or fails although such a row exists)'})
        else:
            ok, nrows, mism = (a.split(' ') + ['-'])[:3]
            res.count('history judged by the two-sided oracle' if not any(s['fault'] for s in steps) else 'history with a refused write (history oracle not applied)')
            accepted = sum(1 for s in steps if s['rc'] == 0)
            if accepted >= 2:
                res.nontrivial.add(hashlib.sha1(json.dumps(h, sort_keys=True).encode()).hexdigest())
            renum = renumbering(h, steps)
            if renum:
                res.count('history with a renumbering step= argument')
                res.oracle_failures.append({'case': {'history': h}, 'signature': 'step-key-renumbers-row',
                                            'what': 'robsd-step -W -i I -- step=J (J different from I) exited 0: the row of id I now carries id J'})
            if ok != '1' and not any(s['fault'] for s in steps) and not renum:
                if mism.endswith(':S'):
                    # the side the oracle lacked (gap report 2): the dictionary specification accepts the write, the command refused it
                    wi = int(mism[:-2])
                    res.oracle_failures.append({'case': {'history': h, 'step': wi}, 'signature': 'acceptable-write-refused',
                                                'what': 'write %d of the history is accepted by the dictionary specification but robsd-step -W exited %d'
                                                        % (wi, steps[wi]['rc'])})
                else:
                    res.oracle_failures.append({'case': {'history': h}, 'signature': 'readback-differs-from-written',
                                                'what': 'after the history, reading does not return the most recently written values '
                                                        '(or a write was accepted that cannot be read back%s)'
                                                        % ('' if mism == '-' else ': write %s, which the specification rejects' % mism[:-2])})
            # rows ascending by id on disk
            ids = []
            for line in final.split(b'\n')[1:]:
                if line:
                    try:
                        ids.append(int(line.split(b',')[0]))
                    except ValueError:
                        pass
            if (ids != sorted(ids) or len(set(ids)) != len(ids)) and not renum and not any(s['fault'] for s in steps):
                res.oracle_failures.append({'case': {'history': h}, 'signature': 'rows-not-ascending',
                                            'what': 'ids on disk: %s' % ids})


def run_driver_par(drv, qs, n=6):
    """the questions are independent of each other: several driver processes, the long questions (the costly ones) spread evenly"""
    if len(qs) < 200:
        return common.run_driver(drv, qs)
    order = sorted(range(len(qs)), key=lambda i: -len(qs[i]))
    bins, load = [[] for _ in range(n)], [0] * n
    for i in order:
        b = load.index(min(load))
        bins[b].append(i)
        load[b] += len(qs[i]) + 200
    with ThreadPoolExecutor(n) as ex:
        outs = list(ex.map(lambda b: common.run_driver(drv, [qs[i] for i in b]) if b else [], bins))
    ans = [None] * len(qs)
    for b, o in zip(bins, outs):
        for i, a in zip(b, o):
            ans[i] = a
    return ans


def canon_rows(a):
    """'ok <hex>' of the driver's canon command -> [(id, row bytes)] in the order given, None when the file does not parse or a row cannot be serialised"""
    if not a.startswith('ok') or a == 'ok !':
        return None
    body = common.unhex(a[3:]) if len(a) > 3 else b''
    rows = []
    for line in body.split(b'\n')[:-1]:
        try:
            rows.append((int(line.split(b',')[0]), line))
        except ValueError:
            return None
    return rows


def start_file_oracle(h, i, st, cb, ca, spec_new, res):
    """ORACLE for a write on a hand-made starting file (no fault injected), in terms of the rows the model's reader finds in the file
    before and after: an accepted write -i I leaves every row of another id unchanged, a row of id I, and the file in ascending id
    order; a rejected write is judged by the existing rejected-write-changed-file.  For an id the file does not hold the write
    creates a row, and whether it must be accepted is what the dictionary specification says about the same arguments on the empty
    dictionary (spec_write looks at nothing but the row of that id)."""
    before = canon_rows(cb)
    if before is None:
        return            # the starting file does not parse, or holds a row that cannot be written back: outside the quantifier
    res.count('write on a hand-made starting file judged by the starting-file oracle')
    idarg = bytes.fromhex(h['writes'][i][0])
    try:
        want = int(idarg.decode('ascii').strip(' \t\n\v\f\r'))
    except (ValueError, UnicodeDecodeError):
        want = None
    accepts = spec_new.split(' ')[0] == '1'
    if want is not None and want not in [r[0] for r in before] and '_' not in idarg.decode('ascii'):
        if accepts and st['rc'] != 0:
            res.oracle_failures.append({'case': {'history': h, 'step': i}, 'signature': 'acceptable-write-refused',
                                        'what': 'write %d (a new row of id %d on a starting file holding ids %s) is accepted by the dictionary specification '
                                                'but robsd-step -W exited %d' % (i, want, [r[0] for r in before][:8], st['rc'])})
        if not accepts and st['rc'] == 0:
            res.oracle_failures.append({'case': {'history': h, 'step': i}, 'signature': 'readback-differs-from-written',
                                        'what': 'write %d (a new row of id %d on a starting file): robsd-step -W accepted what the specification rejects' % (i, want)})
    if st['rc'] != 0 or want is None:
        return
    after = canon_rows(ca)
    if after is None:
        res.oracle_failures.append({'case': {'history': h, 'step': i}, 'signature': 'exit0-without-new-state',
                                    'what': 'write %d exited 0 on a readable starting file and left a file that does not parse' % i})
        return
    ob, oa = sorted(r for r in before if r[0] != want), sorted(r for r in after if r[0] != want)
    if ob != oa or not any(r[0] == want for r in after):
        res.oracle_failures.append({'case': {'history': h, 'step': i}, 'signature': 'other-rows-changed',
                                    'what': 'write %d (-i %d) exited 0; rows of other ids before: %s, after: %s; rows of id %d after: %d'
                                            % (i, want, [r[0] for r in ob][:8], [r[0] for r in oa][:8], want, sum(1 for r in after if r[0] == want))})
    disk = file_ids(st['after'])
    if disk != sorted(disk):
        res.oracle_failures.append({'case': {'history': h, 'step': i}, 'signature': 'rows-not-ascending', 'what': 'ids on disk after write %d: %s' % (i, disk[:12])})


KILL_POINTS = ['step.before_truncate', 'step.after_truncate']


def kill_at(impl, work, idx, path, idarg, kvs, point):
    """robsd-step -W stopped at a sync point of steps_write (ROBSD_VERIF hook), then SIGTERM + SIGCONT: what C07's takedown
    of the step's process group does to a step_write that happens to run.  Returns (reached, returncode)."""
    fifo = os.path.join(work, 'kfifo%d' % idx)
    os.mkfifo(fifo)
    fd = os.open(fifo, os.O_RDWR | os.O_NONBLOCK)
    env = dict(os.environ, ROBSD_VERIF_SYNC=point, ROBSD_VERIF_FIFO=fifo)
    p = subprocess.Popen([os.path.join(impl, 'robsd-step'), '-W', '-f', path, '-i', idarg, '--'] + kvs, env=env,
                         stdin=subprocess.DEVNULL, stdout=subprocess.PIPE, stderr=subprocess.PIPE)
    reached = False
    deadline = time.time() + 10
    try:
        while time.time() < deadline and p.poll() is None:
            try:
                st = open('/proc/%d/stat' % p.pid).read()
                if st[st.rindex(')') + 2] in 'Tt':
                    reached = True
                    break
            except (OSError, ValueError):
                pass
            time.sleep(0.0005)
        if reached:
            os.kill(p.pid, signal.SIGTERM)
            os.kill(p.pid, signal.SIGCONT)
        try:
            p.wait(timeout=10)
        except subprocess.TimeoutExpired:
            p.kill()
            p.wait()
    finally:
        os.close(fd)
        os.unlink(fifo)
    return reached, p.returncode


def kill_lane(ctx, impl, drv, res, rounds):
    """The most likely trigger of the state the known finding describes needs no file-system fault: C07's takedown sends SIGTERM
    to the step's process group, and a `robsd-step -W` (util.sh step_write) of that group that is between fopen("we") and fclose
    dies there; the kernel drops its flock.  Stopped at step.after_truncate and terminated, the command leaves the k = 0 state
    (an empty file: nothing left stdio yet); terminated at step.before_truncate it leaves the file untouched.
    OUTSIDE C01's quantifier - counted, not judged: C01 ranges over write INVOCATIONS that run to their exit status ("a write
    command that rejects its arguments exits non-zero ...", "exits zero only if ...") and over "a write failure injected at the
    final flush"; a killed command reports no exit status, so no clause of C01 speaks about it (C02 likewise quantifies over
    schedules, not crashes).  What IS compared: the bytes left are those the fault model predicts for k = 0 (model: writek 0),
    i.e. the kill reaches exactly the state of the known finding; and what the next writer then does is recorded."""
    work = ctx.mkscratch('c01k')
    rng = ctx.rng
    n_reached = 0
    for r in range(rounds):
        path = os.path.join(work, 'k%d.csv' % r)
        open(path, 'wb').write(b'')
        nrows = rng.choice([1, 2, 3, 5, 90])
        for i in range(1, nrows + 1):
            sh_write(impl, path, str(i).encode(), [b'name=step%d' % i, b'exit=0', b'duration=%d' % i, b'user=root', b'time=17000000%02d' % (i % 100)])
        before = open(path, 'rb').read()
        point = rng.choice(KILL_POINTS + ['step.after_truncate'])
        victim_id = str(rng.choice([1, nrows, nrows + 1])).encode()
        kvs = [b'name=victim', b'exit=1', b'duration=7', b'user=root', b'time=1700000099']
        reached, rc = kill_at(impl, work, r, path, victim_id.decode(), [k.decode() for k in kvs], point)
        after = open(path, 'rb').read()
        res.evaluations += 1
        if not reached:
            res.tie_errors.append('kill lane: robsd-step -W never stopped at %s (ROBSD_VERIF hook inactive?)' % point)
            continue
        n_reached += 1
        a = common.run_driver(drv, [' '.join(['writek', '0', hexs(before), victim_id.hex(), str(len(kvs))] + [k.hex() for k in kvs])])[0]
        model_after = common.unhex(a.split(' ')[1]) if point == 'step.after_truncate' else before
        case = {'kill': True, 'rows': nrows, 'point': point, 'id': victim_id.decode()}
        res.count('outside: writer killed by SIGTERM at %s (no exit status of a write command to judge; state %s)'
                  % (point, 'k=0: empty file' if point == 'step.after_truncate' else 'file untouched'))
        if rc != -signal.SIGTERM:
            res.disagreements.append({'case': case, 'model': 'terminated by SIGTERM', 'impl': 'return code %s' % rc})
        if after != model_after:
            res.disagreements.append({'case': case, 'model': model_after.hex()[:200], 'impl': after.hex()[:200],
                                      'why': 'bytes left by a writer killed at %s differ from the k=0 state of the fault model' % point})
        # what the next writer of the invocation experiences: it silently starts from the damaged file
        rc2, _ = sh_write(impl, path, b'777', [b'name=next', b'exit=0', b'duration=1', b'user=root', b'time=1700000100'])
        ids = common.run_driver(drv, ['ids ' + hexs(open(path, 'rb').read())])[0]
        if point == 'step.after_truncate':
            res.count('after the kill the next write exited %d and the file holds ids %s of formerly %d rows' % (rc2, ids[3:] if ids.startswith('ok') else ids, nrows)
                      if nrows <= 3 else 'after the kill of a large file the next write exited %d' % rc2)
        os.unlink(path)
    if rounds and not n_reached:
        res.tie_errors.append('kill lane: no round reached a sync point')


def qs_for_write(h, i, before, fault):
    idh, kvh = h['writes'][i]
    return ' '.join(['write', '1' if fault else '0', hexs(before), idh or '-', str(len(kvh))] + [k or '-' for k in kvh])


def load_corpus():
    """corpus/C01/*.json: one history per `fixed`/`known` entry of known_findings.json for C01 (and the stored seeds); they run
    FIRST.  A missing or empty directory is an error (it used to be an empty list, silently)."""
    d = os.path.join(common.VERIF, 'corpus', 'C01')
    paths = sorted(glob.glob(os.path.join(d, '*.json')))
    if not paths:
        raise common.BuildFailure('corpus/C01 is missing or empty (%s): the replays of the repaired defects and of the known finding must run first' % d)
    out = []
    for p in paths:
        h = expand(json.load(open(p)))
        h['corpus'] = os.path.basename(p)
        for key in ('start', 'writes', 'fault_at'):
            if key not in h:
                raise common.BuildFailure('%s: corpus case without %r' % (p, key))
        out.append(h)
    # every entry of known_findings.json for C01 names its replay class; each class must be present
    need = ['d1', 'd2', 'd3', 'd4', 'd22', 'known_k0', 'known_row_boundary', 'known_mid_row']
    have = ' '.join(os.path.basename(p) for p in paths)
    missing = [n for n in need if n not in have]
    if missing:
        raise common.BuildFailure('corpus/C01 lacks a case for: %s' % ', '.join(missing))
    return out


def check_expectations(hs, obs, res):
    """A corpus case may pin what the repaired / known behaviour looks like (`expect`: exit status per write, and whether the
    refusal damage of the known finding must be OBSERVED): a corpus case that no longer exercises its input class - the
    refusal lands elsewhere, the write is no longer reached - is a broken tie, not a pass."""
    for h, (steps, final, reads, byname) in zip(hs, obs):
        exp = h.get('expect')
        if not exp:
            continue
        if 'rc' in exp and [st['rc'] for st in steps] != exp['rc']:
            res.count('corpus case with unexpected exit statuses')
            res.oracle_failures.append({'case': {'history': h}, 'signature': 'repaired-defect-is-back',
                                        'what': 'corpus case %s: exit statuses %s, the repaired behaviour is %s' % (h.get('corpus'), [st['rc'] for st in steps], exp['rc'])})
        if 'refusal_class' in exp:
            st = steps[h['fault_at']]
            got = refusal_class(st)
            if got != exp['refusal_class']:
                res.tie_errors.append('corpus case %s no longer exercises its input class: refusal class %r, expected %r (k=%s, new content %s bytes, rc=%s)'
                                      % (h.get('corpus'), got, exp['refusal_class'], st['k'], len(st['new']) if st['new'] is not None else None, st['rc']))


def valid(h):
    for idh, kvh in h['writes']:
        if not argv_ok(bytes.fromhex(idh)) or any(not argv_ok(bytes.fromhex(k)) for k in kvh):
            return False
    return True


def run(ctx, n=None):
    res = common.Result()
    res.rule = ('the corpus first (one history per repaired defect D1-D4, D22, per class of the known finding, per stored seed); histories of 1-12 robsd-step -W invocations (new/replaced ids, partial updates, repeated keys, unknown keys, missing =, step= naming the same and '
                'another id, hostile string values with , newline $ and empty, integers at the 64-bit limits and with strtoll syntax variants, id arguments at and '
                'beyond +-INT_MAX) on empty and hand-made starting files; in ~12% of histories (and in the ~6% with a file of several stdio blocks) one write runs '
                'on a file system that accepts only the first k bytes (k = 0, inside the header, inside a row, on a row boundary, at and around the 4096/8192 block '
                'boundaries, all but the last byte, all), exit status and file bytes compared with the model; followed by reads of every field at 7 positions and '
                'by up to 4 names, judged by the two-sided dictionary oracle; a lane in which the writer is terminated by SIGTERM at step.before_truncate / step.after_truncate (outside the quantifier: counted, the bytes left compared with the k=0 state of the fault model); boundary classes (corpus/C01/b*.json first, then ~12% of the generated histories; `class:` lines of the input distribution): string values, keys and id arguments of 0, 1, 254-256, 1023-1025, 4095-4097, 8191-8193, 65535/65536 and 131000 bytes (model asked to parse fields up to 8193 bytes, the dictionary oracle judges the rest), 15-17 / 31-33 / 63-65 / 255-257 rows written one by one, integer columns at the 2^31 / 2^32 / 2^63 limits, ids 2^31 apart and (hand-made files) 2^32 apart, names and keys that are prefixes / extensions / case variants of each other, reads at n, n+1, -n, -(n+1), 0 and +-INT_MAX, hand-made starting files of 20 shapes (judged by the starting-file oracle: other rows unchanged, ascending order, the verdict of the specification for a new id), files and rows that end at 4095-4097 / 8191-8193 bytes, refusals at k = 4095, 4096, 4097, 8192, length-1 on rewrites of 1, 2 and 3 stdio blocks; non-trivial = started from the empty file with at least two accepted writes; distinct by content hash')
    n = n or ctx.budget(250, 8000)
    hs = [h for h in load_corpus() + [gen_history(ctx.rng) for _ in range(n)] if valid(h)]
    res.samples = hs[:2]
    for i in range(0, len(hs), 1000):
        evaluate(ctx, hs[i:i + 1000], res)
    if not any(k.startswith('history judged by the two-sided oracle') for k in res.distribution):
        res.tie_errors.append('no history was judged by the two-sided oracle')
    if not any(k.startswith('refusal ') for k in res.distribution):
        res.tie_errors.append('no write ran under a refusing file system')
    kill_lane(ctx, ctx.build_impl(), ctx.build_driver('st', withz=True), res, ctx.budget(12, 200) if n >= 250 else 4)
    res.traces_validated = len(hs)
    res.extra['histories'] = len(hs)
    return res


def extended_search(ctx, res, proof):
    return run(ctx, n=2500)


def replay(ctx, rep):
    case = rep.get('case') or (rep.get('first_disagreements') or [{}])[0].get('case')
    res = common.Result()
    if case.get('kill'):
        kill_lane(ctx, ctx.build_impl(), ctx.build_driver('st', withz=True), res, 30)
        print('disagreements:', res.disagreements[:3], 'tie errors:', res.tie_errors[:3])
        return 1 if (res.disagreements or res.tie_errors) else 0
    h = case['history']
    evaluate(ctx, [h], res)
    print('history:', json.dumps(h))
    print('disagreements:', res.disagreements)
    print('oracle failures:', res.oracle_failures)
    return 1 if (res.disagreements or res.oracle_failures) else 0


def shrink(ctx, failure):
    """smallest history (by writes) on which the same oracle signature still fails"""
    case = failure['case']
    h = case.get('history')
    if not h or h.get('expect') or failure.get('signature') == 'repaired-defect-is-back':
        return None        # a corpus case is already minimal, and its expectations refer to its own writes

    def still(ws):
        hh = dict(h, writes=ws, fault_at=-1 if h['fault_at'] < 0 else min(h['fault_at'], len(ws) - 1))
        r = common.Result()
        evaluate(ctx, [hh], r)
        return any(x.get('signature') == failure.get('signature') for x in r.oracle_failures)
    small = common.ddmin(h['writes'], still, budget=30 if len(h['writes']) <= 40 else 10)   # a 257-row history costs seconds per attempt
    return {'history': dict(h, writes=small, fault_at=-1 if h['fault_at'] < 0 else min(h['fault_at'], len(small) - 1))}
