/* Shared by the libFuzzer targets of property C12 (harness/c12_fuzz_*.c).
 * Compiled against a scratch copy of the repository (never inside /repo):
 *   clang -fsanitize=fuzzer,address,undefined -I<scratch> c12_fuzz_X.c <objects of the scratch build>
 *
 * Input layout of every target: an optional control byte, then the parts of the
 * input separated by the two bytes 0x1e 0x1e.  Missing parts are empty, surplus
 * parts are ignored.  A part is handed to the code under test either as a NUL
 * terminated copy (string interfaces) or as a file (path interfaces: an
 * anonymous memory file, reopened through /proc/self/fd so that the code under
 * test does its own open/read/close). */
#ifndef C12_FUZZ_COMMON_H
#define C12_FUZZ_COMMON_H

#ifndef _GNU_SOURCE
#define _GNU_SOURCE
#endif
#include <sys/mman.h>

#include <stddef.h>
#include <stdint.h>
#include <stdio.h>
#include <stdlib.h>
#include <string.h>
#include <unistd.h>

#define C12_SEP0 0x1e
#define C12_SEP1 0x1e
#define C12_MAXPARTS 40

struct c12_part {
	const uint8_t	*p;
	size_t		 n;
};

static inline int
c12_split(const uint8_t *data, size_t size, struct c12_part *parts, int max)
{
	int n = 0;
	size_t beg = 0, i = 0;

	while (i + 1 < size && n < max - 1) {
		if (data[i] == C12_SEP0 && data[i + 1] == C12_SEP1) {
			parts[n].p = data + beg;
			parts[n].n = i - beg;
			n++;
			i += 2;
			beg = i;
		} else {
			i++;
		}
	}
	parts[n].p = data + beg;
	parts[n].n = size - beg;
	n++;
	for (int j = n; j < max; j++) {
		parts[j].p = data + size;
		parts[j].n = 0;
	}
	return n;
}

/* NUL terminated heap copy (an embedded NUL ends the string, as for every C string interface) */
static inline char *
c12_cstr(const struct c12_part *pt)
{
	char *s = malloc(pt->n + 1);

	if (s == NULL)
		abort();
	if (pt->n > 0)
		memcpy(s, pt->p, pt->n);
	s[pt->n] = '\0';
	return s;
}

struct c12_file {
	int	fd;
	char	path[64];
};

/* the bytes as a file the code under test opens by path */
static inline void
c12_file_open(struct c12_file *f, const struct c12_part *pt)
{
	size_t off = 0;

	f->fd = memfd_create("c12fuzz", MFD_CLOEXEC);
	if (f->fd == -1)
		abort();
	while (off < pt->n) {
		ssize_t nw = write(f->fd, pt->p + off, pt->n - off);

		if (nw <= 0)
			abort();
		off += (size_t)nw;
	}
	snprintf(f->path, sizeof(f->path), "/proc/self/fd/%d", f->fd);
}

static inline void
c12_file_close(struct c12_file *f)
{
	close(f->fd);
	f->fd = -1;
}

/* overwrite a file on disk (report target: the build directory lives in the scratch directory of the run) */
static inline void
c12_write_path(const char *path, const struct c12_part *pt)
{
	FILE *fh = fopen(path, "wb");

	if (fh == NULL)
		abort();
	if (pt->n > 0 && fwrite(pt->p, 1, pt->n, fh) != pt->n)
		abort();
	if (fclose(fh) != 0)
		abort();
}

static const char *const c12_modes[] = { "robsd", "robsd-cross", "robsd-ports", "robsd-regress", "canvas" };

#endif
