"""Translator regress-html.c (+ step-exec.h) -> coq/gen/Gen_Html.v (property C14).

Extracted by anchored patterns; anything that no longer matches raises and the check reports the tie as
broken rather than guessing (DESIGN.md 4.1):

  FOR_RUN_STATUSES            the status table: names in enum order with their failure flag; the two switch
                              functions is_run_status_failure / run_status_str must still be generated from it
  EX_TIMEOUT (step-exec.h)    the timeout exit code, and parse_run_log must still compare run->exit with it
  duration_delta              threshold (product of the two literals) and the body shape
  regress_invocation_cmp,
  run_cmp, suite_cmp          bodies (time descending; fail descending then strcmp)
  sort_suites                 the "../" prefix that sends a passing suite to the end
  render_duration             3600 / 60 and the format
  render_rate                 WHICH of the two known bodies it is: float arithmetic truncated (as shipped before
                              the repair of defect D8) or integer arithmetic (findings/D8_pass_rate.diff,
                              /repo ea4de2c)                                              -> rate_is_integer
  render_suite                WHICH of the two known column walks it is: unbounded pointer (as shipped before the
                              repair of defect D9) or bounded by the number of invocations
                              (findings/D9_bound.diff, /repo 4acd4e2)                      -> walk_is_bounded
                              and, for the bounded walk, the index arithmetic itself: what is added to
                              ri + VECTOR_LENGTH for `end`, whether the loop tests ri < end or ri <= end, whether
                              the break tests == or >=               -> walk_end_extra / walk_end_strict / walk_break_eq
                              The model follows whichever is found; coq/theories/Html/HtmlTie.v demands the
                              repaired forms, so the full theorems C14_rate / C14_no_oob stop compiling on a revert.
  file names                  step.csv, end, dmesg, comment, diff, src.diff.*, tags/cvs, attic, index.html, cvsweb URL
"""
import os, re


def strip_comments(src):
    return re.sub(r'/\*.*?\*/', '', src, flags=re.S)


def func_body(src, name):
    m = re.search(r'^%s\([^)]*\)\n\{\n(.*?)^\}\n' % re.escape(name), src, re.S | re.M)
    if not m:
        raise ValueError('regress-html.c: function %s not found' % name)
    return m.group(1)


def norm(body):
    """comments out, whitespace collapsed, one token stream"""
    return re.sub(r'\s+', ' ', strip_comments(body)).strip()


def coq_bytes(s):
    if isinstance(s, str):
        s = s.encode()
    return '[' + '; '.join(str(b) for b in s) + ']%N'


DURATION_DELTA = re.compile(
    r'^int64_t threshold_s = (\d+)ll \* (\d+)ll; int64_t abs, delta; delta = a - b; '
    r'abs = delta < 0 \? -delta : delta; if \(abs <= threshold_s\) return NONE; '
    r'return delta < 0 \? FASTER : SLOWER;$')

TIME_DESC = ('if (a->time < b->time) return 1; if (a->time > b->time) return -1; return 0;')
SUITE_CMP = ('if ((*a)->fail < (*b)->fail) return 1; if ((*a)->fail > (*b)->fail) return -1; '
             'return strcmp((*a)->name, (*b)->name);')

RENDER_DURATION = ('const char *arrows[] = { [NONE] = "", [FASTER] = " &#8600;", [SLOWER] = " &#8599;", }; '
                   'int64_t hours, minutes; hours = ri->duration.seconds / 3600; '
                   'minutes = (ri->duration.seconds % 3600) / 60; '
                   'return arena_sprintf(s, "%dh%dm<span>%s</span>", (int)hours, (int)minutes, arrows[ri->duration.delta]);')

RATE_FLOAT = ('float rate = 0; if (ri->total > 0) rate = 1 - (ri->fail / (float)ri->total); '
              'return arena_sprintf(s, "%d%%", (int)(rate * 100));')
RATE_INT = ('int rate = 0; if (ri->total > 0) rate = (int)(((int64_t)(ri->total - ri->fail) * 100) / ri->total); '
            'return arena_sprintf(s, "%d%%", rate);')

SUITE_HEAD = ('struct html *html = r->html; arena_scope(r->scratch, s); HTML_NODE(html, "tr") { '
              'VECTOR(struct run) runs = suite->runs; const struct regress_invocation *ri = r->invocations; ')
SUITE_LINK = ('size_t i; HTML_NODE(html, "td") { const char *href; href = cvsweb_url(suite->name, &s); '
              'HTML_NODE_ATTR(html, "a", HTML_ATTR("class", "suite"), HTML_ATTR("href", href)) '
              'HTML_TEXT(html, suite->name); } VECTOR_SORT(runs, run_cmp); '
              'for (i = 0; i < VECTOR_LENGTH(runs); i++) { const struct run *run = &runs[i]; ')
WALK_ORIG = (SUITE_HEAD + SUITE_LINK +
             'for (; ri->time > run->time; ri++) { HTML_NODE(r->html, "td") { } } ri++; render_run(r, run); } }')
# the bounded walk, with the three places where the bound can be off by one left open: they become the
# constants walk_end_extra / walk_end_strict / walk_break_eq of the model's index arithmetic (HtmlDefs.walk_ix)
WALK_BOUNDED = re.compile(
    re.escape(SUITE_HEAD) +
    r'const struct regress_invocation \*end = ri \+ VECTOR_LENGTH\(r->invocations\)(?: (?P<sign>[+-]) (?P<extra>\d+))?; ' +
    re.escape(SUITE_LINK) +
    r'for \(; ri (?P<lt><=?) end && ri->time > run->time; ri\+\+\) \{ HTML_NODE\(r->html, "td"\) \{ \} \} '
    r'if \(ri (?P<brk>==|>=) end\) break; ri\+\+; render_run\(r, run\); \} \}$')


def generate(repo):
    src = open(os.path.join(repo, 'regress-html.c')).read()
    hdr = open(os.path.join(repo, 'step-exec.h')).read()
    # ---- status table
    m = re.search(r'^#define FOR_RUN_STATUSES\(OP\)\s*\\\n((?:.*\\\n)*.*)\n', src, re.M)
    if not m:
        raise ValueError('regress-html.c: FOR_RUN_STATUSES not found')
    table = re.findall(r'OP\(\s*([A-Z]+)\s*,\s*([01])\s*\)', strip_comments(m.group(1)))
    rest = re.sub(r'OP\(\s*[A-Z]+\s*,\s*[01]\s*\)|\\|\s', '', strip_comments(m.group(1)))
    if not table or rest:
        raise ValueError('regress-html.c: FOR_RUN_STATUSES has an unexpected shape: %r' % m.group(1))
    if norm(func_body(src, 'is_run_status_failure')) != \
            'switch (status) { #define OP(s, failure) case s: return failure; FOR_RUN_STATUSES(OP) #undef OP } return 0;':
        raise ValueError('regress-html.c: is_run_status_failure is no longer generated from FOR_RUN_STATUSES')
    if norm(func_body(src, 'run_status_str')) != \
            'switch (status) { #define OP(s, ...) case s: return #s; FOR_RUN_STATUSES(OP) #undef OP } return "N/A";':
        raise ValueError('regress-html.c: run_status_str is no longer generated from FOR_RUN_STATUSES')
    if not re.search(r'^#define OP\(s, \.\.\.\) s,\nenum run_status \{\n\tFOR_RUN_STATUSES\(OP\)\n\};\n#undef OP', src, re.M):
        raise ValueError('regress-html.c: enum run_status is no longer generated from FOR_RUN_STATUSES')
    # ---- timeout code
    m = re.findall(r'^#define\s+EX_TIMEOUT\s+(\d+)\s*$', hdr, re.M)
    if len(m) != 1:
        raise ValueError('step-exec.h: EX_TIMEOUT not found')
    ex_timeout = int(m[0])
    prl = norm(func_body(src, 'parse_run_log'))
    if 'if (run->exit == EX_TIMEOUT) { *status = NOTERM; }' not in prl:
        raise ValueError('regress-html.c parse_run_log: the timeout test changed')
    # ---- duration_delta
    m = DURATION_DELTA.match(norm(func_body(src, 'duration_delta')))
    if not m:
        raise ValueError('regress-html.c duration_delta: body changed: %r' % norm(func_body(src, 'duration_delta')))
    threshold = int(m.group(1)) * int(m.group(2))
    # ---- comparators
    for fn in ('regress_invocation_cmp', 'run_cmp'):
        if norm(func_body(src, fn)) != TIME_DESC:
            raise ValueError('regress-html.c %s: no longer "descending by time": %r' % (fn, norm(func_body(src, fn))))
    if norm(func_body(src, 'suite_cmp')) != SUITE_CMP:
        raise ValueError('regress-html.c suite_cmp: body changed: %r' % norm(func_body(src, 'suite_cmp')))
    # ---- sort_suites
    ss = norm(func_body(src, 'sort_suites'))
    m = re.search(r'if \(suite->fail > 0\) \{ dst = VECTOR_ALLOC\(all\); \} '
                  r'else if \(strncmp\(suite->name, "([^"]*)", (\d+)\) == 0\) \{ dst = VECTOR_ALLOC\(nonregress\); \} '
                  r'else \{ dst = VECTOR_ALLOC\(pass\); \}', ss)
    if not m or len(m.group(1)) != int(m.group(2)):
        raise ValueError('regress-html.c sort_suites: classification changed')
    nonregress = m.group(1)
    want = ('VECTOR_SORT(all, suite_cmp); VECTOR_SORT(pass, suite_cmp); VECTOR_SORT(nonregress, suite_cmp); '
            'for (i = 0; i < VECTOR_LENGTH(pass); i++) { dst = VECTOR_ALLOC(all); if (dst == NULL) err(1, NULL); *dst = pass[i]; } '
            'for (i = 0; i < VECTOR_LENGTH(nonregress); i++) { dst = VECTOR_ALLOC(all); if (dst == NULL) err(1, NULL); *dst = nonregress[i]; }')
    if want not in ss:
        raise ValueError('regress-html.c sort_suites: concatenation order changed')
    # ---- render_duration
    if norm(func_body(src, 'render_duration')) != RENDER_DURATION:
        raise ValueError('regress-html.c render_duration: body changed')
    # ---- render_rate: which variant
    rr = norm(func_body(src, 'render_rate'))
    if rr == RATE_FLOAT:
        rate_int = False
    elif rr == RATE_INT:
        rate_int = True
    else:
        raise ValueError('regress-html.c render_rate: body matches neither the float form nor the integer form: %r' % rr)
    # ---- render_suite: which walk
    rs = norm(func_body(src, 'render_suite'))
    extra, strict, brk_eq = 0, True, True
    mb = WALK_BOUNDED.match(rs)
    if rs == WALK_ORIG:
        bounded = False
    elif mb:
        bounded = True
        extra = int(mb.group('extra') or 0) * (-1 if mb.group('sign') == '-' else 1)
        strict = mb.group('lt') == '<'
        brk_eq = mb.group('brk') == '=='
    else:
        raise ValueError('regress-html.c render_suite: body matches neither the unbounded nor the bounded column walk: %r' % rs)
    if 'VECTOR_SORT(r->invocations, regress_invocation_cmp);' not in norm(func_body(src, 'regress_html_render')):
        raise ValueError('regress-html.c regress_html_render: invocations no longer sorted with regress_invocation_cmp')
    # ---- names
    def need(pat, what):
        m = re.findall(pat, src)
        if len(m) != 1:
            raise ValueError('regress-html.c: %s: pattern %r matched %d times' % (what, pat, len(m)))
        return m[0]
    names = {
        'name_step_csv': need(r'arena_sprintf\(&s, "%s/(step\.csv)", directory\)', 'step file name'),
        'name_end': need(r'steps_find_by_name\(steps, "([a-z]+)"\)', 'end step name'),
        'name_dmesg': need(r'arena_sprintf\(&s, "%s/(dmesg)", directory\)', 'dmesg'),
        'name_comment': need(r'arena_sprintf\(&s, "%s/(comment)", directory\)', 'comment'),
        'name_diff': need(r'ri->patches\.path = arena_sprintf\(r->eternal, "%s/%s/([a-z]+)", arch, date\)', 'diff directory'),
        'patch_glob': need(r'invocation_find\(directory, "([^"]+)", &s\)', 'patch pattern'),
        'name_tag_cvs': need(r'invocation_has_tag\(directory, "([a-z]+)", r->scratch\)', 'cvs tag'),
        'name_attic': need(r'arena_sprintf\(r->eternal, "%s/([a-z]+)", robsddir\)', 'keep directory'),
        'name_index': need(r'arena_sprintf\(&s, "%s/(index\.html)", r->output\)', 'index.html'),
        'cvsweb_prefix': need(r'"(https://cvsweb\.openbsd\.org/[^"%]*)%s", path\)', 'cvsweb URL'),
    }
    if names['patch_glob'] != 'src.diff.*':
        raise ValueError('regress-html.c: patch pattern %r is not a literal prefix followed by *' % names['patch_glob'])
    for f in ('"duration"', '"time"', '"name"', '"log"', '"exit"'):
        if 'step_get_field(' not in src or f not in src:
            raise ValueError('regress-html.c: field %s no longer read' % f)
    if 'dmesg = arena_sprintf(r->eternal, "%s/%s/dmesg", arch, date)' not in src or \
            'comment = arena_sprintf(r->eternal, "%s/%s/comment", arch, date)' not in src:
        raise ValueError('regress-html.c: output names of dmesg/comment changed')
    if 'run->log = arena_sprintf(r->eternal, "%s/%s/%s", arch, ri->date, step_get_field(&steps[i], "log")->str);' not in norm(src):
        raise ValueError('regress-html.c: run log link is no longer arch/date/log')
    if 'return strchr(name, \'/\') != NULL;' not in func_body(src, 'is_regress_step'):
        raise ValueError('regress-html.c is_regress_step: changed')
    out = ['(* Gen_Html.v - GENERATED on every check by harness/t_html.py from regress-html.c and step-exec.h.  Do not edit. *)',
           'From Coq Require Import List NArith ZArith.', 'Import ListNotations.', '',
           '(* FOR_RUN_STATUSES: name, failure flag, in enum order *)',
           'Definition run_statuses : list (list N * bool) :=',
           '  [' + ';\n   '.join('(%s, %s)' % (coq_bytes(n), 'true' if f == '1' else 'false') for n, f in table) + '].',
           '', '(* EX_TIMEOUT *)', 'Definition ex_timeout : Z := %d%%Z.' % ex_timeout,
           '', '(* duration_delta: threshold_s *)', 'Definition delta_threshold : Z := %d%%Z.' % threshold,
           '', '(* sort_suites: passing suites with this prefix come last *)',
           'Definition nonregress_prefix : list N := %s.' % coq_bytes(nonregress),
           '', '(* render_rate: %s *)' % ('integer arithmetic' if rate_int else 'float arithmetic, truncated'),
           'Definition rate_is_integer : bool := %s.' % ('true' if rate_int else 'false'),
           '', '(* render_suite: %s *)' % ('column pointer bounded by the number of invocations' if bounded else 'column pointer not bounded'),
           'Definition walk_is_bounded : bool := %s.' % ('true' if bounded else 'false'),
           '(* end = ri + VECTOR_LENGTH(r->invocations) + walk_end_extra; loop test ri < end (strict) or ri <= end; '
           'break test ri == end or ri >= end *)',
           'Definition walk_end_extra : Z := (%d)%%Z.' % extra,
           'Definition walk_end_strict : bool := %s.' % ('true' if strict else 'false'),
           'Definition walk_break_eq : bool := %s.' % ('true' if brk_eq else 'false'), '']
    for k in sorted(names):
        v = names[k]
        if k == 'patch_glob':
            out.append('Definition patch_prefix : list N := %s.   (* %s *)' % (coq_bytes(v[:-1]), v))
        else:
            out.append('Definition %s : list N := %s.   (* %s *)' % (k, coq_bytes(v), v))
    out.append('')
    return {'Gen_Html.v': '\n'.join(out)}


if __name__ == '__main__':
    import sys
    print(generate(sys.argv[1] if len(sys.argv) > 1 else '/repo')['Gen_Html.v'])
