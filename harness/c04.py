"""C04 - barriers, parallel bound, stop at first failure: real canvas runs driven through gated probe steps vs the
transition system (eager schedule) and the trace oracle; lanes of their own for the skip set of a resumed invocation
(-s), for a hook that reads its standard input, and for /repo's robsd-wait."""
import hashlib, json, glob, os
from concurrent.futures import ThreadPoolExecutor
import common, orch_env, orch_e2e

PID = 'C04'
TRANSLATORS = ['t_orch']      # util.sh robsd() / step_exec_job / trap_exit / lock_* / robsd_hook, canvas, robsd-wait.c's stub -> gen/Gen_Orch.v
TRUSTED = orch_env.SHIMS_USED + [
    'ASSUMED: the contract of robsd-wait (returns when one / all of the given pids are gone, prints those still running) - read off robsd-wait.c, '
    'which is NOT executed, modelled or translated (kqueue; the build outside OpenBSD is a stub, see the robsd-wait lane); the shell\'s &, $!, '
    'set -e and pipeline semantics are bash\'s; only the bookkeeping of the loop is proved',
    'the harness fixes the completion order with gate files and lets the main loop run as far as it can in between (eager schedule); the theorems hold for every schedule',
    'timing: after the predicted starts have appeared the harness waits half the start-up latency observed in this very run (at least 40 ms, at most '
    '0.5 s) before it accepts the round - an over-eager start that needs longer than that to show is ordered after the next completion and is then '
    'judged by the trace oracle only (ncpu bound / barrier on the recorded order), not by the round comparison']

SIG_SKIP_RESUME = 'command-line-skip-ignored-on-resume'
SIG_HOOK_STDIN = 'hook-reading-stdin-swallows-schedule'
SIG_SAME_DIR = 'same-directory-resume-not-refused'
SIG_REFUSED_MAILS = 'refused-resume-reports-and-mails-again'
SIG_SKIP_END = 'skipped-end-still-hooked-and-reached'
SIG_SKIP_END_PAR = 'skipped-end-exit-trap-while-parallel-step-runs'
# deviations found by the boundary classes of orch_e2e.gen_boundary (write-ups findings/C04_odd_step_names.md, findings/C11_log_name_too_long.md)
SIG_NAME_BLANK = 'step-name-with-white-space-never-runs'
SIG_NAME_COMMA_PAR = 'parallel-step-with-comma-in-name-silently-dropped'
SIG_SKIP_WORD = 'skip-name-matching-several-steps-aborts'
SIG_LOG_NAME_MAX = 'log-name-exceeds-name-max'
SIG_NAME_DASH = 'step-name-with-leading-dash-cannot-run'


def case_key(case):
    return hashlib.sha1(json.dumps(case, sort_keys=True).encode()).hexdigest()


def evaluate(ctx, cases, res, want_account):
    impl = ctx.build_impl()
    drv = ctx.build_driver('or', withz=True)
    ctx.shims_used = orch_env.SHIMS_USED
    with ThreadPoolExecutor(6) as ex:
        obs = list(ex.map(lambda c: orch_e2e.run_case(ctx, impl, drv, c), cases))

    def late(ob, case):
        # nothing wrong was seen, something expected was not seen in time: the invocation did not finish, or canvas had
        # started only a prefix of what the model starts when the wait ran out (a loaded machine does that too)
        if ob.get('hung') or ob.get('setup_failed'):
            return True
        if case.get('free'):
            return False          # a free-running invocation ended by itself: what it started is all it starts
        r = ob['rounds'][-1] if ob.get('rounds') else None
        return bool(r and r['model_starts'] != r['impl_starts'] and r['model_starts'][:len(r['impl_starts'])] == r['impl_starts'])
    retried = 0
    for i, ob in enumerate(obs):
        if late(ob, cases[i]) and retried < 4:
            # repeated alone with four times the waiting time: a real hang or a step that never starts shows again.  At most four
            # cases are repeated (on the unchanged tree a late case is rare; a changed loop that hangs would otherwise keep
            # the check busy for an hour) - the others are judged as they were observed
            retried += 1
            orch_e2e.SCALE = 4.0
            try:
                obs[i] = orch_e2e.run_case(ctx, impl, drv, cases[i])
            finally:
                orch_e2e.SCALE = 1.0
            res.count('repeated alone after a wait ran out')
    for case, ob in zip(cases, obs):
        judge(ctx, drv, res, case, ob, want_account)
    return res


def judge_second(res, case, sec):
    """C11: a second invocation started meanwhile is refused without touching the first - for EVERY directory it names"""
    res.count('second invocation: %s' % sec['kind'])
    clean = sec['rc'] != 0 and not sec['not_refused'] and sec['lock_same'] and sec['first_untouched'] and sec['dirs_same']
    if not clean:
        # the finding is pinned by the CASE (the second invocation names the directory of the running one) and by the
        # OBSERVATION (it was not refused, and what it started is a step the first invocation has in flight)
        inflight = set(n for n in sec.get('extra_starts') or [])
        if sec['kind'] == 'resume-running' and sec['not_refused'] and inflight and sec['lock_same']:
            sig = SIG_SAME_DIR
        else:
            sig = 'second-invocation-not-refused-cleanly'
        res.oracle_failures.append({'case': case, 'signature': sig, 'what': json.dumps(sec)})
    elif sec['mails_delta'] or sec['endhook_delta']:
        # refused, first untouched - but the refused invocation's exit trap mailed / ran the end hook of the directory it named
        if sec['kind'] == 'resume-old':
            sig = SIG_REFUSED_MAILS
        else:
            sig = 'second-invocation-not-refused-cleanly'
        res.oracle_failures.append({'case': case, 'signature': sig, 'what': json.dumps(sec)})


def name_deviation(case, ob, bad):
    """the input classes in which the code is known NOT to do what the model (names = opaque byte strings) predicts, each
    recognised by a predicate on the CASE and on the OBSERVATION; -> (signature, text) or None.  Everything else about
    such a case is judged as always."""
    if not bad:
        return None
    names = [s['name'] for s in case['steps']]
    live = [s for s in case['steps'] if s['name'] not in case['skip']]
    missing = [n for n in bad['model_starts'] if n not in bad['impl_starts']]
    extra = [n for n in bad['impl_starts'] if n not in bad['model_starts']]
    rows = ob.get('rows', [])
    amb = orch_e2e.skip_ambiguous(case)
    if amb and not bad['impl_starts'] and ob.get('rc') not in (0, None) and not ob.get('builddirs'):      # (not detached: the skip records are written before the shell detaches)
        return SIG_SKIP_WORD, ('skip { %s } with steps %s: step_id finds the name as a word in the line of more than one step, the skip record cannot '
                               'be written, canvas exits %s before the first step and removes the build directory: %r' % (amb, names, ob.get('rc'), (ob.get('out') or '')[-200:]))
    white = [s['name'] for s in live if any(c in s['name'] for c in ' \t\n')]
    if white and not extra and missing and set(missing) <= set(white) and all(s['exit'] == 0 for s in case['steps']):
        return SIG_NAME_BLANK, ('steps %s: the listing line of %s is read back word by word; the step is never started (a record and a hook call for its first word '
                                'appear instead: %s), the invocation goes on and exits %s' % (names, missing, [(r['step'], r['name'], r['exit']) for r in rows], ob.get('rc')))
    dash = [s['name'] for s in live if s['name'].startswith('-')]
    if dash and not extra and missing and missing[0] in dash and any(r['name'] == missing[0] and r['exit'] not in ('0', '-1') for r in rows) \
            and all(s['exit'] == 0 for s in case['steps']):
        return SIG_NAME_DASH, ('steps %s: robsd-exec takes the name %s for an option (usage error): the command of the step never runs, the step is recorded as FAILED '
                               '(%s); the invocation exits %s' % (names, missing[0], [(r['step'], r['name'], r['exit']) for r in rows], ob.get('rc')))
    comma = [s['name'] for s in live if ',' in s['name'] and s['parallel']]
    if comma and not extra and missing and set(missing) <= set(comma) and not any(r['name'] in comma for r in rows):
        return SIG_NAME_COMMA_PAR, ('steps %s: the first record of the parallel step %s is refused by robsd-step (comma in the value), its background job ends there '
                                    'unseen: the step never starts, has no record, the invocation goes on and exits %s' % (names, missing, ob.get('rc')))
    return None


def comma_fail_stop(case, ob, bad):
    """a SYNCHRONOUS step whose name holds a comma: robsd-step -W refuses its first record (repair bda6bfa of C01), set -e ends
    the invocation there.  True when exactly that was seen: nothing from that step on started, status non-zero, no end record."""
    live = [s for s in case['steps'] if s['name'] not in case['skip']]
    first = next((s for s in live if ',' in s['name']), None)
    if not bad or first is None or first['parallel'] or first['name'] not in bad['model_starts']:
        return False
    k = bad['model_starts'].index(first['name'])
    return (bad['impl_starts'] == bad['model_starts'][:k] and (case['detached'] or ob.get('rc') not in (0, None))
            and not any(r['name'] in ('end', first['name']) for r in ob.get('rows', [])))


def judge(ctx, drv, res, case, ob, want_account):
    key = case_key(case)
    if ob.get('setup_failed'):
        res.tie_errors.append('end-to-end lane: %s (case %s)' % (ob['setup_failed'], json.dumps(case)[:200]))
        return
    for c in orch_e2e.classes_of(case):
        res.count('class: ' + c)
    npar = sum(1 for s in case['steps'] if s['parallel'] and s['name'] not in case['skip'])
    nsync = sum(1 for s in case['steps'] if not s['parallel'] and s['name'] not in case['skip'])
    res.count('ncpu=%d' % case['ncpu'])
    res.count('steps=%d' % len(case['steps']))
    if any(s['exit'] in orch_e2e.SIGNAL_DEATHS for s in case['steps']):
        res.count('a step dies of a signal')
    skip_end = 'end' in case['skip']
    if skip_end:
        res.count('end in the skip set')
    if ob.get('model_error') or ob.get('hung'):
        res.evaluations += 1
        res.disagreements.append({'case': case, 'why': 'model error' if ob.get('model_error') else 'invocation hung', 'out': ob.get('out')})
        return
    bad = next((r for r in ob['rounds'] if r['model_starts'] != r['impl_starts']), None)
    dev = name_deviation(case, ob, bad)
    if dev:
        # the oracle failure stands for the disagreement of this round: same fact, with the class named
        res.evaluations += 1
        res.oracle_failures.append({'case': case, 'signature': dev[0], 'what': dev[1]})
        return
    if comma_fail_stop(case, ob, bad):
        res.evaluations += 1
        res.count('names: comma in a synchronous step - its record is refused, the invocation stops there (fail-stop seen)')
        return
    if ob.get('expect_dir') and ob.get('builddirs') != [ob['expect_dir']] and not ob.get('aborted_after_second'):
        res.disagreements.append({'case': case, 'why': 'name of the new invocation', 'model': ob['expect_dir'], 'impl': ob.get('builddirs')})
    if ob.get('aborted_after_second'):
        # the second invocation was not refused and ran steps of its own: only the rounds up to that point and the second
        # invocation itself have a verdict
        res.evaluations += 1
        if bad:
            res.disagreements.append({'case': case, 'why': 'after %s finished the model starts %s, canvas started %s' % (bad['finished'], bad['model_starts'], bad['impl_starts'])})
        if want_account:
            judge_second(res, case, ob['second'])
        else:
            res.count('no verdict: second invocation not refused, run abandoned (judged by C11)')
        return
    res.evaluations += 1
    if npar >= 1 and nsync >= 1:
        res.nontrivial.add(key)
    st, ids = orch_e2e.step_toks(case)
    final = orch_e2e.model(drv, case, ob['rounds'][-1]['finished'] if not bad else [])
    rows = ob.get('rows', [])
    if skip_end and all(x['name'] in case['skip'] for x in case['steps']) and not rows:
        # every step and end are skipped: nothing ran, and trap_exit removes the build directory ("do not leave an empty
        # build around": has_steps is false for a file of skip records only); nothing of C04/C11 is judged on such an
        # invocation (the end hook it still runs is the known finding about a skipped end step, judged on other cases)
        res.count('outside: every step and end skipped - the exit trap removes the empty build directory')
        return
    irows = ' '.join('%s:%s:%s:%s' % (r['step'], r['name'].encode().hex(), r['exit'], r['skip']) for r in rows)
    hooks = [h.split()[1:] for h in ob.get('hooks', [])]
    if bad:
        res.disagreements.append({'case': case, 'why': 'after %s finished the model starts %s, canvas started %s' % (bad['finished'], bad['model_starts'], bad['impl_starts'])})
    elif final:
        mstatus = final['eff'][0]
        all_skipped = skip_end and all(x['name'] in case['skip'] for x in case['steps'])
        if all_skipped and irows == '' and (case['detached'] or ob['rc'] == int(mstatus)):
            # every step and end are skipped: nothing ran, and trap_exit removes the build directory ("do not leave an
            # empty build around": has_steps is false for a file of skip records only) - the orchestrator model keeps the
            # skip records; there is nothing of the property to judge on such an invocation
            res.count('outside: every step and end skipped - the exit trap removes the empty build directory')
        elif final['rows'] != irows or (ob['rc'] != int(mstatus) and not case['detached']):
            res.disagreements.append({'case': case, 'why': 'final records / status', 'model': [final['rows'], mstatus], 'impl': [irows, ob['rc']]})
        # the hook calls in order: one per finished step (the harness fixes the completion order), then the end
        # hook of the exit trap exactly when the model's trap_exit says so
        mh = [(bytes.fromhex(h.split(':')[0]).decode('latin1') if h.split(':')[0] != '-' else '', h.split(':')[1]) for h in final['hooks']]
        if final['eff'][2] == '1':
            mh.append(('end', '0'))
        ih = [tuple(h[0:2]) for h in hooks]
        if skip_end or case.get('free'):
            # when the loop runs out of schedule lines the exit trap's end hook may come before the hooks of steps still running;
            # in a free-running invocation the hooks of two parallel steps need not come in the order of their probes' end lines
            mh, ih = sorted(mh), sorted(ih)
        if want_account and mh != ih:
            res.disagreements.append({'case': case, 'why': 'hook calls', 'model': mh, 'impl': ih})
        # a failing PARALLEL step alone: end reached, exit status 0, a report (C11_parallel_failure_alone_exits_zero)
        codes = {s['name']: s['exit'] for s in case['steps']}
        started = [t[1] for t in ob.get('trace', []) if t[0] == 'start']
        if final['mode'] == 'done' and any(codes[n] != 0 for n in started):
            res.count('parallel-failure-exit: end reached with a failed parallel step')
            if not case['detached'] and (ob['rc'] != 0 or (want_account and not ob.get('report'))):
                res.disagreements.append({'case': case, 'why': 'parallel-only failure: the model says exit 0 and a report', 'impl': [ob['rc'], ob.get('report')]})
    if bad and bad['model_starts'][:len(bad['impl_starts'])] == bad['impl_starts'] and not case.get('free'):
        # canvas had started only a prefix of what the model starts when the (already repeated) wait ran out, and the
        # harness stopped driving the invocation there: what it left behind is a half-driven run, not a finished one.
        # The disagreement above stands (a hang of the real loop ends as "no failing input found"); the oracles are for
        # finished invocations and for starts that must NOT happen, so they have no verdict here.
        res.count('no verdict: the harness stopped driving a late invocation')
        return
    # ---- oracle on what really happened (C04): order of starts and ends, exit status, end recorded
    tr = ob.get('trace', [])
    end_recorded = any(r['name'] == 'end' and r['skip'] != '1' for r in rows)
    if not case['detached']:
        exit_status = ob['rc']
    elif not skip_end:
        # the status of a detached invocation is not observable: the end record stands for it
        exit_status = 0 if end_recorded else 1
    else:
        # detached AND end skipped: neither the status nor an end record can be observed; the status conjunct is given
        # what the observed ends imply (a synchronous step ended non-zero), i.e. it is not judged; all other conjuncts are
        sync = {x['name'] for x in case['steps'] if not x['parallel']}
        exit_status = 1 if any(t[0] == 'end' and t[1] in sync and t[2] != '0' for t in tr) else 0
    if skip_end:
        # end is skipped: "the end step is recorded only if ..." has nothing to record; the oracle's conjunct
        # "end recorded iff no synchronous step failed" is given the exit status instead (it then says: exit status 0 iff
        # no synchronous step failed - twice), everything else is judged as always
        end_recorded = (exit_status == 0)
    toks = ['oktrace', str(case['ncpu']), str(exit_status), '1' if end_recorded else '0'] + st + [str(len(case['skip']))] + [n.encode().hex() for n in case['skip']]
    toks.append(str(len(tr)))
    for t in tr:
        toks += (['S', t[1].encode().hex()] if t[0] == 'start' else ['E', t[1].encode().hex(), t[2]])
    ok = common.run_driver(drv, [' '.join(toks)])[0]
    if not want_account and ok != '1':
        res.oracle_failures.append({'case': case, 'signature': 'order-or-bound-violated',
                                    'what': 'observed starts/ends %s with exit %s break the barrier / ncpu bound / skip / stop-at-failure rules' % (tr, ob['rc'])})
    if want_account:
        judge_account(ctx, drv, res, case, ob, st, rows, irows, hooks, tr, skip_end)
        if ob.get('second') is not None:
            judge_second(res, case, ob['second'])


def judge_account(ctx, drv, res, case, ob, st, rows, irows, hooks, tr, skip_end):
    """C11: the accounting oracle on what the real canvas left behind"""
    executed = [t[1] for t in tr if t[0] == 'start']
    logs = ob.get('logs', {})
    skip = list(case['skip'])
    report, mails = ob.get('report'), ob.get('mails', 0)
    samples = list(ob['lock_samples'])
    if skip_end:
        # PROPERTY READING for a configuration whose skip set holds end: end has its skip record (exit 0), NO hook call, it is
        # not "reached": report and mail exactly when a step failed; the lock names the invocation as long as a step runs.
        # The deviations the code shows in exactly this input class are reported under their own signatures; the REST of the
        # observation (end's row and hook taken out, report / mail taken as the property wants them) goes through the oracle.
        end_rows = [r for r in rows if r['name'] == 'end']
        end_hooks = [h for h in hooks if h[0] == 'end']
        failed = any(r['skip'] != '1' and r['exit'] != '0' for r in rows)
        dev = []
        if end_hooks:
            dev.append('the end hook ran %d time(s) for the skipped end step%s' % (len(end_hooks), ' on a FAILED build' if ob['rc'] != 0 else ''))
        if report and not failed:
            dev.append('a report was written as if end had been reached')
        if dev and end_hooks and len(end_rows) == 1 and end_rows[0]['skip'] == '1' and end_rows[0]['exit'] == '0':
            res.oracle_failures.append({'case': case, 'signature': SIG_SKIP_END, 'what': '; '.join(dev) + '; records %s hooks %s rc %s' % (irows, hooks, ob['rc'])})
            rows = [r for r in rows if r['name'] != 'end']
            hooks = [h for h in hooks if h[0] != 'end']
            skip = [n for n in skip if n != 'end']
            if not failed:
                report, mails = False, 0
        if ob['felloff_lock_samples']:
            res.count('end skipped, last steps parallel: the loop runs out of lines while steps run')
            if not all(ob['felloff_lock_samples']):
                res.oracle_failures.append({'case': case, 'signature': SIG_SKIP_END_PAR,
                                            'what': 'the loop ran out of schedule lines without the barrier: while parallel steps were still at their gates the lock '
                                                    'file no longer named the invocation (exit trap already run); hooks in order %s' % hooks})
            else:
                samples += ob['felloff_lock_samples']
    long_names = {s['name'] for s in case['steps'] if len(s['name'].replace('/', '-')) + 8 > 255}
    if long_names:
        # 'NNN-<name>.log' is longer than NAME_MAX: pinned by the case (the name) and the observation (the step ran, its record names
        # that log, the file does not exist).  The rest of the accounting is judged with that one clause taken out.
        lost = [r for r in rows if r['name'] in long_names and r['name'] in executed and not logs.get(r['step'])]
        if lost:
            res.oracle_failures.append({'case': case, 'signature': SIG_LOG_NAME_MAX,
                                        'what': 'step %s (name of %d bytes) ran and is recorded with exit %s, its log name has %d bytes: the file cannot be created, '
                                                'the output of the step is in no log' % (lost[0]['step'], len(lost[0]['name']), lost[0]['exit'], len(lost[0].get('log', '')))})
            logs = dict(logs)
            for r in lost:
                logs[r['step']] = True
    if ob.get('hook_args_wrong'):
        res.oracle_failures.append({'case': case, 'signature': 'hook-arguments-not-as-configured',
                                    'what': 'a hook call carried %s' % ob['hook_args_wrong']})
    if ob.get('odd_log_names'):
        res.oracle_failures.append({'case': case, 'signature': 'log-name-not-of-the-step',
                                    'what': 'a record of a fresh invocation names a log that is not NNN-<step name>.log: %s' % ob['odd_log_names'][:3]})
    if not samples:
        # no round had a step of this invocation waiting at its gate (everything skipped): the clause "the lock file named the
        # invocation while it ran" gets no verdict; the rest of the oracle does
        res.count('no verdict: lock never sampled (no step ran)')
    t2 = ['okacct'] + st + [str(len(skip))] + [n.encode().hex() for n in skip]
    t2 += [str(len(executed))] + [n.encode().hex() for n in executed]
    t2 += [str(len(rows))]
    for r in rows:
        t2 += [r['step'], r['name'].encode().hex(), r['exit'], r['skip']]
    t2 += [str(len(logs))]
    for k, v in logs.items():
        t2 += [k, '1' if v else '0']
    t2 += [str(len(hooks))]
    for h in hooks:
        t2 += [h[0].encode().hex(), h[1]]
    t2 += ['1' if all(samples) else '0', '1' if ob.get('lock_after') else '0', '1' if report else '0',
           str(mails), '1' if case['detached'] else '0']
    ok2 = common.run_driver(drv, [' '.join(t2)])[0]
    if ok2 != '1':
        res.oracle_failures.append({'case': case, 'signature': 'accounting-violated',
                                    'what': 'records %s hooks %s logs %s lock_during %s lock_after %s report %s mails %s' % (
                                        irows, hooks, logs, samples, ob.get('lock_after'), report, mails),
                                    'rounds': ob.get('rounds'), 'rc': ob.get('rc'), 'out': ob.get('out'), 'trace': tr})
    # the duration clause: every record of an executed step carries a duration that is not negative and is the time the
    # step really ran - between (gate opened - start seen) - 1 and (hook seen - launch) + 1 in whole seconds
    for r in rows:
        tm = ob['times'].get(r['name'])
        if r['skip'] == '1' or r['name'] == 'end' or not tm or 'gate_opened' not in tm or 'hook_seen' not in tm:
            continue
        try:
            d = int(r['duration'])
        except (KeyError, ValueError):
            d = None
        lo = int(tm['gate_opened'] - tm['start_seen']) - 1
        hi = int(tm['hook_seen'] - ob['launch']) + 2
        res.count('duration compared with the real run time')
        if d is None or d < 0 or d < lo or d > hi:
            res.oracle_failures.append({'case': case, 'signature': 'duration-not-the-run-time',
                                        'what': 'step %s ran at least %d s and at most %d s by the harness clock, its record says duration %r' % (r['name'], lo, hi, r.get('duration'))})
            break


# ---- lanes with a scenario of their own ---------------------------------------------------------------------------------
def gen_skip_resume(rng):
    n = rng.randint(3, 5)
    names = orch_e2e.NAMES[:n]
    f = rng.randrange(1, n - 1)                 # the step that fails: not the first (the resume point must be >= 2)
    return {'lane': 'skip-on-resume', 'names': names, 'fail': names[f], 'skip': names[rng.randrange(f + 1, n)]}


def lane_skip_on_resume(ctx, res, cases):
    """"skipped steps never run" for "skip sets from ... command line" when the invocation is a resumed one"""
    impl = ctx.build_impl()
    for case in cases:
        ob = orch_e2e.run_skip_on_resume(ctx, impl, case)
        if ob.get('setup_failed'):
            res.tie_errors.append('skip-on-resume lane: ' + ob['setup_failed'])
            continue
        res.evaluations += 1
        res.nontrivial.add(case_key(case))
        res.count('lane skip-on-resume')
        if case['skip'] in ob['started']:
            # pinned by the case (a -s option on a resume whose resume point is >= 2) and the observation (that very step ran)
            sig = SIG_SKIP_RESUME if (ob['resumed_at'] or 0) >= 2 else 'skipped-step-ran'
            res.oracle_failures.append({'case': case, 'signature': sig,
                                        'what': 'canvas -r <dir> -s %s resumed at step %s and started %s; records %s' % (case['skip'], ob['resumed_at'], ob['started'], ob['rows'])})
        elif ob['rc'] != 0:
            res.oracle_failures.append({'case': case, 'signature': 'resumed-invocation-failed', 'what': json.dumps(ob)[:600]})


def lane_hook_stdin(ctx, res, cases):
    """a hook is a configuration value like any other: whatever it does with its standard input, the schedule is run"""
    impl = ctx.build_impl()
    for case in cases:
        ob = orch_e2e.run_hook_stdin(ctx, impl, case)
        res.evaluations += 1
        res.nontrivial.add(case_key(case))
        res.count('lane hook-stdin')
        complete = ob['started'] == case['names'] and ob['rc'] == 0 and any(r[1] == 'end' for r in ob['rows'])
        if not complete:
            # pinned by the case (the hook reads its input) and the observation (the hook did read schedule lines, the
            # invocation ended with status 0 having started only a prefix of the schedule, no end record)
            swallowed = bool(ob['hook_read'].strip()) and ob['rc'] == 0 and ob['started'] == case['names'][:len(ob['started'])] and not any(r[1] == 'end' for r in ob['rows'])
            res.oracle_failures.append({'case': case, 'signature': SIG_HOOK_STDIN if swallowed else 'schedule-not-run-to-its-end',
                                        'what': 'hook that reads its input: started %s of %s, exit %s, records %s, report %s, the hook read %r' % (
                                            ob['started'], case['names'], ob['rc'], ob['rows'], ob['report'], ob['hook_read'])})


def lane_robsd_wait(ctx, res):
    """robsd-wait.c is an anchor of C04; nothing of it is modelled.  The lane builds and runs it: on this platform it must be the
    stub (returns at once with status 0, prints nothing, whatever it is given); if it ever BLOCKS on a live process it has become
    functional here and must replace the stand-in (tie error: the assumption would then be checkable and is not checked)"""
    ob = orch_e2e.run_robsd_wait(ctx, ctx.build_impl())
    if ob.get('error'):
        res.tie_errors.append('robsd-wait lane: /repo\'s robsd-wait does not run: %s' % ob['error'])
    elif not ob['returned']:
        res.tie_errors.append('robsd-wait lane: /repo\'s robsd-wait blocks on a live process - it is functional on this platform; run the end-to-end lanes with it instead of tools/orch/robsd-wait')
    elif ob['rc'] != 0 or ob['out']:
        res.tie_errors.append('robsd-wait lane: the stub answered rc %s output %r' % (ob['rc'], ob['out']))
    else:
        res.count('robsd-wait of /repo is the non-OpenBSD stub (returns at once): the stand-in carries the barrier')


def load_corpus(pid, pending=None):
    """corpus files carrying a "pending" key (the signature they produce) are skipped unless the parked classes are switched on
    (orch_e2e.PENDING_FINDINGS / c11.PENDING_FINDINGS, VERIF_PENDING=1)"""
    pending = orch_e2e.PENDING_FINDINGS if pending is None else pending
    d = os.path.join(common.VERIF, 'corpus', pid)
    if not os.path.isdir(d):
        raise common.BuildFailure('corpus directory %s is missing' % d)
    files = sorted(glob.glob(os.path.join(d, '*.json')))
    if not files:
        raise common.BuildFailure('corpus directory %s is empty' % d)
    return [c for c in (json.load(open(p)) for p in files) if pending or not c.get('pending')]


RULE = ('canvas configurations of 2-7 gated probe steps (synchronous/parallel, exit codes 0/1/2/124/255 and deaths by SIGSEGV/SIGKILL/SIGABRT, skip sets '
        'incl. end), ncpu 1-3, a generated completion order, foreground and detached, optionally a second invocation started meanwhile (fresh / resume of '
        'a prefix-named older directory / background resume of an older finished directory / resume of the running directory); after every completion '
        'the model predicts the next starts; non-trivial = at least one parallel and one synchronous non-skipped step; distinct by configuration+order; '
        'plus the lanes skip-on-resume (-s on a resume at step >= 2), hook-stdin (a hook that reads its input) and robsd-wait (the stub is run); '
        'boundary classes (orch_e2e.gen_boundary, a share of the generated cases and one corpus case b04_* / b11_* each; printed as "class: ..."): 1 and '
        '15-17 / 31-33 / 63-65 steps (free-running: every gate open, one round with the recorded completion order), runs of 0 / 1 / ncpu-1 / ncpu / ncpu+1 / '
        '2*ncpu / 16 / 17 parallel steps with ncpu 1-3 (gated, also at the very end), failing step first / second / 16th / 17th / last but one / last, '
        'skip first / last / all but one / steps 15-17, exit codes 126 / 127 / 255 and plain exits 129 / 143 / 159, deaths by SIGTERM / SIGHUP, names that '
        'are prefixes of each other / differ in case / hold - . / = / are 64 - 247 bytes long, names with a blank, a comma, or longer than 247 bytes and '
        'skip names that are words of other names (known deviations, each under its own signature), hook commands of 16-18 words and arguments of 1 / 4 KiB, '
        '9 - 100 earlier invocations of the day, resume of DATE.1 / .9 / .10 / .99 while DATE.10 / .11 / .100 runs, a root spelled with a trailing slash')


def run(ctx, n=None):
    res = common.Result()
    res.rule = RULE
    n = n or ctx.budget(150, 2500)
    corpus = load_corpus(PID)
    cases = [orch_e2e.expand(c) for c in corpus if 'steps' in c or 'compact' in c] + [orch_e2e.gen_case(ctx.rng, ctx.budget(orch_e2e.BOUNDARY_QUICK, orch_e2e.BOUNDARY_THOROUGH)) for _ in range(n)]
    res.samples = cases[:2]
    evaluate(ctx, cases, res, False)
    lane_skip_on_resume(ctx, res, [c for c in corpus if c.get('lane') == 'skip-on-resume'] + [gen_skip_resume(ctx.rng) for _ in range(ctx.budget(3, 40))])
    lane_hook_stdin(ctx, res, [c for c in corpus if c.get('lane') == 'hook-stdin'] + [{'lane': 'hook-stdin', 'names': orch_e2e.NAMES[:ctx.rng.randint(2, 5)]} for _ in range(ctx.budget(1, 10))])
    lane_robsd_wait(ctx, res)
    res.traces_validated = res.evaluations
    return res


def extended_search(ctx, res, proof):
    return run(ctx, n=300)


def replay(ctx, rep):
    case = rep.get('case') or (rep.get('first_disagreements') or [{}])[0].get('case')
    res = common.Result()
    if case.get('lane') == 'skip-on-resume':
        lane_skip_on_resume(ctx, res, [case])
    elif case.get('lane') == 'hook-stdin':
        lane_hook_stdin(ctx, res, [case])
    else:
        evaluate(ctx, [case], res, False)
    print(json.dumps(case)); print(res.disagreements); print(res.oracle_failures)
    return 1 if (res.disagreements or res.oracle_failures) else 0
