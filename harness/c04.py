"""C04 - barriers, parallel bound, stop at first failure: real canvas runs driven through gated probe steps vs the
transition system (eager schedule) and the trace oracle."""
import hashlib, json, glob, os
from concurrent.futures import ThreadPoolExecutor
import common, orch_env, orch_e2e

PID = 'C04'
TRANSLATORS = ['t_orch']      # util.sh robsd() / step_exec_job / trap_exit / lock_* and canvas -> gen/Gen_Orch.v
TRUSTED = orch_env.SHIMS_USED + [
    'ASSUMED: the contract of robsd-wait (returns when one / all of the given pids are gone, prints those still running); the shell\'s &, $!, set -e and pipeline semantics are bash\'s; '
    'only the bookkeeping of the loop is proved',
    'the harness fixes the completion order with gate files and lets the main loop run as far as it can in between (eager schedule); the theorems hold for every schedule']


def evaluate(ctx, cases, res, want_account):
    impl = ctx.build_impl()
    drv = ctx.build_driver('or', withz=True)
    ctx.shims_used = orch_env.SHIMS_USED
    with ThreadPoolExecutor(6) as ex:
        obs = list(ex.map(lambda c: orch_e2e.run_case(ctx, impl, drv, c), cases))

    def late(ob):
        # nothing wrong was seen, something expected was not seen in time: the invocation did not finish, or canvas had
        # started only a prefix of what the model starts when the wait ran out (a loaded machine does that too)
        if ob.get('hung'):
            return True
        r = ob['rounds'][-1] if ob.get('rounds') else None
        return bool(r and r['model_starts'] != r['impl_starts'] and r['model_starts'][:len(r['impl_starts'])] == r['impl_starts'])
    for i, ob in enumerate(obs):
        if late(ob):
            # repeated alone with six times the waiting time: a real hang or a step that never starts shows again
            orch_e2e.SCALE = 6.0
            try:
                obs[i] = orch_e2e.run_case(ctx, impl, drv, cases[i])
            finally:
                orch_e2e.SCALE = 1.0
            res.count('repeated alone after a wait ran out')
    for case, ob in zip(cases, obs):
        res.evaluations += 1
        key = hashlib.sha1(json.dumps(case, sort_keys=True).encode()).hexdigest()
        npar = sum(1 for s in case['steps'] if s['parallel'] and s['name'] not in case['skip'])
        nsync = sum(1 for s in case['steps'] if not s['parallel'] and s['name'] not in case['skip'])
        if npar >= 1 and nsync >= 1:
            res.nontrivial.add(key)
        res.count('ncpu=%d' % case['ncpu'])
        res.count('steps=%d' % len(case['steps']))
        if ob.get('model_error') or ob.get('hung'):
            res.disagreements.append({'case': case, 'why': 'model error' if ob.get('model_error') else 'invocation hung', 'out': ob.get('out')})
            continue
        bad = next((r for r in ob['rounds'] if r['model_starts'] != r['impl_starts']), None)
        st, ids = orch_e2e.step_toks(case)
        final = orch_e2e.model(drv, case, ob['rounds'][-1]['finished'] if not bad else [])
        rows = ob.get('rows', [])
        irows = ' '.join('%s:%s:%s:%s' % (r['step'], r['name'].encode().hex(), r['exit'], r['skip']) for r in rows)
        if bad:
            res.disagreements.append({'case': case, 'why': 'after %s finished the model starts %s, canvas started %s' % (bad['finished'], bad['model_starts'], bad['impl_starts'])})
        elif final:
            mstatus = final['eff'][0]
            if final['rows'] != irows or (ob['rc'] != int(mstatus) and not case['detached']):
                res.disagreements.append({'case': case, 'why': 'final records / status', 'model': [final['rows'], mstatus], 'impl': [irows, ob['rc']]})
            # the hook calls in order: one per finished step (the harness fixes the completion order), then the end
            # hook of the exit trap exactly when the model's trap_exit says so
            mh = [(bytes.fromhex(h.split(':')[0]).decode('latin1') if h.split(':')[0] != '-' else '', h.split(':')[1]) for h in final['hooks']]
            if final['eff'][2] == '1':
                mh.append(('end', '0'))
            ih = [tuple(h.split()[1:3]) for h in ob.get('hooks', [])]
            if want_account and mh != ih:
                res.disagreements.append({'case': case, 'why': 'hook calls', 'model': mh, 'impl': ih})
            # a failing PARALLEL step alone: end reached, exit status 0, a report (C11_parallel_failure_alone_exits_zero)
            codes = {s['name']: s['exit'] for s in case['steps']}
            started = [t[1] for t in ob.get('trace', []) if t[0] == 'start']
            if final['mode'] == 'done' and any(codes[n] != 0 for n in started):
                res.count('parallel-failure-exit: end reached with a failed parallel step')
                if not case['detached'] and (ob['rc'] != 0 or (want_account and not ob.get('report'))):
                    res.disagreements.append({'case': case, 'why': 'parallel-only failure: the model says exit 0 and a report', 'impl': [ob['rc'], ob.get('report')]})
        # ---- oracle on what really happened (C04): order of starts and ends, exit status, end recorded
        tr = ob.get('trace', [])
        toks = ['oktrace', str(case['ncpu']), str(ob['rc'] if not case['detached'] else (0 if any(r['name'] == 'end' for r in rows) else 1)),
                '1' if any(r['name'] == 'end' for r in rows) else '0'] + st + [str(len(case['skip']))] + [n.encode().hex() for n in case['skip']]
        toks.append(str(len(tr)))
        for t in tr:
            toks += (['S', t[1].encode().hex()] if t[0] == 'start' else ['E', t[1].encode().hex(), t[2]])
        ok = common.run_driver(drv, [' '.join(toks)])[0]
        if not want_account and ok != '1':
            res.oracle_failures.append({'case': case, 'signature': 'order-or-bound-violated',
                                        'what': 'observed starts/ends %s with exit %s break the barrier / ncpu bound / skip / stop-at-failure rules' % (tr, ob['rc'])})
        if want_account:
            executed = [t[1] for t in tr if t[0] == 'start']
            hooks = [h.split()[1:] for h in ob.get('hooks', [])]
            logs = ob.get('logs', {})
            t2 = ['okacct'] + st + [str(len(case['skip']))] + [n.encode().hex() for n in case['skip']]
            t2 += [str(len(executed))] + [n.encode().hex() for n in executed]
            t2 += [str(len(rows))]
            for r in rows:
                t2 += [r['step'], r['name'].encode().hex(), r['exit'], r['skip']]
            t2 += [str(len(logs))]
            for k, v in logs.items():
                t2 += [k, '1' if v else '0']
            t2 += [str(len(hooks))]
            for h in hooks:
                t2 += [h[0].encode().hex(), h[1]]
            t2 += ['1' if all(ob['lock_samples']) else '0', '1' if ob.get('lock_after') else '0', '1' if ob.get('report') else '0',
                   str(ob.get('mails', 0)), '1' if case['detached'] else '0']
            ok2 = common.run_driver(drv, [' '.join(t2)])[0]
            if ok2 != '1':
                res.oracle_failures.append({'case': case, 'signature': 'accounting-violated',
                                            'what': 'records %s hooks %s logs %s lock_during %s lock_after %s report %s mails %s' % (
                                                irows, hooks, logs, ob['lock_samples'], ob.get('lock_after'), ob.get('report'), ob.get('mails'))})
            sec = ob.get('second')
            if sec is not None:
                res.count('second invocation')
                if sec['rc'] == 0 or not sec['lock_same'] or not sec['first_untouched'] or len(sec['builddirs_after']) != 1:
                    res.oracle_failures.append({'case': case, 'signature': 'second-invocation-not-refused-cleanly', 'what': json.dumps(sec)})
    return res


def load_corpus(pid):
    return [json.load(open(p)) for p in sorted(glob.glob(os.path.join(common.VERIF, 'corpus', pid, '*.json')))]


RULE = ('canvas configurations of 2-7 gated probe steps (synchronous/parallel, exit codes 0/1/2/124/255, skip sets), ncpu 1-3, a generated completion order, '
        'foreground and detached, optionally a second invocation started meanwhile; after every completion the model predicts the next starts; '
        'non-trivial = at least one parallel and one synchronous non-skipped step; distinct by configuration+order')


def run(ctx, n=None):
    res = common.Result()
    res.rule = RULE
    n = n or ctx.budget(150, 2500)
    cases = load_corpus(PID) + [orch_e2e.gen_case(ctx.rng) for _ in range(n)]
    res.samples = cases[:2]
    evaluate(ctx, cases, res, False)
    res.traces_validated = res.evaluations
    return res


def extended_search(ctx, res, proof):
    return run(ctx, n=300)


def replay(ctx, rep):
    case = rep.get('case') or (rep.get('first_disagreements') or [{}])[0].get('case')
    res = common.Result()
    evaluate(ctx, [case], res, False)
    print(json.dumps(case)); print(res.disagreements); print(res.oracle_failures)
    return 1 if (res.disagreements or res.oracle_failures) else 0
