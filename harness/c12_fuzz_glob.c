/* C12 fuzz lane: a bounded glob(3), linked into every libFuzzer target that contains conf.c
 * (bsd-diff / x11-diff / ports-diff take a glob pattern from the configuration).
 * A generated pattern such as "/x/x/x/x/x" with a star in every component walks the whole file system of the
 * machine the check runs on (seconds, /proc entries that vanish meanwhile): that time belongs to the
 * machine, not to the parser, and would be reported as a hang of the parser.  Patterns with wildcard
 * characters in at most ONE path component, outside /proc, /sys and /dev, go to the real glob(3); every
 * other pattern is answered GLOB_NOMATCH without touching the file system (config_parse_glob: CONFIG_NOP).
 * The blind lanes of harness/c12.py run the helpers themselves with the real glob(3). */
#define _GNU_SOURCE
#include <dlfcn.h>
#include <glob.h>
#include <stdlib.h>
#include <string.h>

typedef int (*glob_fn)(const char *, int, int (*)(const char *, int), glob_t *);

int
glob(const char *pattern, int flags, int (*errfunc)(const char *, int), glob_t *g)
{
	static glob_fn real;
	int wild = 0, inwild = 0;

	for (const char *p = pattern; *p != '\0'; p++) {
		if (*p == '/') {
			inwild = 0;
		} else if ((*p == '*' || *p == '?' || *p == '[') && !inwild) {
			inwild = 1;
			wild++;
		}
	}
	if (wild > 1 || strlen(pattern) > 512 ||
	    strncmp(pattern, "/proc", 5) == 0 || strncmp(pattern, "/sys", 4) == 0 ||
	    strncmp(pattern, "/dev", 4) == 0) {
		memset(g, 0, sizeof(*g));
		return GLOB_NOMATCH;
	}
	if (real == NULL) {
		real = (glob_fn)dlsym(RTLD_NEXT, "glob");
		if (real == NULL)
			abort();
	}
	return real(pattern, flags, errfunc, g);
}
