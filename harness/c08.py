"""C08 - configuration accepted and valued exactly as documented: model vs robsd-config, spec oracle on what
robsd-config did.  The oracle is the reader on the PURELY documented tables (Conf/ConfOracle.v doc_tables): acceptance of the
text, then every template line, each side with its own failing lines dropped.  A verdict inside one of the exception classes of
Conf/DocExceptions.v (known findings) carries that class's signature, recognised by a predicate on the case and on the
documented reader's own diagnostics; every other verdict keeps the generic signatures and is a violation.

Each case is a configuration text for one mode (grammar-derived, or one edit away from such a text), -v
definitions, EXECDIR, and a template that references every variable of the mode one per line.  The
implementation is run; when the template fails on one line (unknown variable, malformed or too deep value)
that line is recorded with its error and dropped, and the run repeated, so that every variable is observed as
"value" or "error class".  Every single run is also put to the extracted model (exit, stdout, the complete
sequence of diagnostics with file/line/class/payload must agree), and the extracted specification oracle is
applied to the final observation.  Where the model flags a C-level trap (Conf/ConfAbort.v: possible only when
config_default_build_dir lacks its re-entry guard, finding D18) agreement means that the implementation dies."""
import hashlib, json, glob, os, re
from concurrent.futures import ThreadPoolExecutor
import common
from common import hexs
import conf_common as cc
import conf_gen

TRANSLATORS = ['t_interp', 't_conf']
TRUSTED = ['translator t_conf.py (anchored patterns on mode.h, conf-token.h, conf.c, conf-*.c, robsd-step.c; raises on anything it does not recognise)',
           'modelled, not verified: stat(2), getpwnam(3), glob(3) (patterns of literals, * and ? only), fnmatch(3) (patterns literal*literal), '
           'getenv, sysconf, if_group_addr, reading ${robsddir}/.running, isspace/islower/isdigit in the C locale, the compiler overflow builtins, '
           'vsnprintf truncation of diagnostics at 512 bytes (generated payloads are shorter)',
           'environment answers of the model come from the real file system / passwd database at run time (every query the model makes is resolved '
           'by the harness with os.stat, pwd.getpwnam, glob.glob, open); ncpu from os.sysconf, MACHINE/MACHINE_ARCH from the built config.h, '
           'inet/inet6 read once through the implementation itself',
           'Conf/DocSpec.v is a hand transcription of the five *.conf.5 pages and robsd-config.8 (every row annotated page:line, rules R1-R6 in its header); '
           'Conf/DocExceptions.v is the hand-typed list of differences to the C tables, proved exact by computation (C08_doc_exceptions_exact); the python '
           'predicates that map an oracle verdict to an exception class (UNDOC_*, NOROW in c08.py) are a hand copy of that list']

MAX_ATTEMPTS = 40

# ---- the exception classes of Conf/DocExceptions.v, as predicates on names (hand copy; the Coq side proves the list exact) ----
UNDOC_ALL = [b'build-user', b'exec-dir', b'report-path', b'tags-path', b'trace']            # rows of common_grammar no page mentions
UNDOC_REGRESS = re.compile(rb'regress-.*-(parallel|targets)')                                 # pattern rows no page mentions
NOROW = {'robsd-regress': re.compile(rb'regress-obj|regress-.*-(quiet|root)'), 'robsd-cross': re.compile(rb'target')}
SIG_UNDOC = 'undocumented-variable-readable'
SIG_NOROW = 'documented-variable-undefined-when-unset'
SIG_DIR = 'documented-directory-not-checked'
SIG_REP = 'regress-env-repeatable-undocumented'
SIG_D7 = 'canvas-accepts-undocumented-robsddir'
SIG_STEP = 'canvas-step-without-command-rejected'


def undocumented(mode, name):
    return name in UNDOC_ALL or (mode == 'robsd-regress' and UNDOC_REGRESS.fullmatch(name) is not None)


def documented_without_row(mode, name):
    return mode in NOROW and NOROW[mode].fullmatch(name) is not None


def unknown_name(diag):
    """the variable an `invalid substitution, unknown variable` diagnostic names, else None"""
    m = re.fullmatch(r'[cns]\|\d+\|interp:unknown:([0-9a-f]*|-)', diag)
    return None if not m else common.unhex(m.group(1))


P_BOUNDARY = 0.10


def gen_case(rng, g, big=False):
    mode = rng.choice(cc.MODES)
    ents, st = g.entries(mode, popt=rng.choice([0.1, 0.35, 0.35, 0.7]))
    label = 'valid'
    bnd = None
    if rng.random() < P_BOUNDARY:
        # one size / count / integer / name-family / file-shape boundary class (conf_gen.Gen.boundary)
        # (8 KiB strings cost the model 2-3 s per case: one boundary case in seven may have them in the quick tier)
        bnd = g.boundary(mode, ents, st, big=big, cap=None if (big or rng.random() < 0.15) else 4097)
        label, text = ('boundary' if bnd['valid'] else 'boundary-error'), bnd['text']
    elif rng.random() < 0.04:
        label, text = g.reentry(mode, ents, st)
    elif rng.random() < 0.45:
        label, text = g.corrupt(mode, ents, st)
    else:
        text = g.render(ents, plain=rng.random() < 0.15)
    vars_ = []
    k = rng.random()
    if k < 0.12:
        vars_ = [rng.choice([b'target=amd64', b'extra=1', b'ncpu=9', b'a=b=c', b'empty=', b'trace=-v', b'rdomain=7', b'regress-obj=fromv'])]
    elif k < 0.16:
        vars_ = [rng.choice([b'keep=3', b'noseparator', b'robsddir=/x', b'=v', b'hook=x', b'step=x', b'regress=x'])]
    x = rng.random()
    execdir = None if x < 0.5 else (b'@R@/exec' if x < 0.9 else b'')
    case = {'mode': mode, 'kind': label, 'text': text.hex(), 'vars': [v.hex() for v in vars_],
            'execdir': None if execdir is None else execdir.hex(),
            'stdin': g.template(mode, st).hex()}
    if bnd is not None:
        case['bclass'] = bnd['label']
        if 'vars' in bnd:
            case['vars'] = [v.hex() for v in bnd['vars']]
        if 'stdin' in bnd:
            case['stdin'] = bnd['stdin'].hex()
        if 'execdir' in bnd:
            case['execdir'] = bnd['execdir'].hex()
    return case


def attempts_for(world, case):
    """run the implementation, dropping template lines that fail one by one"""
    conf = cc.write_case_files(world, case)
    confb = conf.encode()
    lines = world.sub(bytes.fromhex(case['stdin'])).split(b'\n')
    if lines and lines[-1] == b'':
        lines.pop()
    atts = []
    dropped = []
    # acceptance of the configuration itself: no -v, empty template
    rc0, out0, err0 = cc.run_config(world, dict(case, vars=[]), conf, b'')
    atts.append({'stdin': b'', 'rc': rc0, 'out': out0, 'diags': cc.classify_stderr(err0, confb), 'err': err0, 'novars': True})
    for _ in range(MAX_ATTEMPTS):
        stdin = b''.join(l + b'\n' for l in lines)
        rc, out, err = cc.run_config(world, case, conf, stdin)
        diags = cc.classify_stderr(err, confb)
        atts.append({'stdin': stdin, 'rc': rc, 'out': out, 'diags': diags, 'err': err})
        if rc == 1 and diags:
            m = re.fullmatch(r's\|(\d+)\|(interp:.*)', diags[-1])
            if m and 1 <= int(m.group(1)) <= len(lines):
                n = int(m.group(1))
                dropped.append((lines[n - 1], m.group(2)))
                del lines[n - 1]
                continue
        break
    return conf, atts, dropped


def model_line(world, case, stdin, novars=False):
    vs = [] if novars else case.get('vars', [])
    return ['cfg', case['mode'], hexs(world.sub(bytes.fromhex(case['text']))), str(len(vs))] + [v if v else '-' for v in vs] + [hexs(stdin)]


def evaluate(ctx, cases, res, world=None, drv=None):
    if world is None:
        impl = ctx.build_impl()
        world = cc.World(ctx, impl)
    drv = drv or cc.unlimited_stack(ctx, cc.build_driver(ctx, 'cf', withz=True))
    with ThreadPoolExecutor(16) as ex:
        runs = list(ex.map(lambda c: attempts_for(world, c), cases))
    questions = []
    for ci, (conf, atts, dropped) in enumerate(runs):
        for a in atts:
            questions.append((ci, model_line(world, cases[ci], a['stdin'], a.get('novars', False))))
    answers, envs = cc.driver_rounds(world, drv, questions, cases, lambda pre, env: ' '.join(pre + env))
    # the specification oracle: the reader on the PURELY documented tables (Conf/ConfOracle.v doc_tables), asked independently:
    # acceptance of the text alone, then the template with its own failing lines dropped one by one
    sfirst, _ = cc.driver_rounds(world, drv, [(ci, ['specd'] + model_line(world, cases[ci], b'', True)[1:]) for ci in range(len(cases))],
                                 cases, lambda pre, env: ' '.join(pre + env))
    slines = []
    for ci in range(len(cases)):
        ls = world.sub(bytes.fromhex(cases[ci]['stdin'])).split(b'\n')
        if ls and ls[-1] == b'':
            ls.pop()
        slines.append(ls)
    sdropped = [[] for _ in cases]
    sfinal = [None] * len(cases)
    todo = [ci for ci in range(len(cases)) if sfirst[ci].split()[0] == '0']
    for _ in range(MAX_ATTEMPTS):
        if not todo:
            break
        sa, _ = cc.driver_rounds(world, drv, [(ci, ['specd'] + model_line(world, cases[ci], b''.join(l + b'\n' for l in slines[ci]))[1:]) for ci in todo],
                                 cases, lambda pre, env: ' '.join(pre + env))
        nxt = []
        for ci, a in zip(todo, sa):
            f = a.split()
            dg = f[4:4 + int(f[3])]
            m = re.fullmatch(r's\|(\d+)\|(interp:.*)', dg[-1]) if (f[0] == '1' and dg) else None
            if m and 1 <= int(m.group(1)) <= len(slines[ci]):
                sdropped[ci].append((slines[ci][int(m.group(1)) - 1], m.group(2)))
                del slines[ci][int(m.group(1)) - 1]
                nxt.append(ci)
            else:
                sfinal[ci] = a
        todo = nxt
    for ci in todo:
        sfinal[ci] = '1 - 0 0'
    qi = 0
    for ci, (conf, atts, dropped) in enumerate(runs):
        case = cases[ci]
        res.evaluations += 1
        first = atts[0]
        final = atts[-1]
        for a in atts:
            impl_s = ' '.join([str(a['rc'] if a['rc'] >= 0 else 999), hexs(a['out']), '0', str(len(a['diags']))] + a['diags'])
            mf = answers[qi].split()
            a['model_trap'] = len(mf) > 2 and mf[2] == '1'
            if a['model_trap']:
                # the model flags a C-level trap (Conf/ConfAbort.v: only ${builddir} re-entered, D18): what it says
                # about exit and diagnostics is void, the implementation must die abnormally
                agree = a['rc'] < 0 or a['rc'] > 128
                res.count('model predicts trap -> impl %s' % ('dies' if agree else 'exit %d' % a['rc']))
            else:
                agree = answers[qi] == impl_s
            if not agree:
                if len(res.disagreements) < 50:
                    res.disagreements.append({'case': dict(case, stdin=a['stdin'].replace(world.R, cc.PH).hex()), 'model': answers[qi], 'impl': impl_s,
                                              'stderr': a['err'][-400:].decode('latin1')})
                else:
                    res.disagreements.append({'case': None})
            qi += 1
        res.traces_validated += len(atts)
        accepted = first['rc'] == 0
        outcome = 'accept' if accepted else 'reject:' + (first['diags'][0].split('|', 2)[2].split(':')[0] if first['diags'] else 'silent')
        res.count('%s %s' % (case['mode'], 'accept' if accepted else 'reject'))
        res.count('kind %s -> %s' % (case['kind'], outcome))
        if case.get('bclass'):
            res.count('class: ' + case['bclass'])
            res.count('class %s -> %s' % (case['bclass'].split()[0], outcome))
        if case['kind'] != 'valid' or len(bytes.fromhex(case['text'])) > 60:
            res.nontrivial.add(hashlib.sha1((case['mode'] + case['text'] + repr(case.get('vars'))).encode()).hexdigest())
        oracle(world, case, conf, atts, dropped, accepted, res, sfirst[ci], sfinal[ci], sdropped[ci])
    return world


def line_values(out):
    """output of the all-variables template -> {name: value line}; the lines are name=<value>"""
    d = {}
    for l in out.split(b'\n'):
        if b'=<' in l:
            d.setdefault(l.split(b'=<', 1)[0], l)
    return d


def oracle(world, case, conf, atts, dropped, accepted, res, sfirst, sfinal, sdropped):
    """what the property demands of the implementation's behaviour, independent of the model of the code: the reader on the
    documented tables.  Every verdict is emitted.  A verdict that falls into one of the exception classes of
    Conf/DocExceptions.v carries that class's signature - recognised by a predicate on the case AND on the documented reader's
    own diagnostics (which name the row) - everything else keeps the general signatures."""
    first, final = atts[0], atts[-1]
    mode = case['mode']

    def fail(sig, what, **kw):
        res.oracle_failures.append(dict({'case': case, 'signature': sig, 'what': what, 'stderr': first['err'][-300:].decode('latin1')}, **kw))
    for a in atts:
        if a['rc'] not in (0, 1):
            if a.get('model_trap') and a['rc'] in (-11, 139):
                # D21 (repaired in /repo 35cfab1) = death by stack exhaustion (SIGSEGV) where the model flags the trap; any other
                # signal (SIGILL of __builtin_trap, SIGABRT of an assert) is a different trap site
                fail('config-builddir-reentry', 'robsd-config terminated with status %d: ${builddir} needed while ${builddir} is being computed '
                     '(config_default_build_dir re-entered without bound)' % a['rc'])
                return
            fail('hang' if a['rc'] == -999 else 'abnormal-termination', 'robsd-config terminated with status %d' % a['rc'])
            return
        if a['rc'] != 0 and a['out']:
            fail('partial-output-on-failure', 'exit %d with %d bytes on stdout' % (a['rc'], len(a['out'])))
        vrefusal = a['diags'] and all(d.split('|', 2)[2].split(':')[0] in ('cannot_define', 'no_separator') for d in a['diags'])
        if a['rc'] != 0 and not vrefusal and not any(d[0] in 'cs' for d in a['diags']):
            fail('reject-diagnostic-lacks-file-name', 'exit %d but no diagnostic names the configuration file or the template: %r' % (a['rc'], a['diags'][:3]))
        if a['rc'] == 0 and a['diags']:
            fail('diagnostic-on-success', 'exit 0 with diagnostics %r' % a['diags'][:3])
    # ---- acceptance against the documented grammar
    sp0 = sfirst.split()
    spec_accept = sp0[0] == '0'
    sdiags = sp0[4:4 + int(sp0[3])]
    text = world.sub(bytes.fromhex(case['text']))
    if accepted and not spec_accept:
        sigs = set()
        for d in sdiags:
            cls = d.split('|', 2)[2].split(':')[0]
            nm = unknown_name(d)
            if mode == 'canvas' and d.split('|', 2)[2] == 'unknown_keyword:' + hexs(b'robsddir'):
                sigs.add(SIG_D7)                  # the documented reader stumbles over the keyword robsddir, nothing else
            elif nm is not None and undocumented(mode, nm):
                sigs.add(SIG_UNDOC)               # ... over a reference to a variable no page documents (directory value, env option)
            elif mode == 'robsd-ports' and (cls in ('dir_error', 'not_a_directory') or (cls == 'interp' and d[0] == 'c')):
                # a directory value that does not exist, or does not expand, while the file is read.  robsddir is checked by the
                # code as well and the code ACCEPTED: the only other documented directories of robsd-ports.conf.5 are chroot and
                # ports-dir (nothing else is expanded while a robsd-ports.conf is read)
                sigs.add(SIG_DIR)
            elif mode == 'robsd-regress' and d.split('|', 2)[2] == 'already_defined:' + hexs(b'regress-env'):
                sigs.add(SIG_REP)
            elif cls in ('want', 'unknown_keyword') and mode == 'canvas' and SIG_D7 in sigs:
                pass                              # error recovery behind the unknown keyword: its value tokens
            elif cls == 'mandatory_missing' and sigs and re.search(rb'(^|[\s}"])' + re.escape(common.unhex(d.split(':')[-1])) + rb'([\s"{]|$)', text):
                # consequence of a diagnostic classified above: the required keyword IS in the text, the documented reader could
                # not define it (its value failed); a required keyword that is absent from the text stays a verdict of its own
                pass
            else:
                sigs.add('accepts-nonconforming')
        if not sdiags:
            sigs.add('accepts-nonconforming')
        for sg in sorted(sigs):
            fail(sg, {SIG_D7: 'canvas mode accepts a configuration assigning robsddir, a keyword canvas.conf.5 does not have',
                      SIG_UNDOC: 'accepted although a value refers to a variable no manual page documents: %r' % sdiags[:2],
                      SIG_DIR: 'accepted although chroot / ports-dir (directories by robsd-ports.conf.5) do not exist: %r' % sdiags[:2],
                      SIG_REP: 'regress-env given more than once is accepted; robsd-regress.conf.5 does not make it repeatable'}.get(
                          sg, 'robsd-config accepts a configuration that does not conform to the documented grammar of %s: %r' % (mode, sdiags[:3])))
    elif not accepted and spec_accept:
        names = [unknown_name(d) for d in first['diags']]
        if names and all(n is not None and documented_without_row(mode, n) for n in names):
            fail(SIG_NOROW, 'rejected because a value refers to %r, which robsd-config.8 documents but the code only knows once an option defined it' % names[0])
        else:
            fail('rejects-conforming', 'robsd-config rejects a configuration that conforms to the documented grammar of %s: %r' % (mode, first['diags'][:3]))
    elif not accepted and mode == 'canvas' and first['diags'] and all(d.split('|', 2)[2] == 'step_command_missing' for d in first['diags']):
        # python-side predicate (the documented reader shares the production): canvas.conf.5:24-27 writes step "name" [options]
        fail(SIG_STEP, 'a step without command is rejected although canvas.conf.5 marks the options of a step as optional')
    elif accepted:
        # ---- values: every template line, each side with its own failing lines dropped
        sf = sfinal.split()
        if final['rc'] != 0 or sf[0] != '0':
            if not (final['rc'] != 0 and final['diags'] and all(d.split('|', 2)[2].split(':')[0] in ('cannot_define', 'no_separator') for d in final['diags'])):
                fail('template-outcome-differs', 'the template does not settle: robsd-config exit %d, documented reader exit %s' % (final['rc'], sf[0]))
            return
        ierr = {l: e for l, e in dropped}
        serr = {l: e for l, e in sdropped}
        same_kept = set(ierr) == set(serr)
        for l in sorted(set(ierr) | set(serr)):
            if l in ierr and l in serr:
                if ierr[l].split(':')[:2] != serr[l].split(':')[:2]:
                    sn, inn = unknown_name('s|0|' + serr[l]), unknown_name('s|0|' + ierr[l])
                    if sn is not None and undocumented(mode, sn):
                        fail(SIG_UNDOC, 'line %r: the documented reader stops at %r, which no manual page documents; robsd-config goes on (%s)' % (l[:60], sn, ierr[l]))
                    elif inn is not None and documented_without_row(mode, inn):
                        fail(SIG_NOROW, 'line %r: unknown variable %r, documented in robsd-config.8' % (l[:60], inn))
                    else:
                        fail('template-outcome-differs', 'line %r: robsd-config fails with %s, the documented reader with %s' % (l[:60], ierr[l], serr[l]))
                continue
            e = ierr.get(l) or serr.get(l)
            nm = unknown_name('s|0|' + e)
            if l in serr and nm is not None and undocumented(mode, nm):
                fail(SIG_UNDOC, 'line %r: robsd-config yields a value, no manual page documents %r' % (l[:60], nm))
            elif l in ierr and nm is not None and documented_without_row(mode, nm):
                fail(SIG_NOROW, 'line %r: unknown variable %r, documented in robsd-config.8' % (l[:60], nm))
            else:
                fail('template-outcome-differs', 'line %r: %s fails (%s), the other side yields a value'
                     % (l[:60], 'robsd-config' if l in ierr else 'the documented reader', e))
        iv, sv = line_values(final['out']), line_values(common.unhex(sf[1]))
        for name in sorted(set(iv) & set(sv)):
            if iv[name] == sv[name]:
                continue
            if not same_kept and name in (b'many', b'rd'):
                res.count('outside: line with several references compared after different lines were dropped')
                continue
            if name == b'rd':
                fail('rdomain-repeats-after-wrap', 'successive ${rdomain} references do not cycle through 11..255: %r, documented %r' % (iv[name][:80], sv[name][:80]))
            elif name == b'regress-user' and any(bytes.fromhex(v).startswith(b'build-user=') for v in case.get('vars', [])):
                # OUTSIDE: the property quantifies over configuration texts; -v build-user=... overrides an undocumented variable
                # through which the code spells the documented default "build" (class XC_default_text)
                res.count('outside: regress-user default under -v build-user')
            else:
                fail('value-differs:' + name.decode('latin1'), 'variable %s interpolates to %r, documented value %r' % (name.decode('latin1'), iv[name][:80], sv[name][:80]))
    # rdomain: successive references distinct, cycling through 11..255
    overridden = any(bytes.fromhex(v).startswith(b'rdomain=') for v in case.get('vars', []))      # -v rdomain=N replaces the counter by design
    if final['rc'] == 0 and not overridden:
        for l in final['out'].split(b'\n'):
            if l.startswith(b'rd='):
                vals = [int(x) for x in l[3:].split()]
                bad = [i for i in range(1, len(vals)) if vals[i] != (11 if vals[i - 1] == 255 else vals[i - 1] + 1)] + \
                      [i for i, v in enumerate(vals) if not 11 <= v <= 255]
                if bad:
                    i = bad[0]
                    fail('rdomain-repeats-after-wrap' if i > 0 and vals[i] == vals[i - 1] else 'rdomain-sequence',
                         'successive ${rdomain} references yield %r at positions %d..%d' % (vals[max(0, i - 2):i + 2], max(0, i - 2), i + 1))


def load_corpus():
    return [json.load(open(p)) for p in sorted(glob.glob(os.path.join(common.VERIF, 'corpus', 'C08', '*.json')))]


def run(ctx, n=None):
    res = common.Result()
    res.rule = ('configurations derived from the documented grammar of the five modes (every keyword, option order, repetition, comments, '
                'white space) and single-edit corruptions (unknown keyword, wrong type, missing required, duplicate, missing directory/user, '
                'unterminated string, integer overflow, timeout units/overflow, empty string, list and option errors, stray bytes incl. NUL, '
                'failing interpolation in a directory); -v definitions; EXECDIR; a template referencing every variable; non-trivial = a '
                'corruption or a configuration of more than 60 bytes; distinct by content hash')
    n = n or ctx.budget(700, 30000)
    g = conf_gen.Gen(ctx.rng)
    cases = load_corpus() + [gen_case(ctx.rng, g, big=(ctx.tier == 'thorough')) for _ in range(n)]
    res.samples = [{k: (bytes.fromhex(v).decode('latin1') if k in ('text',) else v) for k, v in c.items() if k != 'stdin'} for c in cases[:4]]
    world = None
    drv = None
    for i in range(0, len(cases), 4000):
        world = evaluate(ctx, cases[i:i + 4000], res, world, drv)
    return res


def extended_search(ctx, res, proof):
    return run(ctx, n=6000)


def replay(ctx, rep):
    case = rep.get('case') or (rep.get('first_disagreements') or [{}])[0].get('case')
    res = common.Result()
    ctx.regen(TRANSLATORS)
    evaluate(ctx, [case], res)
    print('case:', {k: (bytes.fromhex(v) if k in ('text', 'stdin') else v) for k, v in case.items()})
    print('disagreements:', res.disagreements)
    print('oracle failures:', [(f['signature'], f['what']) for f in res.oracle_failures])
    return 1 if (res.disagreements or res.oracle_failures) else 0
