"""C08 - configuration accepted and valued exactly as documented: model vs robsd-config, spec oracle on what
robsd-config did.

Each case is a configuration text for one mode (grammar-derived, or one edit away from such a text), -v
definitions, EXECDIR, and a template that references every variable of the mode one per line.  The
implementation is run; when the template fails on one line (unknown variable, malformed or too deep value)
that line is recorded with its error and dropped, and the run repeated, so that every variable is observed as
"value" or "error class".  Every single run is also put to the extracted model (exit, stdout, the complete
sequence of diagnostics with file/line/class/payload must agree), and the extracted specification oracle is
applied to the final observation.  Where the model flags a C-level trap (Conf/ConfAbort.v: possible only when
config_default_build_dir lacks its re-entry guard, finding D18) agreement means that the implementation dies."""
import hashlib, json, glob, os, re
from concurrent.futures import ThreadPoolExecutor
import common
from common import hexs
import conf_common as cc
import conf_gen

TRANSLATORS = ['t_interp', 't_conf']
TRUSTED = ['translator t_conf.py (anchored patterns on mode.h, conf-token.h, conf.c, conf-*.c, robsd-step.c; raises on anything it does not recognise)',
           'modelled, not verified: stat(2), getpwnam(3), glob(3) (patterns of literals, * and ? only), fnmatch(3) (patterns literal*literal), '
           'getenv, sysconf, if_group_addr, reading ${robsddir}/.running, isspace/islower/isdigit in the C locale, the compiler overflow builtins, '
           'vsnprintf truncation of diagnostics at 512 bytes (generated payloads are shorter)',
           'environment answers of the model come from the real file system / passwd database at run time (every query the model makes is resolved '
           'by the harness with os.stat, pwd.getpwnam, glob.glob, open); ncpu from os.sysconf, MACHINE/MACHINE_ARCH from the built config.h, '
           'inet/inet6 read once through the implementation itself',
           'DocSpec.v is a hand transcription of the five *.conf.5 pages and robsd-config.8']

MAX_ATTEMPTS = 40


def gen_case(rng, g):
    mode = rng.choice(cc.MODES)
    ents, st = g.entries(mode, popt=rng.choice([0.1, 0.35, 0.35, 0.7]))
    label = 'valid'
    if rng.random() < 0.04:
        label, text = g.reentry(mode, ents, st)
    elif rng.random() < 0.45:
        label, text = g.corrupt(mode, ents, st)
    else:
        text = g.render(ents, plain=rng.random() < 0.15)
    vars_ = []
    k = rng.random()
    if k < 0.12:
        vars_ = [rng.choice([b'target=amd64', b'extra=1', b'ncpu=9', b'a=b=c', b'empty=', b'trace=-v', b'rdomain=7', b'regress-obj=fromv'])]
    elif k < 0.16:
        vars_ = [rng.choice([b'keep=3', b'noseparator', b'robsddir=/x', b'=v', b'hook=x', b'step=x', b'regress=x'])]
    x = rng.random()
    execdir = None if x < 0.5 else (b'@R@/exec' if x < 0.9 else b'')
    case = {'mode': mode, 'kind': label, 'text': text.hex(), 'vars': [v.hex() for v in vars_],
            'execdir': None if execdir is None else execdir.hex(),
            'stdin': g.template(mode, st).hex()}
    return case


def attempts_for(world, case):
    """run the implementation, dropping template lines that fail one by one"""
    conf = cc.write_case_files(world, case)
    confb = conf.encode()
    lines = world.sub(bytes.fromhex(case['stdin'])).split(b'\n')
    if lines and lines[-1] == b'':
        lines.pop()
    atts = []
    dropped = []
    # acceptance of the configuration itself: no -v, empty template
    rc0, out0, err0 = cc.run_config(world, dict(case, vars=[]), conf, b'')
    atts.append({'stdin': b'', 'rc': rc0, 'out': out0, 'diags': cc.classify_stderr(err0, confb), 'err': err0, 'novars': True})
    for _ in range(MAX_ATTEMPTS):
        stdin = b''.join(l + b'\n' for l in lines)
        rc, out, err = cc.run_config(world, case, conf, stdin)
        diags = cc.classify_stderr(err, confb)
        atts.append({'stdin': stdin, 'rc': rc, 'out': out, 'diags': diags, 'err': err})
        if rc == 1 and diags:
            m = re.fullmatch(r's\|(\d+)\|(interp:.*)', diags[-1])
            if m and 1 <= int(m.group(1)) <= len(lines):
                n = int(m.group(1))
                dropped.append((lines[n - 1], m.group(2)))
                del lines[n - 1]
                continue
        break
    return conf, atts, dropped


def model_line(world, case, stdin, novars=False):
    vs = [] if novars else case.get('vars', [])
    return ['cfg', case['mode'], hexs(world.sub(bytes.fromhex(case['text']))), str(len(vs))] + [v if v else '-' for v in vs] + [hexs(stdin)]


def evaluate(ctx, cases, res, world=None, drv=None):
    if world is None:
        impl = ctx.build_impl()
        world = cc.World(ctx, impl)
    drv = drv or ctx.build_driver('cf', withz=True)
    with ThreadPoolExecutor(16) as ex:
        runs = list(ex.map(lambda c: attempts_for(world, c), cases))
    questions = []
    for ci, (conf, atts, dropped) in enumerate(runs):
        for a in atts:
            questions.append((ci, model_line(world, cases[ci], a['stdin'], a.get('novars', False))))
    answers, envs = cc.driver_rounds(world, drv, questions, cases, lambda pre, env: ' '.join(pre + env))
    # the specification oracle: the reader on the documented tables, same inputs
    sanswers, _ = cc.driver_rounds(world, drv, [(ci, ['spec'] + q[1:]) for ci, q in questions], cases, lambda pre, env: ' '.join(pre + env))
    qi = 0
    for ci, (conf, atts, dropped) in enumerate(runs):
        case = cases[ci]
        res.evaluations += 1
        first = atts[0]
        final = atts[-1]
        for a in atts:
            a['spec'] = sanswers[qi]
            impl_s = ' '.join([str(a['rc'] if a['rc'] >= 0 else 999), hexs(a['out']), '0', str(len(a['diags']))] + a['diags'])
            mf = answers[qi].split()
            a['model_trap'] = len(mf) > 2 and mf[2] == '1'
            if a['model_trap']:
                # the model flags a C-level trap (Conf/ConfAbort.v: only ${builddir} re-entered, D18): what it says
                # about exit and diagnostics is void, the implementation must die abnormally
                agree = a['rc'] < 0 or a['rc'] > 128
                res.count('model predicts trap -> impl %s' % ('dies' if agree else 'exit %d' % a['rc']))
            else:
                agree = answers[qi] == impl_s
            if not agree:
                if len(res.disagreements) < 50:
                    res.disagreements.append({'case': dict(case, stdin=a['stdin'].replace(world.R, cc.PH).hex()), 'model': answers[qi], 'impl': impl_s,
                                              'stderr': a['err'][-400:].decode('latin1')})
                else:
                    res.disagreements.append({'case': None})
            qi += 1
        res.traces_validated += len(atts)
        accepted = first['rc'] == 0
        outcome = 'accept' if accepted else 'reject:' + (first['diags'][0].split('|', 2)[2].split(':')[0] if first['diags'] else 'silent')
        res.count('%s %s' % (case['mode'], 'accept' if accepted else 'reject'))
        res.count('kind %s -> %s' % (case['kind'], outcome))
        if case['kind'] != 'valid' or len(bytes.fromhex(case['text'])) > 60:
            res.nontrivial.add(hashlib.sha1((case['mode'] + case['text'] + repr(case.get('vars'))).encode()).hexdigest())
        oracle(world, case, conf, atts, dropped, accepted, res)
    return world


def oracle(world, case, conf, atts, dropped, accepted, res):
    """what the property demands of the implementation's behaviour, independent of the model"""
    first, final = atts[0], atts[-1]

    def fail(sig, what, **kw):
        res.oracle_failures.append(dict({'case': case, 'signature': sig, 'what': what, 'stderr': first['err'][-300:].decode('latin1')}, **kw))
    for a in atts:
        if a['rc'] not in (0, 1):
            if a.get('model_trap') and a['rc'] in (-11, 139):
                # D18 (repaired in /repo 35cfab1) = death by stack exhaustion (SIGSEGV) where the model flags the trap; any other
                # signal (SIGILL of __builtin_trap, SIGABRT of an assert) is a different trap site
                fail('config-builddir-reentry', 'robsd-config terminated with status %d: ${builddir} needed while ${builddir} is being computed '
                     '(config_default_build_dir re-entered without bound)' % a['rc'])
                return
            fail('abnormal-termination', 'robsd-config terminated with status %d' % a['rc'])
            return
        if a['rc'] != 0 and a['out']:
            fail('partial-output-on-failure', 'exit %d with %d bytes on stdout' % (a['rc'], len(a['out'])))
        vrefusal = a['diags'] and all(d.split('|', 2)[2].split(':')[0] in ('cannot_define', 'no_separator') for d in a['diags'])
        if a['rc'] != 0 and not vrefusal and not any(d[0] in 'cs' for d in a['diags']):
            fail('reject-diagnostic-lacks-file-name', 'exit %d but no diagnostic names the configuration file or the template: %r' % (a['rc'], a['diags'][:3]))
        if a['rc'] == 0 and a['diags']:
            fail('diagnostic-on-success', 'exit 0 with diagnostics %r' % a['diags'][:3])
    # acceptance and values against the documented grammar/defaults (Conf/ConfInst.v spec_config)
    sp0 = first['spec'].split()
    spec_accept = sp0[0] == '0'
    text = bytes.fromhex(case['text'])
    if accepted and not spec_accept:
        if case['mode'] == 'canvas' and re.search(rb'(^|[\s}"])robsddir([\s"{]|$)', text):
            fail('canvas-accepts-undocumented-robsddir', 'canvas mode accepts a configuration assigning robsddir, a keyword canvas.conf.5 does not have')
        else:
            fail('accepts-nonconforming', 'robsd-config accepts a configuration that does not conform to the documented grammar of ' + case['mode'])
    elif not accepted and spec_accept:
        fail('rejects-conforming', 'robsd-config rejects a configuration that conforms to the documented grammar of %s: %r' % (case['mode'], first['diags'][:3]))
    elif accepted:
        for a in atts[1:]:
            sp = a['spec'].split()
            m = re.fullmatch(r's\|(\d+)\|interp:.*', a['diags'][-1]) if a['diags'] else None
            impl_t = (a['rc'], hexs(a['out']), int(m.group(1)) if m else 0)
            spec_t = (int(sp[0]), sp[1], int(sp[3]))
            if impl_t == spec_t or (a['rc'] != 0 and not m):
                continue          # -v refusals are not a matter of the documented tables
            if impl_t[0] != spec_t[0] or impl_t[2] != spec_t[2]:
                ls = a['stdin'].split(b'\n')
                n = impl_t[2] or spec_t[2]
                fail('template-outcome-differs', 'line %r of the template: robsd-config exit %d (failing line %d), documented tables exit %d (failing line %d)'
                     % (ls[n - 1][:60] if 0 < n <= len(ls) else b'', impl_t[0], impl_t[2], spec_t[0], spec_t[2]))
                break
            il, sl = a['out'].split(b'\n'), common.unhex(sp[1]).split(b'\n')
            k = next((i for i in range(min(len(il), len(sl))) if il[i] != sl[i]), min(len(il), len(sl)))
            line = il[k] if k < len(il) else b''
            name = line.split(b'=', 1)[0].decode('latin1')
            rd = [l for l in il if l.startswith(b'rd=')]
            rep = False
            for l in rd:
                v = l[3:].split()
                rep = rep or any(v[i] == v[i - 1] for i in range(1, len(v)))
            if rep or name == 'rd':
                fail('rdomain-repeats-after-wrap', 'successive ${rdomain} references do not cycle through 11..255: first differing output line %r, documented %r'
                     % (line[:80], (sl[k] if k < len(sl) else b'')[:80]))
            else:
                fail('value-differs:' + name, 'variable %s interpolates to %r, documented value %r' % (name, line[:80], (sl[k] if k < len(sl) else b'')[:80]))
            break
    # rdomain: successive references distinct, cycling through 11..255
    overridden = any(bytes.fromhex(v).startswith(b'rdomain=') for v in case.get('vars', []))      # -v rdomain=N replaces the counter by design
    if final['rc'] == 0 and not overridden:
        for l in final['out'].split(b'\n'):
            if l.startswith(b'rd='):
                vals = [int(x) for x in l[3:].split()]
                bad = [i for i in range(1, len(vals)) if vals[i] != (11 if vals[i - 1] == 255 else vals[i - 1] + 1)] + \
                      [i for i, v in enumerate(vals) if not 11 <= v <= 255]
                if bad:
                    i = bad[0]
                    fail('rdomain-repeats-after-wrap' if i > 0 and vals[i] == vals[i - 1] else 'rdomain-sequence',
                         'successive ${rdomain} references yield %r at positions %d..%d' % (vals[max(0, i - 2):i + 2], max(0, i - 2), i + 1))


def load_corpus():
    return [json.load(open(p)) for p in sorted(glob.glob(os.path.join(common.VERIF, 'corpus', 'C08', '*.json')))]


def run(ctx, n=None):
    res = common.Result()
    res.rule = ('configurations derived from the documented grammar of the five modes (every keyword, option order, repetition, comments, '
                'white space) and single-edit corruptions (unknown keyword, wrong type, missing required, duplicate, missing directory/user, '
                'unterminated string, integer overflow, timeout units/overflow, empty string, list and option errors, stray bytes incl. NUL, '
                'failing interpolation in a directory); -v definitions; EXECDIR; a template referencing every variable; non-trivial = a '
                'corruption or a configuration of more than 60 bytes; distinct by content hash')
    n = n or ctx.budget(700, 30000)
    g = conf_gen.Gen(ctx.rng)
    cases = load_corpus() + [gen_case(ctx.rng, g) for _ in range(n)]
    res.samples = [{k: (bytes.fromhex(v).decode('latin1') if k in ('text',) else v) for k, v in c.items() if k != 'stdin'} for c in cases[:4]]
    world = None
    drv = None
    for i in range(0, len(cases), 4000):
        world = evaluate(ctx, cases[i:i + 4000], res, world, drv)
    return res


def extended_search(ctx, res, proof):
    return run(ctx, n=6000)


def replay(ctx, rep):
    case = rep.get('case') or (rep.get('first_disagreements') or [{}])[0].get('case')
    res = common.Result()
    ctx.regen(TRANSLATORS)
    evaluate(ctx, [case], res)
    print('case:', {k: (bytes.fromhex(v) if k in ('text', 'stdin') else v) for k, v in case.items()})
    print('disagreements:', res.disagreements)
    print('oracle failures:', [(f['signature'], f['what']) for f in res.oracle_failures])
    return 1 if (res.disagreements or res.oracle_failures) else 0
