/* In-process harness for interpolate.c (C09).  Linked against the objects of
 * the scratch build.  stdin: one case per line
 *     <ignore 0|1> <nenv> (<hexkey> <hexval>)* <hextemplate>
 * stdout: "<rc> <hexout|->"   rc 0 = string returned, 1 = NULL. stderr is the
 * library's diagnostics (classified by the caller per case via a marker line). */
#include <stdio.h>
#include <stdlib.h>
#include <string.h>

#include "libks/arena.h"
#include "interpolate.h"

struct kv { char *k; char *v; };
struct env { struct kv *kv; int n; };

static unsigned int hexval(char c) {
	if (c >= '0' && c <= '9') return (unsigned int)(c - '0');
	if (c >= 'a' && c <= 'f') return (unsigned int)(c - 'a' + 10);
	if (c >= 'A' && c <= 'F') return (unsigned int)(c - 'A' + 10);
	return 0;
}

static char *unhex(const char *h) {
	size_t n;
	char *out;
	if (strcmp(h, "-") == 0) return strdup("");
	n = strlen(h) / 2;
	out = malloc(n + 1);
	/* decoded by hand: sscanf on the rest of a long string is linear per call
	 * (values of 64 KiB and more made the harness itself quadratic) */
	for (size_t i = 0; i < n; i++)
		out[i] = (char)((hexval(h[2 * i]) << 4) | hexval(h[2 * i + 1]));
	out[n] = 0;
	return out;
}

static const char *lookup(const char *name, struct arena_scope *s, void *arg) {
	struct env *e = arg;
	for (int i = 0; i < e->n; i++)
		if (strcmp(e->kv[i].k, name) == 0)
			return arena_strdup(s, e->kv[i].v);
	return NULL;
}

int main(void) {
	char *line = NULL;
	size_t cap = 0;
	struct arena *eternal = arena_alloc(), *scratch = arena_alloc();
	long caseno = 0;
	while (getline(&line, &cap, stdin) > 0) {
		char *save, *tok;
		struct env e = {0};
		int ignore;
		arena_scope(eternal, es);
		line[strcspn(line, "\n")] = 0;
		tok = strtok_r(line, " ", &save); ignore = atoi(tok);
		tok = strtok_r(NULL, " ", &save); e.n = atoi(tok);
		e.kv = calloc((size_t)e.n + 1, sizeof(*e.kv));
		for (int i = 0; i < e.n; i++) {
			e.kv[i].k = unhex(strtok_r(NULL, " ", &save));
			e.kv[i].v = unhex(strtok_r(NULL, " ", &save));
		}
		char *tmpl = unhex(strtok_r(NULL, " ", &save));
		fprintf(stderr, "#case %ld\n", caseno++);
		const char *out = interpolate_str(tmpl, &(struct interpolate_arg){
		    .lookup = lookup, .arg = &e, .eternal = &es, .scratch = scratch,
		    .flags = ignore ? INTERPOLATE_IGNORE_LOOKUP_ERRORS : 0 });
		if (out == NULL) {
			printf("1 -\n");
		} else {
			printf("0 ");
			if (out[0] == 0) printf("-");
			for (const char *p = out; *p; p++) printf("%02x", (unsigned char)*p);
			printf("\n");
		}
		for (int i = 0; i < e.n; i++) { free(e.kv[i].k); free(e.kv[i].v); }
		free(e.kv); free(tmpl);
	}
	fflush(stdout);
	return 0;
}
