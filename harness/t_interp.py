"""Translator: interpolate.c -> Gen_Interp.v (the recursion limit)."""
import os, re


def generate(repo):
    src = open(os.path.join(repo, 'interpolate.c')).read()
    m = re.findall(r'if\s*\(\s*\+\+c->depth\s*==\s*(\d+)\s*\)', src)
    if len(m) != 1:
        raise RuntimeError('interpolate.c: expected exactly one "++c->depth == N" test, found %d' % len(m))
    if not re.search(r'error = interpolate_inner\(c, bf, str\);\s*c->depth--;', src):
        raise RuntimeError('interpolate.c: depth is no longer decremented right after interpolate_inner')
    return {'Gen_Interp.v': '(* generated from interpolate.c by harness/t_interp.py - do not edit *)\n'
                            'Definition depth_limit : nat := %d.\n' % int(m[0])}
