/*
 * arena_harness.c - in-process harness for C19 (libks/arena.c).
 *
 * Built against the scratch build of the implementation:
 *   cc -I<impl> -c arena_harness.c            (this file #includes libks/arena.c to reach its statics)
 *   cc -I<impl> -Darena_malloc=tr_arena_malloc -Darena_calloc=tr_arena_calloc \
 *      -Darena_realloc=tr_arena_realloc -c <impl>/libks/arena-buffer.c <impl>/libks/arena-vector.c
 *   + <impl>/libks/buffer.c vector.c arithmetic.c
 * so that the allocations made by arena-backed buffers and vectors pass through
 * the tracing wrappers below and appear in the output as primitive operations.
 *
 * stdin: one operation sequence per line, operations separated by ';'
 *   <a> E | <a> L <k> | <a> M <k> <size> <label> | <a> C <k> <nmemb> <size> <label>
 *   <a> R <k> <srclabel|-1> <mis> <old> <new> <label> | <a> S|D|P <k> <hex|-> <label>
 *   <a> U <k> <tok> | <a> F <label> <off> <n> <v> | <a> G <label> <off> | <a> X
 *   <a> BA <k> <init> <obj> | <a> BP <obj> <hex> | <a> BF <obj>
 *   <a> VI <k> <stride> <n> <obj> | <a> VA <obj> <count> | <a> VR <obj> <n> | <a> VF <obj>
 * (<a> arena 0/1, <k> scope index with 0 = innermost, labels/objects are chosen by the generator)
 *
 * stdout, per sequence: "BEGIN", one line per primitive arena operation
 *   <a> <op with handles> => <result> | <frames> <a->frame->len> <a->refs> | <sum actual> <sum shadow>
 * ("<a> <op> => p wild <r>" and exit status 96 when a returned pointer lies in no frame; r = pointer mod 16),
 * lines starting with '#' for buffer/vector level operations ("# <a> <OP> <obj> begin <args>" before the
 * operation's primitive lines, "# <a> <OP> <obj> => c <ok>" after them), and "END done|signal N|exit N".
 * A leave of a scope that is not the innermost one (L k, k > 0) is judged by the property's reading:
 * the blocks of the scopes still open stay live (shadow copies keep being compared); a block whose
 * frame the leave gave back to malloc makes the two checksums of that line differ.
 * Every sequence runs in a forked child so that a trap ends only that sequence.
 * Handle i of an arena = the i-th pointer returned by a primitive operation on it.
 */
#include "libks/arena.c"

#include <sys/wait.h>
#include <ctype.h>
#include <inttypes.h>

#include "libks/arena-buffer.h"
#include "libks/arena-vector.h"
#include "libks/buffer.h"
#include "libks/vector.h"

#define MAXSCOPE 128
/* blocks above this size (requests of 2^31 .. 2^32 bytes) are located, aligned and shaped like any other but have
 * no shadow copy and take no part in the checksums: nothing writes to them */
#define NOSHADOW_ABOVE ((size_t)1 << 28)
#define MAXBLK 8192
#define MAXLABEL 8192
#define MAXOBJ 256
#define MAXLOG 4096

struct blk {
	char		*ptr;
	size_t		 size;
	int		 level;		/* depth of the owning scope, 1 = outermost */
	int		 live;
	int		 obj;		/* buffer/vector object the block belongs to, -1 = none */
	unsigned char	*shadow;
};

struct obj {
	int		 kind;		/* 0 free, 1 buffer, 2 vector */
	int		 arena;
	struct buffer	*bf;
	uint64_t	*vc;		/* VECTOR(uint64_t) or other stride through bytes */
	size_t		 stride;
	unsigned char	*expect;	/* expected buffer content */
	size_t		 expect_len;
	size_t		 nelem;
};

struct ar {
	struct arena		*a;
	struct arena_scope	 scopes[MAXSCOPE];
	int			 depth;
	int			 free_called;
	int			 gone;		/* struct arena has been freed */
	struct blk		 blks[MAXBLK];
	int			 nblk;
	int			 labels[MAXLABEL];
};

static struct ar ars[2];
static struct obj objs[MAXOBJ];
static int cur_obj = -1;
static uintptr_t cl_log[MAXLOG];
static int cl_n;
static int lost_now;	/* live blocks of scopes still open whose frame the last leave freed */

/* the harness reads the arena's own words (frame list, len, refs) also where ASan has poisoned them
 * (after the "len = 0" rewind frame_poison covers struct arena_frame itself) */
#if defined(__clang__)
#define NOASAN __attribute__((no_sanitize("address")))
#elif defined(__GNUC__)
#define NOASAN __attribute__((no_sanitize_address))
#else
#define NOASAN
#endif

static void
die(const char *msg)
{
	printf("HARNESS-ERROR %s\n", msg);
	fflush(stdout);
	_exit(97);
}

/* checksums are also taken of blocks the arena has poisoned although, by the property, they are still
 * live (after a leave of a scope that is not the innermost one): no ASan instrumentation, no memcpy */
NOASAN static uint64_t
cks(uint64_t h, const unsigned char *p, size_t n)
{
	size_t i = 0;

	for (; i + 8 <= n; i += 8) {
		uint64_t w = 0;
		int q;

		for (q = 0; q < 8; q++)
			w |= (uint64_t)p[i + q] << (8 * q);
		h = (h ^ w) * 0x9E3779B97F4A7C15ULL;
		h ^= h >> 29;
	}
	for (; i < n; i++) {
		h = (h ^ p[i]) * 0x100000001B3ULL;
	}
	return h;
}

/* frame index (oldest = 0), offset and frame size of a pointer */
NOASAN static int
locate(struct ar *A, const char *ptr, size_t *off, size_t *fsize)
{
	struct arena_frame *f;
	int n = 0, i = 0;

	for (f = A->a->frame; f != NULL; f = f->next)
		n++;
	for (f = A->a->frame; f != NULL; f = f->next, i++) {
		if (ptr >= f->ptr && ptr <= f->ptr + f->size) {
			*off = (size_t)(ptr - f->ptr);
			*fsize = f->size;
			return n - 1 - i;
		}
	}
	return -1;
}

NOASAN static void
print_shape(struct ar *A)
{
	struct arena_frame *f;
	int n = 0;

	if (A->gone) {
		printf(" | 0 0 0");
		return;
	}
	for (f = A->a->frame; f != NULL; f = f->next)
		n++;
	printf(" | %d %zu %d", n, A->a->frame != NULL ? A->a->frame->len : (size_t)0, A->a->refs);
}

/* checksums over every live block of both arenas: actual contents and shadow copies */
NOASAN static void
print_sums(void)
{
	uint64_t sa = 14695981039346656037ULL, ss = 14695981039346656037ULL;
	int ai, i;

	for (ai = 0; ai < 2; ai++) {
		struct ar *A = &ars[ai];

		if (A->a == NULL || A->gone)
			continue;
		for (i = 0; i < A->nblk; i++) {
			struct blk *b = &A->blks[i];

			if (!b->live || (b->obj != -1 && b->obj == cur_obj) || b->shadow == NULL)
				continue;
			sa = cks(sa ^ (uint64_t)i, (unsigned char *)b->ptr, b->size);
			ss = cks(ss ^ (uint64_t)i, b->shadow, b->size);
		}
	}
	if (lost_now > 0) {
		sa ^= 0x6c6f7374ULL + (uint64_t)lost_now;	/* "lost": contents gone with the frame */
		lost_now = 0;
	}
	printf(" | %016" PRIx64 " %016" PRIx64, sa, ss);
}

NOASAN static int
frame_len_is_zero(struct ar *A)
{
	return !A->gone && A->a->frame != NULL && A->a->frame->len == 0;
}

static void
snapshot(struct blk *b)
{
	free(b->shadow);
	b->shadow = NULL;
	if (b->size > NOSHADOW_ABOVE)
		return;
	b->shadow = malloc(b->size > 0 ? b->size : 1);
	if (b->shadow == NULL)
		die("malloc shadow");
	memcpy(b->shadow, b->ptr, b->size);
}

/* a pointer that lies in no frame of the arena: say so (with its residue modulo 16) and stop - nothing
 * can be read through it */
static void
check_wild(struct ar *A, const char *ptr)
{
	size_t off = 0, fsize = 0;

	if (ptr == NULL || A->gone || locate(A, ptr, &off, &fsize) >= 0)
		return;
	printf(" => p wild %u\n", (unsigned int)((uintptr_t)ptr & 15));
	fflush(stdout);
	_exit(96);
}

static int
new_handle(struct ar *A, char *ptr, size_t size, int level)
{
	struct blk *b;

	if (A->nblk >= MAXBLK)
		die("too many blocks");
	b = &A->blks[A->nblk];
	memset(b, 0, sizeof(*b));
	b->ptr = ptr;
	b->size = size;
	b->level = level;
	b->live = ptr != NULL;
	b->obj = cur_obj;
	if (ptr != NULL)
		snapshot(b);
	return A->nblk++;
}

static void
finish_ptr(struct ar *A, char *ptr, int prefix)
{
	size_t off = 0, fsize = 0;
	int fi;

	if (ptr == NULL) {
		printf(" => p null");
	} else {
		fi = locate(A, ptr, &off, &fsize);
		if (prefix >= 0)
			printf(" => p %d %zu %zu %d", fi, off, fsize, prefix);
		else
			printf(" => p %d %zu %zu", fi, off, fsize);
	}
	print_shape(A);
	print_sums();
	printf("\n");
	fflush(stdout);
}

static void
finish_unit(struct ar *A)
{
	printf(" => u");
	print_shape(A);
	print_sums();
	printf("\n");
	fflush(stdout);
}

static struct arena_scope *
scope_at(struct ar *A, int k)
{
	if (k < 0 || k >= A->depth)
		die("scope index");
	return &A->scopes[A->depth - 1 - k];
}

static int
scope_index(struct arena_scope *s, struct ar **Ap)
{
	int ai, j;

	for (ai = 0; ai < 2; ai++) {
		for (j = 0; j < ars[ai].depth; j++) {
			if (&ars[ai].scopes[j] == s) {
				*Ap = &ars[ai];
				return ars[ai].depth - 1 - j;
			}
		}
	}
	die("unknown scope");
	return -1;
}

static int
find_handle(struct ar *A, const char *ptr, size_t size)
{
	int i;

	for (i = A->nblk - 1; i >= 0; i--) {
		if (A->blks[i].live && A->blks[i].ptr == ptr && A->blks[i].size == size)
			return i;
	}
	for (i = A->nblk - 1; i >= 0; i--) {
		if (A->blks[i].live && A->blks[i].ptr == ptr)
			return i;
	}
	return -1;
}

/* ---- primitive operations (also reached from buffer/vector callbacks) ---- */

static void *
do_malloc(struct ar *A, int k, size_t size)
{
	char *p;

	printf("%d M %d %zu", (int)(A - ars), k, size);
	fflush(stdout);
	p = arena_malloc(scope_at(A, k), size);
	check_wild(A, p);
	new_handle(A, p, size, A->depth - k);
	finish_ptr(A, p, -1);
	return p;
}

static void *
do_calloc(struct ar *A, int k, size_t nmemb, size_t size)
{
	char *p;

	printf("%d C %d %zu %zu", (int)(A - ars), k, nmemb, size);
	fflush(stdout);
	p = arena_calloc(scope_at(A, k), nmemb, size);
	check_wild(A, p);
	new_handle(A, p, nmemb * size, A->depth - k);
	finish_ptr(A, p, -1);
	return p;
}

static void *
do_realloc(struct ar *A, int k, int h, size_t mis, size_t old, size_t new)
{
	struct blk *ob = h >= 0 ? &A->blks[h] : NULL;
	char *src = ob != NULL ? ob->ptr + mis : NULL;
	char *p;
	unsigned char *before = NULL;
	int prefix = 1;
	size_t n = old < new ? old : new;

	printf("%d R %d %d %zu %zu %zu", (int)(A - ars), k, h, mis, old, new);
	fflush(stdout);
	/* the common prefix as it is right before the call */
	if (ob != NULL && mis == 0) {
		if (n > ob->size)
			n = ob->size;
		if (n > NOSHADOW_ABOVE)
			n = NOSHADOW_ABOVE;
		before = malloc(n > 0 ? n : 1);
		if (before == NULL)
			die("malloc");
		memcpy(before, ob->ptr, n);
	}
	p = arena_realloc(scope_at(A, k), src, old, new);
	check_wild(A, p);
	if (p != NULL) {
		if (before != NULL) {
			prefix = memcmp(p, before, n) == 0;
			ob->live = 0;
		}
		new_handle(A, p, new, A->depth - k);
	} else {
		new_handle(A, NULL, 0, 0);
	}
	free(before);
	finish_ptr(A, p, p != NULL ? prefix : -1);
	return p;
}

void *
tr_arena_malloc(struct arena_scope *s, size_t size)
{
	struct ar *A;
	int k = scope_index(s, &A);

	return do_malloc(A, k, size);
}

void *
tr_arena_calloc(struct arena_scope *s, size_t nmemb, size_t size)
{
	struct ar *A;
	int k = scope_index(s, &A);

	return do_calloc(A, k, nmemb, size);
}

void *
tr_arena_realloc(struct arena_scope *s, void *ptr, size_t old, size_t new)
{
	struct ar *A;
	int k = scope_index(s, &A);
	int h = ptr != NULL ? find_handle(A, ptr, old) : -1;

	if (ptr != NULL && h < 0)
		die("realloc of an unknown pointer");
	return do_realloc(A, k, h, 0, old, new);
}

static void
cleanup_cb(void *arg)
{
	if (cl_n < MAXLOG)
		cl_log[cl_n++] = (uintptr_t)arg;
}

static size_t
unhex(const char *h, unsigned char *out, size_t max)
{
	size_t n = 0;

	if (strcmp(h, "-") == 0)
		return 0;
	while (h[0] != '\0' && h[1] != '\0' && n < max) {
		unsigned int v;

		sscanf(h, "%2x", &v);
		out[n++] = (unsigned char)v;
		h += 2;
	}
	return n;
}

static void
resnapshot_obj(int o)
{
	int ai, i;

	for (ai = 0; ai < 2; ai++) {
		for (i = 0; i < ars[ai].nblk; i++) {
			struct blk *b = &ars[ai].blks[i];

			if (b->live && b->obj == o)
				snapshot(b);
		}
	}
}

static void
kill_obj(int o)
{
	int ai, i;

	for (ai = 0; ai < 2; ai++) {
		for (i = 0; i < ars[ai].nblk; i++) {
			if (ars[ai].blks[i].obj == o)
				ars[ai].blks[i].live = 0;
		}
	}
}

static unsigned long long
num(char **tok, int *i, int n)
{
	if (*i >= n)
		die("missing argument");
	return strtoull(tok[(*i)++], NULL, 10);
}

static void
exec_op(char **tok, int n)
{
	static unsigned char data[(1 << 17) + 2];	/* strings of up to 128 KiB */
	struct ar *A;
	int i = 0, ai, k, j;
	const char *op;

	ai = (int)num(tok, &i, n);
	if (ai < 0 || ai > 1 || i >= n)
		die("bad arena");
	A = &ars[ai];
	op = tok[i++];
	if (A->a == NULL) {
		A->a = arena_alloc();
		memset(A->labels, 0xff, sizeof(A->labels));
	}

	if (strcmp(op, "E") == 0) {
		printf("%d E", ai);
		fflush(stdout);
		if (A->depth >= MAXSCOPE)
			die("too deep");
		A->scopes[A->depth] = arena_scope_enter(A->a);
		A->depth++;
		finish_unit(A);
	} else if (strcmp(op, "L") == 0) {
		struct arena_scope *s;
		int level, reset;

		k = (int)num(tok, &i, n);
		printf("%d L %d", ai, k);
		fflush(stdout);
		s = scope_at(A, k);
		level = A->depth - k;
		cl_n = 0;
		arena_scope_leave(s);
		for (j = A->depth - 1 - k; j < A->depth - 1; j++)
			A->scopes[j] = A->scopes[j + 1];
		A->depth--;
		if (A->free_called && A->depth == 0)
			A->gone = 1;
		for (j = 0; j < A->nblk; j++) {
			struct blk *b = &A->blks[j];
			size_t off, fsize;

			if (!b->live)
				continue;
			if (b->level == level || A->gone) {
				b->live = 0;
			} else if (b->level > level) {
				/* a scope nested in the one left, still open (k > 0): "leaving a
				 * scope invalidates only that scope's blocks" - the block stays live
				 * unless the leave has freed the frame it lies in */
				if (locate(A, b->ptr, &off, &fsize) < 0) {
					b->live = 0;
					lost_now++;
				} else {
					b->level--;
				}
			}
		}
		reset = frame_len_is_zero(A);
		printf(" => l %d %d", reset, cl_n);
		for (j = 0; j < cl_n; j++)
			printf(" %" PRIuPTR, cl_log[j]);
		print_shape(A);
		print_sums();
		printf("\n");
		fflush(stdout);
	} else if (strcmp(op, "M") == 0) {
		size_t size;
		int label;

		k = (int)num(tok, &i, n);
		size = num(tok, &i, n);
		label = (int)num(tok, &i, n);
		do_malloc(A, k, size);
		A->labels[label] = A->nblk - 1;
	} else if (strcmp(op, "C") == 0) {
		size_t nmemb, size;
		int label;

		k = (int)num(tok, &i, n);
		nmemb = num(tok, &i, n);
		size = num(tok, &i, n);
		label = (int)num(tok, &i, n);
		do_calloc(A, k, nmemb, size);
		A->labels[label] = A->nblk - 1;
	} else if (strcmp(op, "R") == 0) {
		size_t mis, old, new;
		long src;
		int label, h;

		k = (int)num(tok, &i, n);
		if (i >= n)
			die("missing argument");
		src = strtol(tok[i++], NULL, 10);
		mis = num(tok, &i, n);
		old = num(tok, &i, n);
		new = num(tok, &i, n);
		label = (int)num(tok, &i, n);
		h = src >= 0 ? A->labels[src] : -1;
		if (src >= 0 && h < 0)
			die("realloc: unknown label");
		do_realloc(A, k, h, mis, old, new);
		A->labels[label] = A->nblk - 1;
	} else if (strcmp(op, "S") == 0 || strcmp(op, "D") == 0 || strcmp(op, "P") == 0) {
		size_t len;
		char *p;
		int label;

		k = (int)num(tok, &i, n);
		if (i >= n)
			die("missing argument");
		len = unhex(tok[i], data, sizeof(data) - 1);
		data[len] = '\0';
		printf("%d %s %d %s", ai, op, k, tok[i]);
		i++;
		label = (int)num(tok, &i, n);
		fflush(stdout);
		if (op[0] == 'S') {
			p = arena_strndup(scope_at(A, k), (char *)data, len);
		} else if (op[0] == 'D') {
			p = arena_strdup(scope_at(A, k), (char *)data);
			len = strlen((char *)data);
		} else {
			len = strlen((char *)data);
			p = arena_sprintf(scope_at(A, k), "%s", (char *)data);
		}
		check_wild(A, p);
		new_handle(A, p, len + 1, A->depth - k);
		A->labels[label] = A->nblk - 1;
		finish_ptr(A, p, -1);
	} else if (strcmp(op, "U") == 0) {
		uintptr_t t;
		struct arena_scope *s;

		k = (int)num(tok, &i, n);
		t = (uintptr_t)num(tok, &i, n);
		printf("%d U %d %" PRIuPTR, ai, k, t);
		fflush(stdout);
		s = scope_at(A, k);
		arena_cleanup(s, cleanup_cb, (void *)t);
		check_wild(A, (char *)s->cleanup);
		finish_ptr(A, (char *)s->cleanup, -1);
	} else if (strcmp(op, "F") == 0) {
		size_t off, len;
		int label, v, h;
		struct blk *b;

		label = (int)num(tok, &i, n);
		off = num(tok, &i, n);
		len = num(tok, &i, n);
		v = (int)num(tok, &i, n);
		h = A->labels[label];
		if (h < 0)
			die("fill: unknown label");
		b = &A->blks[h];
		printf("%d F %d %zu %zu %d", ai, h, off, len, v);
		fflush(stdout);
		memset(b->ptr + off, v, len);
		if (b->live && b->shadow != NULL && off + len <= b->size)
			memset(b->shadow + off, v, len);
		finish_unit(A);
	} else if (strcmp(op, "G") == 0) {
		size_t off;
		int label, h;

		label = (int)num(tok, &i, n);
		off = num(tok, &i, n);
		h = A->labels[label];
		if (h < 0)
			die("get: unknown label");
		printf("%d G %d %zu", ai, h, off);
		fflush(stdout);
		printf(" => b %d", (int)(unsigned char)A->blks[h].ptr[off]);
		print_shape(A);
		print_sums();
		printf("\n");
		fflush(stdout);
	} else if (strcmp(op, "X") == 0) {
		printf("%d X", ai);
		fflush(stdout);
		arena_free(A->a);
		A->free_called = 1;
		if (A->depth == 0) {
			A->gone = 1;
			for (j = 0; j < A->nblk; j++)
				A->blks[j].live = 0;
		}
		finish_unit(A);
	} else if (strcmp(op, "BA") == 0) {
		size_t init;
		int o;

		k = (int)num(tok, &i, n);
		init = num(tok, &i, n);
		o = (int)num(tok, &i, n);
		if (o < 0 || o >= MAXOBJ)
			die("object id");
		printf("# %d BA %d begin %zu\n", ai, o, init);
		fflush(stdout);
		cur_obj = o;
		objs[o].kind = 1;
		objs[o].arena = ai;
		objs[o].expect = malloc(1 << 20);
		objs[o].expect_len = 0;
		objs[o].bf = arena_buffer_alloc(scope_at(A, k), init);
		resnapshot_obj(o);
		cur_obj = -1;
		printf("# %d BA %d => c %d\n", ai, o, objs[o].bf != NULL);
		fflush(stdout);
	} else if (strcmp(op, "BP") == 0) {
		size_t len;
		int o, ok;

		o = (int)num(tok, &i, n);
		if (i >= n)
			die("missing argument");
		len = unhex(tok[i++], data, sizeof(data));
		if (o < 0 || o >= MAXOBJ || objs[o].kind != 1)
			die("not a buffer");
		printf("# %d BP %d begin %zu\n", ai, o, len);
		fflush(stdout);
		cur_obj = o;
		buffer_puts(objs[o].bf, (char *)data, len);
		if (objs[o].expect_len + len <= (1 << 20)) {
			memcpy(objs[o].expect + objs[o].expect_len, data, len);
			objs[o].expect_len += len;
		}
		resnapshot_obj(o);
		cur_obj = -1;
		ok = buffer_get_len(objs[o].bf) == objs[o].expect_len &&
		    memcmp(buffer_get_ptr(objs[o].bf), objs[o].expect, objs[o].expect_len) == 0;
		printf("# %d BP %d => c %d\n", ai, o, ok);
		fflush(stdout);
	} else if (strcmp(op, "BF") == 0) {
		int o = (int)num(tok, &i, n);

		if (o < 0 || o >= MAXOBJ || objs[o].kind != 1)
			die("not a buffer");
		buffer_free(objs[o].bf);
		kill_obj(o);
		objs[o].kind = 0;
		printf("# %d BF %d => c 1\n", ai, o);
		fflush(stdout);
	} else if (strcmp(op, "VI") == 0) {
		size_t stride, cnt;
		int o;

		k = (int)num(tok, &i, n);
		stride = num(tok, &i, n);
		cnt = num(tok, &i, n);
		o = (int)num(tok, &i, n);
		if (o < 0 || o >= MAXOBJ)
			die("object id");
		printf("# %d VI %d begin %zu %zu\n", ai, o, stride, cnt);
		fflush(stdout);
		cur_obj = o;
		objs[o].kind = 2;
		objs[o].arena = ai;
		objs[o].stride = stride;
		objs[o].nelem = 0;
		objs[o].vc = NULL;
		arena_vector_init(scope_at(A, k), (void **)&objs[o].vc, stride, cnt);
		resnapshot_obj(o);
		cur_obj = -1;
		printf("# %d VI %d => c %d\n", ai, o, objs[o].vc != NULL);
		fflush(stdout);
	} else if (strcmp(op, "VA") == 0) {
		size_t cnt, e, q;
		int o, ok = 1;

		o = (int)num(tok, &i, n);
		cnt = num(tok, &i, n);
		if (o < 0 || o >= MAXOBJ || objs[o].kind != 2)
			die("not a vector");
		printf("# %d VA %d begin %zu\n", ai, o, cnt);
		fflush(stdout);
		cur_obj = o;
		for (e = 0; e < cnt; e++) {
			size_t idx = vector_alloc((void **)&objs[o].vc, 0);
			unsigned char *el;

			if (idx == ULONG_MAX)
				die("vector_alloc");
			el = (unsigned char *)objs[o].vc + idx * objs[o].stride;
			memset(el, (int)((objs[o].nelem * 7 + 3) & 0xff), objs[o].stride);
			objs[o].nelem++;
		}
		resnapshot_obj(o);
		cur_obj = -1;
		if (vector_length(objs[o].vc) != objs[o].nelem)
			ok = 0;
		for (e = 0; ok && e < objs[o].nelem; e++) {
			unsigned char *el = (unsigned char *)objs[o].vc + e * objs[o].stride;

			for (q = 0; q < objs[o].stride; q++) {
				if (el[q] != (unsigned char)((e * 7 + 3) & 0xff))
					ok = 0;
			}
		}
		printf("# %d VA %d => c %d\n", ai, o, ok);
		fflush(stdout);
	} else if (strcmp(op, "VR") == 0) {
		/* vector_reserve(vv, n): with room left but not enough, vector.c names
		 * sizeof(struct vector) + len * stride, less than the block's size */
		size_t cnt, e, q;
		int o, ok = 1;

		o = (int)num(tok, &i, n);
		cnt = num(tok, &i, n);
		if (o < 0 || o >= MAXOBJ || objs[o].kind != 2)
			die("not a vector");
		printf("# %d VR %d begin %zu\n", ai, o, cnt);
		fflush(stdout);
		cur_obj = o;
		if (vector_reserve((void **)&objs[o].vc, cnt))
			die("vector_reserve");
		resnapshot_obj(o);
		cur_obj = -1;
		if (vector_length(objs[o].vc) != objs[o].nelem)
			ok = 0;
		for (e = 0; ok && e < objs[o].nelem; e++) {
			unsigned char *el = (unsigned char *)objs[o].vc + e * objs[o].stride;

			for (q = 0; q < objs[o].stride; q++) {
				if (el[q] != (unsigned char)((e * 7 + 3) & 0xff))
					ok = 0;
			}
		}
		printf("# %d VR %d => c %d\n", ai, o, ok);
		fflush(stdout);
	} else if (strcmp(op, "VF") == 0) {
		int o = (int)num(tok, &i, n);

		if (o < 0 || o >= MAXOBJ || objs[o].kind != 2)
			die("not a vector");
		vector_free((void **)&objs[o].vc);
		kill_obj(o);
		objs[o].kind = 0;
		printf("# %d VF %d => c 1\n", ai, o);
		fflush(stdout);
	} else {
		die("unknown operation");
	}
}

static void
run_sequence(char *line)
{
	char *save1 = NULL, *opstr;

	for (opstr = strtok_r(line, ";", &save1); opstr != NULL; opstr = strtok_r(NULL, ";", &save1)) {
		char *tok[16];
		char *save2 = NULL, *t;
		int n = 0;

		for (t = strtok_r(opstr, " \t\r\n", &save2); t != NULL && n < 16; t = strtok_r(NULL, " \t\r\n", &save2))
			tok[n++] = t;
		if (n == 0)
			continue;
		exec_op(tok, n);
	}
}

int
main(void)
{
	char *line = NULL;
	size_t cap = 0;

	while (getline(&line, &cap, stdin) != -1) {
		pid_t pid;
		int st;

		printf("BEGIN\n");
		fflush(stdout);
		pid = fork();
		if (pid == -1) {
			perror("fork");
			return 1;
		}
		if (pid == 0) {
			/* keep the diagnostics of arena_scope_validate / err out of the way */
			if (freopen("/dev/null", "w", stderr) == NULL)
				_exit(98);
			alarm(60);	/* a corrupted frame list must not hang the run */
			run_sequence(line);
			fflush(stdout);
			_exit(0);
		}
		if (waitpid(pid, &st, 0) == -1) {
			perror("waitpid");
			return 1;
		}
		if (WIFSIGNALED(st))
			printf("\nEND signal %d\n", WTERMSIG(st));
		else if (WEXITSTATUS(st) == 0)
			printf("END done\n");
		else
			printf("\nEND exit %d\n", WEXITSTATUS(st));
		fflush(stdout);
	}
	free(line);
	return 0;
}
