/* C12 libFuzzer target: the report generator (report.c report_generate, as robsd-report calls it) on a build
 * directory whose step file, logs, comment and tags are the fuzzer's input.
 * The directory is real (report.c reads it by path): it lives under $C12_FUZZ_ROOT, a directory inside the
 * scratch directory of the run that harness/c12_fuzz.py prepares for each process:
 *     $C12_FUZZ_ROOT/conf-<mode>            one accepted configuration per mode (robsddir = $C12_FUZZ_ROOT)
 *     $C12_FUZZ_ROOT/.running               names the build directory
 *     $C12_FUZZ_ROOT/2024-01-02.1/          the build directory: step.csv, 001-env.log = 002-cvs.log =
 *                                           003-kernel.log (hard links), comment, tags, tmp/
 *     $C12_FUZZ_ROOT/2024-01-01.1/          an earlier invocation (step.csv fixed) for the delta columns
 * Input: <mode> <step.csv> SEP <log> SEP <comment> SEP <tags>
 * The configuration is read again for every input (config_interpolate_str allocates from the
 * configuration's eternal arena). */
#include "config.h"

#include "c12_fuzz_common.h"

#include <limits.h>

#include "libks/arena.h"
#include "libks/buffer.h"

#include "conf.h"
#include "log.h"
#include "report.h"

static struct arena *eternal, *scratch;
static char root[PATH_MAX / 2];
static char builddir[PATH_MAX];
static char p_steps[PATH_MAX], p_log[PATH_MAX], p_comment[PATH_MAX], p_tags[PATH_MAX];

int LLVMFuzzerInitialize(int *, char ***);
int LLVMFuzzerTestOneInput(const uint8_t *, size_t);

int
LLVMFuzzerInitialize(int *argc, char ***argv)
{
	const char *r = getenv("C12_FUZZ_ROOT");

	(void)argc;
	(void)argv;
	if (r == NULL || strlen(r) >= sizeof(root)) {
		fprintf(stderr, "c12_fuzz_report: C12_FUZZ_ROOT is not set\n");
		exit(2);
	}
	strcpy(root, r);
	snprintf(builddir, sizeof(builddir), "%s/2024-01-02.1", root);
	snprintf(p_steps, sizeof(p_steps), "%s/step.csv", builddir);
	snprintf(p_log, sizeof(p_log), "%s/001-env.log", builddir);
	snprintf(p_comment, sizeof(p_comment), "%s/comment", builddir);
	snprintf(p_tags, sizeof(p_tags), "%s/tags", builddir);
	log_disable();
	eternal = arena_alloc();
	scratch = arena_alloc();
	return 0;
}

int
LLVMFuzzerTestOneInput(const uint8_t *data, size_t size)
{
	struct c12_part parts[4];
	char conf[PATH_MAX];
	struct config *config;
	struct buffer *bf;
	const char *mode;

	if (size < 1)
		return 0;
	mode = c12_modes[data[0] % 5];
	c12_split(data + 1, size - 1, parts, 4);
	c12_write_path(p_steps, &parts[0]);
	c12_write_path(p_log, &parts[1]);
	c12_write_path(p_comment, &parts[2]);
	c12_write_path(p_tags, &parts[3]);
	snprintf(conf, sizeof(conf), "%s/conf-%s", root, mode);

	arena_scope(eternal, es);

	config = config_alloc(mode, conf, &es, scratch);
	if (config == NULL)
		__builtin_trap();
	if (config_parse(config))
		__builtin_trap();	/* the prepared configuration is an accepted one */
	bf = buffer_alloc(1 << 14);
	if (bf == NULL)
		abort();
	if (report_generate(config, builddir, bf) == 0)
		buffer_putc(bf, '\0');
	buffer_free(bf);
	config_free(config);
	return 0;
}
