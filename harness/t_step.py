"""Translator: step.c field table and the strtonum bounds -> Gen_Step.v"""
import os, re

CMAX = {'INT_MAX': 2147483647, 'INT_MIN': -2147483648, 'LONG_MAX': 9223372036854775807, 'LONG_MIN': -9223372036854775808, 'LLONG_MAX': 9223372036854775807, 'LLONG_MIN': -9223372036854775808}


def cval(tok):
    tok = tok.strip()
    neg = tok.startswith('-')
    if neg:
        tok = tok[1:].strip()
    v = CMAX[tok] if tok in CMAX else int(tok)
    return -v if neg else v


def coq_bytes(s):
    return '[' + '; '.join(str(b) for b in s.encode()) + ']%N'


def generate(repo):
    src = open(os.path.join(repo, 'step.c')).read()
    m = re.search(r'static const struct field_definition fields\[\] = \{(.*?)\n\};', src, re.S)
    if not m:
        raise RuntimeError('step.c: fields[] table not found')
    rows = re.findall(r'\{\s*"([^"]*)",\s*(INTEGER|STRING),\s*(\d+),\s*(0|OPTIONAL),\s*\{\s*(0|"[^"]*")\s*\}\s*\}', m.group(1))
    nlines = len([l for l in m.group(1).splitlines() if l.strip()])
    if len(rows) != nlines or not rows:
        raise RuntimeError('step.c: fields[] has %d lines but %d were understood' % (nlines, len(rows)))
    defs = []
    for name, ty, idx, fl, dflt in rows:
        d = dflt[1:-1] if dflt.startswith('"') else ''
        if fl == 'OPTIONAL' and not dflt.startswith('"'):
            raise RuntimeError('step.c: optional field %s without default' % name)
        defs.append('  mkfdef %s %s %s %s %s' % (coq_bytes(name), 'FInt' if ty == 'INTEGER' else 'FStr', idx,
                                                'true' if fl == 'OPTIONAL' else 'false', coq_bytes(d)))
    m2 = re.search(r'v = strtonum\(val, (\w+), (\w+), &errstr\);', src)
    if not m2:
        raise RuntimeError('step.c: integer field bounds not found')
    rs = open(os.path.join(repo, 'robsd-step.c')).read()
    m3 = re.search(r'rv = strtonum\(str, (-?\w+), (\w+), &errstr\);', rs)
    if not m3:
        raise RuntimeError('robsd-step.c: parse_id bounds not found')
    if not re.search(r'strpbrk\(val, ",\\n\$"\)', src):
        rejected = ''
    else:
        rejected = ',\n$'
    rej = '[' + '; '.join(str(b) for b in rejected.encode()) + ']%N'
    empty_req = 'true' if re.search(r"val\[0\] == '\\0' && \(fd->fd_flags & OPTIONAL\) == 0", src) else 'false'
    close_checked = 'true' if re.search(r'fclose\(fh\) == EOF', src) else 'false'
    # the fwrite call of steps_write and the test of its result
    mw = re.search(r'int\s+steps_write\(.*?\n\{(.*?)\n\}', src, re.S)
    if not mw:
        raise RuntimeError('step.c: steps_write not found')
    wbody = mw.group(1)
    calls = re.findall(r'(\w+)\s*=\s*fwrite\(([^;]*)\);', wbody)
    if len(calls) != 1 or len(re.findall(r'\bfwrite\(', wbody)) != 1:
        raise RuntimeError('step.c: steps_write: expected exactly one assigned fwrite call')
    var, fargs = calls[0]
    fargs = [a.strip() for a in re.sub(r'\s+', ' ', fargs).split(',')]
    if len(fargs) != 4:
        raise RuntimeError('step.c: steps_write: fwrite arguments not understood: %r' % (fargs,))
    tested = re.search(r'if \(%s < 1\)\s*\{[^}]*error = 1;' % re.escape(var), wbody) or \
        re.search(r'if \(%s != 1\)\s*\{[^}]*error = 1;' % re.escape(var), wbody) or \
        re.search(r'if \(%s == 0\)\s*\{[^}]*error = 1;' % re.escape(var), wbody)
    if not tested:
        fwrite_check = 'Unchecked'
    elif fargs[2] == '1' and 'buffer_get_len' in fargs[1]:
        fwrite_check = 'WholeObject'
    elif fargs[1] == '1' and 'buffer_get_len' in fargs[2]:
        fwrite_check = 'ByteCount'
    else:
        raise RuntimeError('step.c: steps_write: fwrite size/count arguments not understood: %r' % (fargs,))
    # action_write: is the id column compared with -i after the key=value loop (17c91c8), before steps_write?
    ma = re.search(r'^action_write\(.*?\n\{\n(.*?)^\}\n', rs, re.M | re.S)
    if not ma:
        raise RuntimeError('robsd-step.c: action_write not found')
    abody = re.sub(r'/\*.*?\*/', '', ma.group(1), flags=re.S)
    mloop = re.search(r'for \(; argc > 0; argc--, argv\+\+\) \{\s*if \(step_set_keyval\(c->step_file, st, \*argv, c->scratch\)\)\s*return ACTION_ERROR_FATAL;\s*\}'
                      r'(.*?)return steps_write\(', abody, re.S)
    if not mloop:
        raise RuntimeError('robsd-step.c: action_write: key=value loop followed by steps_write not found')
    between = mloop.group(1).strip()
    if between == '':
        step_key_checked = 'false'
    elif re.fullmatch(r'if \(step_get_field\(st, "step"\)->integer != id\) \{\s*warnx\([^;]*\);\s*return ACTION_ERROR_FATAL;\s*\}', between):
        step_key_checked = 'true'
    else:
        raise RuntimeError('robsd-step.c: action_write: statements between the key=value loop and steps_write not understood: %r' % between[:200])
    out = ['(* generated from step.c / robsd-step.c by harness/t_step.py - do not edit *)',
           'From Robsd Require Import Step.StepTypes.',
           'From Coq Require Import ZArith.',
           'Definition fields : list fdef := [', ';\n'.join(defs), '].',
           'Definition int_min : Z := (%d)%%Z.' % cval(m2.group(1)),
           'Definition int_max : Z := (%d)%%Z.' % cval(m2.group(2)),
           'Definition id_min : Z := (%d)%%Z.' % cval(m3.group(1)),
           'Definition id_max : Z := (%d)%%Z.' % cval(m3.group(2)),
           '(* bytes step_set_keyval refuses in string values; whether it refuses empty mandatory strings *)',
           'Definition rejected_bytes : list N := %s.' % rej,
           'Definition reject_empty_required : bool := %s.' % empty_req,
           '(* whether steps_write checks the result of fclose *)',
           'Definition close_checked : bool := %s.' % close_checked,
           '(* whether action_write refuses a step=... argument that changes the id given by -i *)',
           'Definition step_key_checked : bool := %s.' % step_key_checked, '']
    io = ['(* generated from step.c by harness/t_step.py - do not edit *)',
          'From Robsd Require Import Step.StepIOTypes.',
          '(* how steps_write tests the result of fwrite *)',
          'Definition fwrite_check : wcheck := %s.' % fwrite_check, '']
    return {'Gen_Step.v': '\n'.join(out), 'Gen_StepIO.v': '\n'.join(io)}
