"""Translator: step.c field table and the strtonum bounds -> Gen_Step.v"""
import os, re

CMAX = {'INT_MAX': 2147483647, 'INT_MIN': -2147483648, 'LONG_MAX': 9223372036854775807, 'LONG_MIN': -9223372036854775808, 'LLONG_MAX': 9223372036854775807, 'LLONG_MIN': -9223372036854775808}


def cval(tok):
    tok = tok.strip()
    neg = tok.startswith('-')
    if neg:
        tok = tok[1:].strip()
    v = CMAX[tok] if tok in CMAX else int(tok)
    return -v if neg else v


def coq_bytes(s):
    return '[' + '; '.join(str(b) for b in s.encode()) + ']%N'


def strip_c(text):
    """comments removed; `#ifdef ROBSD_VERIF ... #endif` blocks (verif points only) removed; any other preprocessor line raises"""
    text = re.sub(r'/\*.*?\*/', '', text, flags=re.S)
    text = re.sub(r'^#ifdef ROBSD_VERIF\n(?:(?!#).*\n)*?#endif\n', '', text, flags=re.M)
    return text


def func_body(src, name):
    m = re.search(r'^%s\(.*?\n\{\n(.*?)^\}\n' % re.escape(name), src, re.M | re.S)
    if not m:
        raise RuntimeError('step.c: function %s not found' % name)
    body = strip_c(m.group(1))
    if re.search(r'^\s*#', body, re.M):
        raise RuntimeError('step.c: %s: preprocessor conditional other than the ROBSD_VERIF points' % name)
    return body


def norm_ws(t):
    return re.sub(r'\s+', ' ', t).strip()


def c_unescape(lit):
    out, i = [], 0
    esc = {'n': '\n', 't': '\t', 'r': '\r', '\\': '\\', '"': '"', "'": "'", '0': '\0', 'v': '\v', 'f': '\f', 'a': '\a', 'b': '\b'}
    while i < len(lit):
        if lit[i] == '\\':
            if i + 1 >= len(lit) or lit[i + 1] not in esc:
                raise RuntimeError('step.c: escape sequence not understood in "%s"' % lit)
            out.append(esc[lit[i + 1]])
            i += 2
        else:
            out.append(lit[i])
            i += 1
    return ''.join(out)


def generate(repo):
    src = open(os.path.join(repo, 'step.c')).read()
    m = re.search(r'static const struct field_definition fields\[\] = \{(.*?)\n\};', src, re.S)
    if not m:
        raise RuntimeError('step.c: fields[] table not found')
    rows = re.findall(r'\{\s*"([^"]*)",\s*(INTEGER|STRING),\s*(\d+),\s*(0|OPTIONAL),\s*\{\s*(0|"[^"]*")\s*\}\s*\}', m.group(1))
    nlines = len([l for l in m.group(1).splitlines() if l.strip()])
    if len(rows) != nlines or not rows:
        raise RuntimeError('step.c: fields[] has %d lines but %d were understood' % (nlines, len(rows)))
    defs = []
    for name, ty, idx, fl, dflt in rows:
        d = dflt[1:-1] if dflt.startswith('"') else ''
        if fl == 'OPTIONAL' and not dflt.startswith('"'):
            raise RuntimeError('step.c: optional field %s without default' % name)
        defs.append('  mkfdef %s %s %s %s %s' % (coq_bytes(name), 'FInt' if ty == 'INTEGER' else 'FStr', idx,
                                                'true' if fl == 'OPTIONAL' else 'false', coq_bytes(d)))
    m2 = re.search(r'v = strtonum\(val, (\w+), (\w+), &errstr\);', src)
    if not m2:
        raise RuntimeError('step.c: integer field bounds not found')
    rs = open(os.path.join(repo, 'robsd-step.c')).read()
    m3 = re.search(r'rv = strtonum\(str, (-?\w+), (\w+), &errstr\);', rs)
    if not m3:
        raise RuntimeError('robsd-step.c: parse_id bounds not found')
    # --- step_set_keyval: the write-time value check (bda6bfa).  STRUCTURAL: the statements between `val++;` and the
    # call of step_set_field must be nothing (no check: switches off) or exactly
    #     fd = field_definition_find_by_name(key);
    #     if (fd != NULL && fd->fd_type == STRING && (<alternatives joined by ||>)) { warnx(...); return 1; }
    # whose alternatives are `strpbrk(val, "<chars>") != NULL` and `(val[0] == '\0' && (fd->fd_flags & OPTIONAL) == 0)`.
    # The switches are read from the alternatives of THAT guarded `return 1`: keeping the token but dropping the effect
    # (return 0, an empty block, `&& 0`, the test moved after step_set_field) matches neither form and raises.
    kv = func_body(src, 'step_set_keyval')
    mk = re.search(r"val\+\+;(.*?)if \(step_set_field\(sf, st, key, val\)\) \{\s*warnx\([^;]*\);\s*error = 1;\s*\}\s*return error;\s*$", kv, re.S)
    if not mk:
        raise RuntimeError('step.c: step_set_keyval: `val++;` ... `if (step_set_field(...)) { warnx; error = 1; } return error;` not found')
    check = norm_ws(mk.group(1))
    rejected, empty_req = '', 'false'
    if check != '':
        mc = re.fullmatch(r'fd = field_definition_find_by_name\(key\); if \(fd != NULL && fd->fd_type == STRING && \((.*)\)\) \{ '
                          r'warnx\([^;{}]*\); return 1; \}', check)
        if not mc:
            raise RuntimeError('step.c: step_set_keyval: value check not understood (expected one guarded `return 1;`): %r' % check[:300])
        alts = [a.strip() for a in mc.group(1).split(' || ')]
        seen = set()
        for a in alts:
            ms = re.fullmatch(r'strpbrk\(val, "((?:[^"\\]|\\.)*)"\) != NULL', a)
            if ms and 'strpbrk' not in seen:
                seen.add('strpbrk')
                rejected = c_unescape(ms.group(1))
            elif a == r"(val[0] == '\0' && (fd->fd_flags & OPTIONAL) == 0)" and 'empty' not in seen:
                seen.add('empty')
                empty_req = 'true'
            else:
                raise RuntimeError('step.c: step_set_keyval: alternative of the value check not understood: %r' % a)
    rej = '[' + '; '.join(str(b) for b in rejected.encode('latin-1')) + ']%N'
    # --- steps_write: the result of fclose (33c7519).  STRUCTURAL: between the label `out:` and `buffer_free(bf); return error;`
    # (verif points removed) there must be exactly `if (fh != NULL) fclose(fh);` (unchecked) or
    # `if (fh != NULL && fclose(fh) == EOF && !error) { warn(...); error = 1; }` (checked: the guarded statement is `error = 1`).
    sw = func_body(src, 'steps_write')
    mo = re.search(r'\bout:(.*?)buffer_free\(bf\);\s*return error;\s*$', sw, re.S)
    if not mo:
        raise RuntimeError('step.c: steps_write: `out:` ... `buffer_free(bf); return error;` not found')
    tail = norm_ws(mo.group(1))
    if tail == 'if (fh != NULL) fclose(fh);':
        close_checked = 'false'
    elif re.fullmatch(r'if \(fh != NULL && fclose\(fh\) == EOF && !error\) \{ warn\([^;{}]*\); error = 1; \}', tail):
        close_checked = 'true'
    else:
        raise RuntimeError('step.c: steps_write: statements after `out:` not understood: %r' % tail[:300])
    if len(re.findall(r'\bfclose\(', sw)) != 1 or len(re.findall(r'\berror = 0\b', sw)) != 1:
        raise RuntimeError('step.c: steps_write: expected one fclose call and no reset of `error` besides its initialiser')
    # the fwrite call of steps_write and the test of its result
    wbody = sw
    calls = re.findall(r'(\w+)\s*=\s*fwrite\(([^;]*)\);', wbody)
    if len(calls) != 1 or len(re.findall(r'\bfwrite\(', wbody)) != 1:
        raise RuntimeError('step.c: steps_write: expected exactly one assigned fwrite call')
    var, fargs = calls[0]
    fargs = [a.strip() for a in re.sub(r'\s+', ' ', fargs).split(',')]
    if len(fargs) != 4:
        raise RuntimeError('step.c: steps_write: fwrite arguments not understood: %r' % (fargs,))
    tested = re.search(r'if \(%s < 1\)\s*\{[^}]*error = 1;' % re.escape(var), wbody) or \
        re.search(r'if \(%s != 1\)\s*\{[^}]*error = 1;' % re.escape(var), wbody) or \
        re.search(r'if \(%s == 0\)\s*\{[^}]*error = 1;' % re.escape(var), wbody)
    if not tested:
        fwrite_check = 'Unchecked'
    elif fargs[2] == '1' and 'buffer_get_len' in fargs[1]:
        fwrite_check = 'WholeObject'
    elif fargs[1] == '1' and 'buffer_get_len' in fargs[2]:
        fwrite_check = 'ByteCount'
    else:
        raise RuntimeError('step.c: steps_write: fwrite size/count arguments not understood: %r' % (fargs,))
    # action_write: is the id column compared with -i after the key=value loop (17c91c8), before steps_write?
    ma = re.search(r'^action_write\(.*?\n\{\n(.*?)^\}\n', rs, re.M | re.S)
    if not ma:
        raise RuntimeError('robsd-step.c: action_write not found')
    abody = re.sub(r'/\*.*?\*/', '', ma.group(1), flags=re.S)
    mloop = re.search(r'for \(; argc > 0; argc--, argv\+\+\) \{\s*if \(step_set_keyval\(c->step_file, st, \*argv, c->scratch\)\)\s*return ACTION_ERROR_FATAL;\s*\}'
                      r'(.*?)return steps_write\(', abody, re.S)
    if not mloop:
        raise RuntimeError('robsd-step.c: action_write: key=value loop followed by steps_write not found')
    between = mloop.group(1).strip()
    if between == '':
        step_key_checked = 'false'
    elif re.fullmatch(r'if \(step_get_field\(st, "step"\)->integer != id\) \{\s*warnx\([^;]*\);\s*return ACTION_ERROR_FATAL;\s*\}', between):
        step_key_checked = 'true'
    else:
        raise RuntimeError('robsd-step.c: action_write: statements between the key=value loop and steps_write not understood: %r' % between[:200])
    out = ['(* generated from step.c / robsd-step.c by harness/t_step.py - do not edit *)',
           'From Robsd Require Import Step.StepTypes.',
           'From Coq Require Import ZArith.',
           'Definition fields : list fdef := [', ';\n'.join(defs), '].',
           'Definition int_min : Z := (%d)%%Z.' % cval(m2.group(1)),
           'Definition int_max : Z := (%d)%%Z.' % cval(m2.group(2)),
           'Definition id_min : Z := (%d)%%Z.' % cval(m3.group(1)),
           'Definition id_max : Z := (%d)%%Z.' % cval(m3.group(2)),
           '(* bytes step_set_keyval refuses in string values; whether it refuses empty mandatory strings *)',
           'Definition rejected_bytes : list N := %s.' % rej,
           'Definition reject_empty_required : bool := %s.' % empty_req,
           '(* whether steps_write checks the result of fclose *)',
           'Definition close_checked : bool := %s.' % close_checked,
           '(* whether action_write refuses a step=... argument that changes the id given by -i *)',
           'Definition step_key_checked : bool := %s.' % step_key_checked, '']
    io = ['(* generated from step.c by harness/t_step.py - do not edit *)',
          'From Robsd Require Import Step.StepIOTypes.',
          '(* how steps_write tests the result of fwrite *)',
          'Definition fwrite_check : wcheck := %s.' % fwrite_check, '']
    return {'Gen_Step.v': '\n'.join(out), 'Gen_StepIO.v': '\n'.join(io)}
