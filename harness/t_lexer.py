"""Translator: lexer.c -> Gen_Lexer.v (the two guards that keep the input offset inside the buffer)."""
import os, re


def generate(repo):
    src = open(os.path.join(repo, 'lexer.c')).read()
    m = re.search(r'int\s+lexer_getc\(struct lexer \*lx, char \*ch\)\s*\{(.*?)\n\}', src, re.S)
    u = re.search(r'void\s+lexer_ungetc\(struct lexer \*lx, char ch\)\s*\{(.*?)\n\}', src, re.S)
    if not m or not u:
        raise RuntimeError('lexer.c: lexer_getc / lexer_ungetc not found')
    g, ub = m.group(1), u.group(1)
    end_checked = bool(re.search(r'if \(lx->lx_input\.off == lx->lx_input\.len\) \{', g)) and \
        bool(re.search(r'c = lx->lx_input\.buf\[lx->lx_input\.off\+\+\];', g))
    if not re.search(r'lx->lx_input\.off\+\+', g):
        raise RuntimeError('lexer.c: lexer_getc no longer advances lx_input.off by one')
    zero_checked = bool(re.search(r'if \(lx->lx_input\.off > 0\)\s*lx->lx_input\.off--;', ub))
    eof_checked = bool(re.search(r'if \(lx->lx_eof > 0\)\s*return;', ub))
    if not re.search(r'lx->lx_input\.off--', ub):
        raise RuntimeError('lexer.c: lexer_ungetc no longer steps lx_input.off back by one')
    b = lambda x: 'true' if x else 'false'
    return {'Gen_Lexer.v': '(* generated from lexer.c by harness/t_lexer.py - do not edit *)\n'
                           'Definition getc_checks_end : bool := %s.\n'
                           'Definition ungetc_checks_zero : bool := %s.\n'
                           'Definition ungetc_checks_eof : bool := %s.\n' % (b(end_checked), b(zero_checked), b(eof_checked))}
