/* C12 libFuzzer target: interpolate.c - interpolate_str, interpolate_buffer and interpolate_file.
 * Input: <ctl> <template> (SEP <name>=<value>)*
 *   ctl bit 0: INTERPOLATE_IGNORE_LOOKUP_ERRORS
 * The template is handed over once as a string (interpolate_str, into a pre-filled buffer through
 * interpolate_buffer) and once as a file (interpolate_file, line by line with a line number). */
#include "config.h"

#include "c12_fuzz_common.h"

#include "libks/arena-buffer.h"
#include "libks/arena.h"
#include "libks/buffer.h"

#include "interpolate.h"
#include "log.h"

struct kv {
	char	*k;
	char	*v;
};

struct env {
	struct kv	kv[C12_MAXPARTS];
	int		n;
};

static struct arena *eternal, *scratch;

int LLVMFuzzerInitialize(int *, char ***);
int LLVMFuzzerTestOneInput(const uint8_t *, size_t);

static const char *
lookup(const char *name, struct arena_scope *s, void *arg)
{
	const struct env *e = arg;

	for (int i = 0; i < e->n; i++) {
		if (strcmp(e->kv[i].k, name) == 0)
			return arena_strdup(s, e->kv[i].v);
	}
	return NULL;
}

int
LLVMFuzzerInitialize(int *argc, char ***argv)
{
	(void)argc;
	(void)argv;
	log_disable();
	eternal = arena_alloc();
	scratch = arena_alloc();
	return 0;
}

int
LLVMFuzzerTestOneInput(const uint8_t *data, size_t size)
{
	struct c12_part parts[C12_MAXPARTS];
	struct env e = {0};
	struct c12_file f;
	unsigned int flags = 0;
	char *tmpl;
	int n;

	if (size < 1)
		return 0;
	if (data[0] & 1)
		flags |= INTERPOLATE_IGNORE_LOOKUP_ERRORS;
	n = c12_split(data + 1, size - 1, parts, C12_MAXPARTS);
	for (int i = 1; i < n; i++) {
		char *k = c12_cstr(&parts[i]);
		char *eq = strchr(k, '=');

		if (eq == NULL) {
			free(k);
			continue;
		}
		*eq = '\0';
		e.kv[e.n].k = k;
		e.kv[e.n].v = eq + 1;
		e.n++;
	}
	tmpl = c12_cstr(&parts[0]);

	{
		arena_scope(eternal, es);
		struct interpolate_arg arg = {
			.lookup		= lookup,
			.arg		= &e,
			.eternal	= &es,
			.scratch	= scratch,
			.flags		= flags,
		};
		struct buffer *bf;
		const char *str;

		str = interpolate_str(tmpl, &arg);
		if (str != NULL && (flags & INTERPOLATE_IGNORE_LOOKUP_ERRORS) == 0 &&
		    e.n == 0 && strchr(str, '$') != NULL)
			__builtin_trap();	/* without variables an accepted template holds no reference */

		bf = arena_buffer_alloc(&es, 8);
		buffer_puts(bf, "prefix:", 7);
		arg.path = "template";
		arg.lno = 7;
		(void)interpolate_buffer(tmpl, bf, &arg);
	}
	{
		arena_scope(eternal, es);
		struct interpolate_arg arg = {
			.lookup		= lookup,
			.arg		= &e,
			.eternal	= &es,
			.scratch	= scratch,
			.flags		= flags,
		};

		c12_file_open(&f, &parts[0]);
		(void)interpolate_file(f.path, &arg);
		c12_file_close(&f);
	}

	for (int i = 0; i < e.n; i++)
		free(e.kv[i].k);
	free(tmpl);
	return 0;
}
