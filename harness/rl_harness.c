/* In-process harness for regress-log.c (C13): the three library entry points
 * with every flag combination, REGRESS_LOG_NEWLINE and a pre-filled output
 * buffer included - what the command line cannot reach.  Linked against the
 * objects of the scratch build.  stdin, one case per line:
 *     peek  <flags> <path>
 *     parse <flags> <path> <hex of the bytes already in out | ->
 *     trim  <path> <hex of the bytes already in out | ->
 * stdout: "<rv> <hex of out | ->"  (peek: "<rv> -"). */
#include <stdio.h>
#include <stdlib.h>
#include <string.h>

#include "libks/buffer.h"
#include "regress-log.h"

static void
puthex(const struct buffer *bf)
{
	const char *p = buffer_get_ptr(bf);
	size_t n = buffer_get_len(bf);

	if (n == 0)
		printf("-");
	for (size_t i = 0; i < n; i++)
		printf("%02x", (unsigned char)p[i]);
}

static void
prefill(struct buffer *bf, const char *h)
{
	if (strcmp(h, "-") == 0)
		return;
	for (; h[0] != '\0' && h[1] != '\0'; h += 2) {
		unsigned int b;

		sscanf(h, "%2x", &b);
		buffer_putc(bf, (char)b);
	}
}

int
main(void)
{
	char *line = NULL;
	size_t cap = 0;

	while (getline(&line, &cap, stdin) > 0) {
		char *save, *op, *a, *b, *c;
		struct buffer *bf = buffer_alloc(64);

		line[strcspn(line, "\n")] = 0;
		op = strtok_r(line, " ", &save);
		a = strtok_r(NULL, " ", &save);
		b = strtok_r(NULL, " ", &save);
		c = strtok_r(NULL, " ", &save);
		if (op == NULL || a == NULL || b == NULL) {
			printf("BAD\n");
		} else if (strcmp(op, "peek") == 0) {
			printf("%d -\n", regress_log_peek(b, (unsigned int)atoi(a)));
		} else if (strcmp(op, "parse") == 0 && c != NULL) {
			int rv;

			prefill(bf, c);
			rv = regress_log_parse(b, bf, (unsigned int)atoi(a));
			printf("%d ", rv);
			puthex(bf);
			printf("\n");
		} else if (strcmp(op, "trim") == 0) {
			int rv;

			prefill(bf, b);
			rv = regress_log_trim(a, bf);
			printf("%d ", rv);
			puthex(bf);
			printf("\n");
		} else {
			printf("BAD\n");
		}
		buffer_free(bf);
		fflush(stdout);
	}
	return 0;
}
