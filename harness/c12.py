"""C12 - no input crashes, corrupts memory in or hangs the parsers.
Lanes (clang ASan+UBSan build, every execution under a wall-clock limit):
  step      robsd-step -R on mutated step files (+ model: parse accepts/rejects, output)
  regress   robsd-regress-log on mutated logs (+ model)
  interp    robsd-config - on mutated templates and -v values (+ model when the value/template has no NUL)
  config    robsd-config -m <mode> -C <mutated config> -   and   robsd-step -L -m <mode> -C <mutated config>
  report    robsd-report on build directories with mutated step.csv / logs / comment / tags
  ls/hook   robsd-ls, robsd-hook with mutated configs
  reentry   the witnesses of C12_config_no_abort_refuted and generated configurations whose root directory depends on
            ${builddir} (finding D18), robsd-config and robsd-step -L (+ model: the trap flag of Conf/ConfDefs.v decides
            whether the implementation must die or must exit 0/1)
Oracle on every execution: no sanitizer report, no signal, no timeout, exit status in the documented set,
a rejection prints a diagnostic and nothing on standard output."""
import hashlib, json, glob, os, re, subprocess, random
from concurrent.futures import ThreadPoolExecutor
import common, c01, c09, c13

TRANSLATORS = ['t_lexer', 't_step', 't_interp', 't_conf']
TRUSTED = ['memory safety / undefined behaviour of the C code is OBSERVED with clang ASan+UBSan (-fno-sanitize-recover), not proved; bounded by the generated inputs',
           'time limit 5 s per execution stands for "terminates promptly"',
           'models used for comparison: C01 (step file), C13 (regress log), C09 (interpolation); the configuration parser is compared with its model (Conf/ConfDefs.v: exit, '
           'stdout, trap flag) in the reentry lane only, elsewhere against the exit-status/diagnostic oracle (C08 compares it with its model on grammar-derived inputs)',
           'translator t_conf.py: which body config_default_build_dir has (re-entry guard) decides whether C12_config_no_abort_holds_now checks']

MODEL_MAX = 3000
MODES = ['robsd', 'robsd-cross', 'robsd-ports', 'robsd-regress', 'canvas']
SAN = re.compile(rb'AddressSanitizer|runtime error:|LeakSanitizer|UndefinedBehaviorSanitizer|SUMMARY: ')


def mutate(rng, data, rounds=None):
    b = bytearray(data)
    for _ in range(rounds if rounds is not None else rng.choice([0, 1, 1, 2, 3, 6])):
        k = rng.random()
        pos = rng.randrange(len(b) + 1)
        if k < 0.2 and b:
            b[rng.randrange(len(b))] = rng.choice([0, 10, 34, 36, 44, 123, 125, 255, rng.randrange(256)])
        elif k < 0.35:
            b[pos:pos] = bytes([rng.choice([0, 10, 34, 36, 44, 123, 125, 35, 92])])
        elif k < 0.5 and b:
            a = rng.randrange(len(b))
            del b[a:a + rng.choice([1, 2, 8, 64])]
        elif k < 0.6 and b:
            a = rng.randrange(len(b))
            seg = b[a:a + rng.choice([1, 4, 16])]
            b[pos:pos] = seg * rng.choice([2, 8, 200])
        elif k < 0.7:
            b[pos:pos] = rng.choice([b'99999999999999999999999', b'-9223372036854775809', b'2147483648', b'${', b'${}', b'${a${b}}', b'"', b'\x00' * 5,
                                     b'{' * 300, b'a' * 5000, b'"' + b'x' * 70000 + b'"'])
        elif k < 0.8 and len(b) > 2:
            b = b[:rng.randrange(len(b))]
        else:
            b[pos:pos] = bytes(rng.randrange(256) for _ in range(rng.choice([1, 3, 17])))
    return bytes(b)


def seeds_config(root, mode):
    d = root
    base = {
        'robsd': 'robsddir "%s"\ndestdir "%s"\nbsd-srcdir "%s"\ncvs-root "example.com:/cvs"\ncvs-user "nobody"\nx11-srcdir "%s"\nbsd-objdir "%s"\nx11-objdir "%s"\nskip { "cvs" "reboot" }\nhook { "echo" "${step-name}" }\nkeep 3\nstat-interval 30\n' % ((d,) * 6),
        'robsd-cross': 'robsddir "%s"\ncrossdir "%s"\nbsd-srcdir "%s"\ntarget "amd64"\n' % ((d,) * 3),
        'robsd-ports': 'robsddir "%s"\nchroot "%s"\ncvs-root "example.com:/cvs"\ncvs-user "nobody"\ndistrib-host "example.com"\ndistrib-path "/var/www"\ndistrib-user "nobody"\nports { "devel/knfmt" "mail/mdsort" }\nports-user "nobody"\n' % ((d,) * 2),
        'robsd-regress': 'robsddir "%s"\nregress-user "nobody"\nregress "bin/csh" root\nregress "lib/libc/locale" quiet no-parallel\nregress "usr.bin/ssh" env { "A=1" "B=${regress-env}" } timeout 1 h targets { "one" "two" }\nregress-env { "GLOBAL=1" "RD=${rdomain}" }\nparallel yes\nregress-timeout 2 m\n' % d,
        'canvas': 'canvas-name "t"\ncanvas-dir "%s"\nstep "a" command { "sh" "-c" "true" }\nstep "b" command { "echo" "${canvas-dir}" "${ncpu}" } parallel\nskip { "b" }\n' % d,
    }
    return base[mode].encode()


def execp(argv, stdin=b'', timeout=5, env=None, cwd=None):
    try:
        r = subprocess.run(argv, input=stdin, stdout=subprocess.PIPE, stderr=subprocess.PIPE, timeout=timeout, env=env, cwd=cwd)
        return r.returncode, r.stdout, r.stderr
    except subprocess.TimeoutExpired:
        return -998, b'', b'TIMEOUT'


def judge(res, lane, case, rc, out, err, ok_codes=(0, 1), stdout_on_reject_ok=False):
    res.evaluations += 1
    res.count('%s rc=%s' % (lane, rc))
    sig = None
    if rc == -998:
        sig, what = 'hang', '%s did not terminate within the time limit' % lane
    elif SAN.search(err):
        sig, what = 'sanitizer-report', '%s: %s' % (lane, err[-400:].decode('latin1'))
    elif rc < 0 or rc > 128:
        sig, what = 'abnormal-termination', '%s terminated with status %s' % (lane, rc)
    elif rc not in ok_codes:
        sig, what = 'undocumented-exit-status', '%s exited %s' % (lane, rc)
    elif rc != 0 and not err.strip():
        sig, what = 'rejection-without-diagnostic', '%s exited %s with empty stderr' % (lane, rc)
    elif rc != 0 and out and not stdout_on_reject_ok:
        sig, what = 'partial-output-on-rejection', '%s exited %s with %d bytes on stdout' % (lane, rc, len(out))
    if sig:
        res.oracle_failures.append({'case': case, 'signature': sig, 'what': what, 'lane': lane})
    return sig is None


def lane_step(ctx, impl, work, res, rng, n):
    drv = ctx.build_driver('st', withz=True)
    good = b'step,name,exit,duration,delta,log,user,time,skip\n1,one,0,5,0,,root,1700000000,0\n2,two,-1,-1,0,002-two.log,root,1700000001,0\n3,x/y,124,9223372036854775807,-5,003-x-y.log,root,1700000002,1\n'
    cases = []
    for i in range(n):
        data = mutate(rng, good) if rng.random() < 0.8 else bytes(rng.randrange(256) for _ in range(rng.choice([0, 1, 7, 100, 3000])))
        sel = rng.choice([['-i', '1'], ['-i', '-1'], ['-i', '3'], ['-n', 'two'], ['-i', '99']])
        tmpl = rng.choice([b'${step} ${name} ${exit}\n', b'${log}${user}\n', mutate(rng, b'${name}:${duration}\n', 2)])
        cases.append((data, sel, tmpl))

    def one(ic):
        i, (data, sel, tmpl) = ic
        p = os.path.join(work, 's%d.csv' % i)
        open(p, 'wb').write(data)
        r = execp([os.path.join(impl, 'robsd-step'), '-R', '-f', p] + sel, stdin=tmpl)
        os.unlink(p)
        return r
    with ThreadPoolExecutor(16) as ex:
        obs = list(ex.map(one, enumerate(cases)))
    qs = []
    for (data, sel, tmpl) in cases:
        how = 'i' if sel[0] == '-i' else 'n'
        if len(data) + len(tmpl) <= MODEL_MAX:
            qs.append(' '.join(['read', common.hexs(data), how, sel[1].encode().hex(), common.hexs(tmpl)]))
        else:
            qs.append('skip')      # the list-based model is quadratic in the length of one value: large inputs are judged by the oracle only
    ans = common.run_driver(drv, qs)
    for (data, sel, tmpl), (rc, out, err), a in zip(cases, obs, ans):
        case = {'lane': 'step', 'file': data.hex(), 'sel': sel, 'template': tmpl.hex()}
        if judge(res, 'robsd-step -R', case, rc, out, err) and b'\0' not in tmpl and a != 'BAD':
            if a != '%d %s' % (rc, common.hexs(out)):
                res.disagreements.append({'case': case, 'model': a[:200], 'impl': ('%d %s' % (rc, common.hexs(out)))[:200]})
        if rc == 0:
            res.nontrivial.add(hashlib.sha1(data + tmpl).hexdigest())


def lane_regress(ctx, impl, work, res, rng, n):
    drv = ctx.build_driver('rl')
    cases = []
    for i in range(n):
        log = c13.gen_log(rng)
        data = mutate(rng, log) if rng.random() < 0.8 else bytes(rng.randrange(256) for _ in range(rng.choice([0, 5, 200, 70000])))
        cases.append({'flags': rng.randint(1, 15), 'doprint': rng.random() < 0.8, 'files': [data.hex()]})
    with ThreadPoolExecutor(16) as ex:
        obs = list(ex.map(lambda ic: c13.run_impl(impl, work, ic[0], ic[1]), enumerate(cases)))
    qs = [(' '.join(['main'] + c13.flag_toks(c['flags']) + ['1' if c['doprint'] else '0', '1'] + c13.file_toks(c))
           if len(c['files'][0]) <= 2 * MODEL_MAX else 'skip') for c in cases]
    ans = common.run_driver(drv, qs)
    for c, (rc, out, err), a in zip(cases, obs, ans):
        c2 = dict(c, lane='regress')
        # exit 1 = "nothing extracted" is not a rejection: no diagnostic expected
        res.evaluations += 1
        res.count('robsd-regress-log rc=%s' % rc)
        if rc == -999 or SAN.search(err) or rc < 0 or rc > 2 or (rc != 0 and out):
            res.oracle_failures.append({'case': c2, 'signature': 'hang' if rc == -999 else ('sanitizer-report' if SAN.search(err) else 'abnormal-termination'),
                                        'what': 'robsd-regress-log status %s: %s' % (rc, err[-300:].decode('latin1')), 'lane': 'regress'})
        elif a != 'BAD' and a != '%d %s' % (rc, common.hexs(out)):
            res.disagreements.append({'case': c2, 'model': a[:200], 'impl': ('%d %s' % (rc, common.hexs(out)))[:200]})
        if rc == 0:
            res.nontrivial.add(hashlib.sha1(json.dumps(c).encode()).hexdigest())


def lane_config(ctx, impl, work, res, rng, n):
    root = os.path.join(work, 'root')
    os.makedirs(root, exist_ok=True)
    open(os.path.join(root, '.running'), 'w').write(os.path.join(root, '2024-01-01.1') + '\n')
    env = dict(os.environ, EXECDIR=impl)
    cases = []
    for i in range(n):
        mode = rng.choice(MODES)
        seed = seeds_config(root, mode)
        data = mutate(rng, seed) if rng.random() < 0.85 else bytes(rng.randrange(256) for _ in range(rng.choice([0, 3, 50, 4000])))
        tmpl = rng.choice([b'${robsddir} ${keep} ${hook} ${skip}\n', b'${builddir} ${ncpu} ${arch} ${trace}\n', b'${regress} ${regress-env} ${rdomain} ${rdomain}\n',
                           mutate(rng, b'${tmp-dir}/${exec-dir}\n', 2),
                           # every kind of row once: the static defaults and computed defaults config_find can be asked for (Conf/ConfAbort.v trap_free)
                           {'canvas': b'${step} ${canvas-name} ${canvas-dir} ${keep-dir}\n', 'robsd-regress': b'${regress-obj} ${regress-packages} ${parallel} ${regress-x-parallel} ${regress-x-targets} ${regress-x-env} ${regress-timeout}\n',
                            'robsd': b'${destdir} ${kernel} ${reboot} ${bsd-diff} ${bsd-reldir} ${x11-reldir} ${cvs-user}\n',
                            'robsd-cross': b'${crossdir} ${bsd-srcdir} ${inet} ${inet6} ${machine}\n',
                            'robsd-ports': b'${chroot} ${ports} ${ports-dir} ${ports-user} ${ports-diff} ${distrib-host}\n'}[mode]])
        which = rng.choice(['config', 'config', 'list', 'ls', 'hook'])
        if rng.random() < 0.2:
            # every line of one keyword dropped (a required variable missing, a list variable never created), then every kind of
            # row asked for: the static-default and computed-default branches of config_find (Conf/ConfAbort.v sites 1-3, 6)
            kws = sorted({l.split()[0] for l in seed.split(b'\n') if l.split()})
            kw = rng.choice(kws)
            data = b'\n'.join(l for l in seed.split(b'\n') if not l.startswith(kw + b' ')) + b'\n'
            tmpl = {'canvas': b'${step} ${canvas-name} ${canvas-dir} ${keep-dir}\n', 'robsd-regress': b'${regress} ${regress-obj} ${regress-packages} ${parallel} ${regress-x-parallel}\n',
                    'robsd': b'${destdir} ${kernel} ${bsd-reldir}\n', 'robsd-cross': b'${crossdir} ${bsd-srcdir}\n', 'robsd-ports': b'${chroot} ${ports} ${ports-user}\n'}[mode]
            which = rng.choice(['config', 'config', 'config', 'list'])
        cases.append((mode, data, tmpl, which))

    def one(ic):
        i, (mode, data, tmpl, which) = ic
        p = os.path.join(work, 'c%d.conf' % i)
        open(p, 'wb').write(data)
        if which == 'config':
            r = execp([os.path.join(impl, 'robsd-config'), '-m', mode, '-C', p, '-v', 'x=${robsddir}', '-'], stdin=tmpl, env=env)
        elif which == 'list':
            r = execp([os.path.join(impl, 'robsd-step'), '-L', '-m', mode, '-C', p, '-o', random.Random(i).choice(['1', '2', '5'])], env=env)
        elif which == 'ls':
            r = execp([os.path.join(impl, 'robsd-ls'), '-m', mode, '-C', p, '-B'], env=env)
        else:
            r = execp([os.path.join(impl, 'robsd-hook'), '-m', mode, '-C', p, '-v', 'step-name=a', '-v', 'step-exit=0'], env=env)
        os.unlink(p)
        return r
    with ThreadPoolExecutor(16) as ex:
        obs = list(ex.map(one, enumerate(cases)))
    for (mode, data, tmpl, which), (rc, out, err) in zip(cases, obs):
        case = {'lane': which, 'mode': mode, 'config': data.hex(), 'template': tmpl.hex()}
        # robsd-step -L prints the schedule first and may then complain "offset too large": output before a rejection is specified there
        judge(res, 'robsd-%s %s' % (which, mode), case, rc, out, err, stdout_on_reject_ok=(which in ('list', 'hook')))
        if rc == 0:
            res.nontrivial.add(hashlib.sha1(data + tmpl + which.encode()).hexdigest())


def lane_interp(ctx, impl, work, res, rng, n):
    limit = c09.source_limit()
    cases = []
    for _ in range(n):
        c = c09.gen_case(rng)
        c['template'] = mutate(rng, bytes.fromhex(c['template']), rng.choice([0, 1, 2])).hex()
        if c09.argv_ok(c):
            cases.append(c)
    root = os.path.join(work, 'iroot')
    os.makedirs(root, exist_ok=True)
    conf = os.path.join(work, 'i.conf')
    open(conf, 'w').write('canvas-name "t"\ncanvas-dir "%s"\nstep "s" command { "true" }\n' % root)
    with ThreadPoolExecutor(16) as ex:
        obs = list(ex.map(lambda c: c09.run_cmd(impl, conf, c), cases))
    drv = ctx.build_driver('ip')
    ans = common.run_driver(drv, [(' '.join(['cmd', str(limit)] + c09.env_toks(c) + [c['template'] or '-'])
                                   if len(c['template']) <= 2 * MODEL_MAX else 'skip') for c in cases])
    for c, (rc, out, err), a in zip(cases, obs, ans):
        case = dict(c, lane='interp')
        if judge(res, 'robsd-config -', case, rc, out, err) and b'\0' not in bytes.fromhex(c['template']) and a != 'BAD':
            m = a.split(' ')
            if m[0] != str(rc) or m[1] != common.hexs(out):
                res.disagreements.append({'case': case, 'model': a[:200], 'impl': ('%d %s' % (rc, common.hexs(out)))[:200]})


def lane_report(ctx, impl, work, res, rng, n):
    env = dict(os.environ, EXECDIR=impl)
    good_steps = b'step,name,exit,duration,delta,log,user,time,skip\n1,env,0,1,0,001-env.log,root,1700000000,0\n2,cvs,0,5,0,002-cvs.log,root,1700000001,1\n3,kernel,1,65,0,003-kernel.log,root,1700000002,0\n'
    cases = []
    for i in range(n):
        mode = rng.choice(MODES)
        cases.append((mode, mutate(rng, good_steps), mutate(rng, b'+ make\ncc -c x.c\n==== t ====\nFAILED\n*** Error 1\n', rng.choice([0, 1, 3])),
                      mutate(rng, b'a comment\n', rng.choice([0, 1])), mutate(rng, b'tag1 tag2\n', rng.choice([0, 1]))))

    def one(ic):
        i, (mode, steps, log, comment, tags) = ic
        root = os.path.join(work, 'r%d' % i)
        bd = os.path.join(root, '2024-01-02.1')
        os.makedirs(os.path.join(bd, 'tmp'))
        open(os.path.join(root, '.running'), 'w').write(bd + '\n')
        conf = os.path.join(root, 'conf')
        open(conf, 'wb').write(seeds_config(root, mode))
        open(os.path.join(bd, 'step.csv'), 'wb').write(steps)
        for nme in ('001-env.log', '002-cvs.log', '003-kernel.log'):
            open(os.path.join(bd, nme), 'wb').write(log)
        open(os.path.join(bd, 'comment'), 'wb').write(comment)
        open(os.path.join(bd, 'tags'), 'wb').write(tags)
        r = execp([os.path.join(impl, 'robsd-report'), '-m', mode, '-C', conf, bd], env=env)
        import shutil
        shutil.rmtree(root, ignore_errors=True)
        return r
    with ThreadPoolExecutor(16) as ex:
        obs = list(ex.map(one, enumerate(cases)))
    for (mode, steps, log, comment, tags), (rc, out, err) in zip(cases, obs):
        case = {'lane': 'report', 'mode': mode, 'steps': steps.hex(), 'log': log.hex(), 'comment': comment.hex(), 'tags': tags.hex()}
        judge(res, 'robsd-report %s' % mode, case, rc, out, err)
        if rc == 0:
            res.nontrivial.add(hashlib.sha1(steps + log).hexdigest())


D18_SIG = 'config-builddir-reentry'
STACK = re.compile(rb'AddressSanitizer: stack-overflow')


def lane_reentry(ctx, impl, work, res, rng, n):
    """abnormal termination of the configuration reader: the model's trap flag (proved in Conf/ConfAbort.v to be set only
    when ${builddir} is needed while it is being computed) against what the sanitizer build does"""
    import conf_common as cc, conf_gen
    world = cc.World(ctx, impl)
    drv = ctx.build_driver('cf', withz=True)
    g = conf_gen.Gen(rng)
    W = [('robsd', b'robsddir "@R@/root/${cvs-root}"\ndestdir "@R@/root"\ncvs-root "${builddir}"\n', b'${builddir}\n', 'config'),
         ('robsd', b'robsddir "@R@/root/${cvs-root}"\ndestdir "@R@/root"\ncvs-root "${builddir}"\n', b'x\n', 'config'),
         ('robsd', b'robsddir "@R@/root/${cvs-root}"\ncvs-root "${builddir}"\ndestdir "${builddir}"\n', b'x\n', 'config'),
         ('robsd', b'robsddir "@R@/root/${cvs-root}"\ncvs-root "${builddir}"\ndestdir "${builddir}"\n', b'', 'list'),
         ('canvas', b'canvas-name "x"\ncanvas-dir "@R@/root/${hook}"\nhook { "${builddir}" }\nstep "a" command { "true" }\n', b'${tmp-dir}\n', 'config'),
         ('robsd', b'robsddir "@R@/rroot"\ndestdir "@R@/root"\ncvs-root "${builddir}"\n', b'${builddir} ${cvs-root} ${tmp-dir}\n', 'config')]
    cases = [{'mode': m, 'kind': 'witness', 'text': t.hex(), 'vars': [], 'execdir': None, 'stdin': s.hex(), 'which': w, 'lane': 'reentry'} for m, t, s, w in W]
    for _ in range(max(24, n // 8)):
        mode = rng.choice(cc.MODES)
        ents, st = g.entries(mode, popt=rng.choice([0.1, 0.35]))
        label, text = g.reentry(mode, ents, st)
        stdin = rng.choice([b'${builddir}\n', b'${tmp-dir}\n', b'x\n', b'${robsddir}\n', b'${keep} ${ncpu}\n${comment-path}\n', g.template(mode, st)])
        cases.append({'mode': mode, 'kind': label, 'text': text.hex(), 'vars': [], 'execdir': None, 'stdin': stdin.hex(),
                      'which': rng.choice(['config', 'config', 'config', 'list']), 'lane': 'reentry'})
    env = dict(os.environ, LC_ALL='C')
    env.pop('EXECDIR', None)

    def one(c):
        conf = cc.write_case_files(world, c)
        if c['which'] == 'config':
            return execp([os.path.join(impl, 'robsd-config'), '-m', c['mode'], '-C', conf, '-'], stdin=world.sub(bytes.fromhex(c['stdin'])), env=env)
        return execp([os.path.join(impl, 'robsd-step'), '-L', '-m', c['mode'], '-C', conf], env=env)
    with ThreadPoolExecutor(16) as ex:
        obs = list(ex.map(one, cases))
    # the model: robsd-config on the same text; for robsd-step -L only the parse (empty template) matters
    qs = [(i, ['cfg', c['mode'], common.hexs(world.sub(bytes.fromhex(c['text']))), '0',
               common.hexs(world.sub(bytes.fromhex(c['stdin'])) if c['which'] == 'config' else b'')]) for i, c in enumerate(cases)]
    answers, _ = cc.driver_rounds(world, drv, qs, cases, lambda pre, envt: ' '.join(pre + envt))
    for c, (rc, out, err), a in zip(cases, obs, answers):
        mf = a.split()
        trap = len(mf) > 2 and mf[2] == '1'
        died = bool(STACK.search(err)) or rc < 0 or rc > 128
        if died and not trap and (STACK.search(err) or rc in (-11, 139)):
            # the model (with the body the translator found in the source) does not flag the trap but the implementation recurses
            res.oracle_failures.append({'case': c, 'signature': D18_SIG, 'lane': 'reentry',
                                        'what': 'robsd-%s dies of stack exhaustion where the model exits %s' % (c['which'], mf[0])})
            res.evaluations += 1
            res.count('reentry %s %s: model exit %s, impl dies' % (c['which'], c['kind'], mf[0]))
            continue
        res.evaluations += 1
        res.count('reentry %s %s: model %s, impl %s' % (c['which'], c['kind'], 'trap' if trap else 'exit ' + mf[0], 'dies' if died else 'exit %s' % rc))
        if trap and died and not (STACK.search(err) or rc in (-11, 139)):
            # another trap site than the unbounded recursion (SIGILL of __builtin_trap, SIGABRT of an assert)
            judge(res, 'robsd-%s reentry' % c['which'], c, rc, out, err)
            res.evaluations -= 1
        elif trap and died:
            res.oracle_failures.append({'case': c, 'signature': D18_SIG, 'lane': 'reentry',
                                        'what': 'robsd-%s dies of stack exhaustion: ${builddir} needed while ${builddir} is being computed' % c['which']})
        elif trap and not died:
            res.tie_errors.append('the model flags a trap (config_default_build_dir re-entered) where robsd-%s exits %s: %r'
                                  % (c['which'], rc, bytes.fromhex(c['text'])[:120]))
        else:
            ok = judge(res, 'robsd-%s reentry' % c['which'], c, rc, out, err, stdout_on_reject_ok=(c['which'] == 'list'))
            res.evaluations -= 1
            if ok and c['which'] == 'config' and (mf[0] != str(rc) or mf[1] != common.hexs(out)):
                res.disagreements.append({'case': c, 'model': a[:200], 'impl': ('%d %s' % (rc, common.hexs(out)))[:200]})
            if ok and c['which'] == 'list' and (mf[0] == '1') != (rc == 1) and mf[0] == '1':
                res.disagreements.append({'case': c, 'model': 'configuration rejected', 'impl': 'robsd-step -L exit %s' % rc})
        if rc == 0:
            res.nontrivial.add(hashlib.sha1(bytes.fromhex(c['text']) + bytes.fromhex(c['stdin'])).hexdigest())


LANES = [lane_step, lane_regress, lane_config, lane_interp, lane_report, lane_reentry]


def run_all(ctx, res, n):
    impl = ctx.build_impl('-fsanitize=address,undefined -fno-sanitize-recover=all -g -O1', cc='clang', ldflags='-fsanitize=address,undefined')
    os.environ.setdefault('ASAN_OPTIONS', 'detect_leaks=0:abort_on_error=0')
    os.environ.setdefault('UBSAN_OPTIONS', 'print_stacktrace=0')
    work = ctx.mkscratch('c12')
    for lane in LANES:
        lane(ctx, impl, work, res, ctx.rng, n)


def run(ctx, n=None):
    res = common.Result()
    res.rule = ('clang ASan+UBSan build of all helpers; inputs = grammar-derived seeds of the five configuration grammars, step files, regress logs, templates, '
                'report build directories, each with 0-6 byte-level mutations (NUL, quotes, braces, $, commas, deletions, repeated segments up to 70 kB tokens, huge integers, '
                'deep nesting, truncation) plus raw random bytes; 5 s limit per execution; non-trivial = the mutated input was still accepted (exit 0); distinct by content hash')
    res.assumptions = TRUSTED[:2]
    n = n or ctx.budget(500, 12000)
    run_all(ctx, res, n)
    res.samples = [{'lanes': [l.__name__ for l in LANES], 'per_lane': n}]
    res.traces_validated = res.evaluations
    return res


def extended_search(ctx, res, proof):
    return run(ctx, n=2500)


def replay(ctx, rep):
    case = rep.get('case') or {}
    if case.get('lane') != 'reentry':
        print(json.dumps(rep, indent=1)[:3000])
        return 1
    # the reentry lane replays: same configuration, same template, sanitizer build of the tree as it is now
    ctx.regen(TRANSLATORS)
    impl = ctx.build_impl('-fsanitize=address,undefined -fno-sanitize-recover=all -g -O1', cc='clang', ldflags='-fsanitize=address,undefined')
    os.environ.setdefault('ASAN_OPTIONS', 'detect_leaks=0:abort_on_error=0')
    import conf_common as cc
    world = cc.World(ctx, impl)
    conf = cc.write_case_files(world, case)
    env = dict(os.environ, LC_ALL='C')
    if case['which'] == 'config':
        rc, out, err = execp([os.path.join(impl, 'robsd-config'), '-m', case['mode'], '-C', conf, '-'], stdin=world.sub(bytes.fromhex(case['stdin'])), env=env)
    else:
        rc, out, err = execp([os.path.join(impl, 'robsd-step'), '-L', '-m', case['mode'], '-C', conf], env=env)
    print('configuration:\n' + world.sub(bytes.fromhex(case['text'])).decode('latin1'))
    print('template: %r' % bytes.fromhex(case['stdin']))
    print('exit %s\nstdout %r\nstderr %s' % (rc, out[:200], err[-600:].decode('latin1')))
    bad = bool(SAN.search(err)) or rc not in (0, 1)
    print('VIOLATION reproduced' if bad else 'no violation')
    return 1 if bad else 0
