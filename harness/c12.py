"""C12 - no input crashes, corrupts memory in or hangs the parsers.
Lanes (clang ASan+UBSan build unless stated, EVERY execution under ONE wall-clock limit, TIME_LIMIT = 5 s):
  seeds     start-up assertion: every unmutated seed (five configuration grammars, step file, report directory) is ACCEPTED
            (exit 0) by every tool it is fed to; a seed that is not is a tie error (nothing behind the parse error would run)
  step      robsd-step -R on mutated step files (+ model: parse accepts/rejects, output)
  regress   robsd-regress-log on mutated logs (+ model)
  interp    robsd-config - on mutated templates and -v values (+ model when the value/template has no NUL)
  config    robsd-config -m <mode> -C <mutated config> - ; robsd-step -L ; robsd-ls -B ; robsd-hook   (all five modes)
  report    robsd-report on build directories with mutated step.csv / logs / comment / tags
  html      robsd-regress-html on generated invocation trees with mutated step.csv / logs
  reentry   the witnesses of C12_config_no_abort_refuted (corpus/C12) and generated configurations whose root directory depends on
            ${builddir} (D21), robsd-config and robsd-step -L (+ model: the trap flag of Conf/ConfDefs.v decides
            whether the implementation must die or must exit 0/1)
  fanout    (plain cc build, RLIMIT_AS 1 GiB) every value refers F times to the next one on up to three levels: the result is
            F^levels copies of the leaf; through -v, through the configuration alone, through a step file; the result is
            compared with leaf x F^levels computed here
  fuzz      (harness/c12_fuzz.py) COVERAGE-GUIDED: libFuzzer (clang -fsanitize=fuzzer,address,undefined) on a scratch copy: the
            repository's own fuzz-config (five modes) and fuzz-step targets plus harness/c12_fuzz_{conf,stepread,interp,regresslog,
            report}.c; seeds = the grammar-derived seeds of the lanes above, dictionaries from the sources, -timeout=5,
            -rss_limit_mb=2048, -seed from VERIF_SEED; an artefact is an oracle failure fuzz-<target>-<kind> whose bytes replay
Oracle on every execution: no sanitizer report, no signal, no timeout, exit status in the documented set,
a rejection prints a diagnostic and nothing on standard output."""
import hashlib, json, glob, os, re, resource, shutil, subprocess, random
from concurrent.futures import ThreadPoolExecutor
import common, c01, c09, c13

TRANSLATORS = ['t_lexer', 't_step', 't_interp', 't_conf']
TRUSTED = ['memory safety / undefined behaviour of the C code is OBSERVED with clang ASan+UBSan (-fno-sanitize-recover), not proved; bounded by the generated inputs',
           'time limit 5 s per execution stands for "terminates promptly" (one limit, every lane)',
           'models used for comparison: C01 (step file), C13 (regress log), C09 (interpolation); the configuration parser is compared with its model (Conf/ConfDefs.v: exit, '
           'stdout, trap flag) in the reentry lane only, elsewhere against the exit-status/diagnostic oracle (C08 compares it with its model on grammar-derived inputs); '
           'robsd-step -L, robsd-ls, robsd-hook, robsd-report, robsd-regress-html are judged by the oracle only; inputs above MODEL_MAX bytes are not put to the list-based models',
           'mutation in the lanes step, regress, config, interp, report, html is blind (byte level, on grammar-derived seeds); the lane fuzz is coverage-guided '
           '(libFuzzer, in process, bounded by its time budget: 10 s per target in the quick tier, 120 s per target on 2-3 processes in the thorough tier); '
           'robsd-regress-html and robsd-ls behind the directory scan have no coverage-guided target; in the fuzz lane glob(3) patterns with wildcards in more than one '
           'path component are answered "no match" (harness/c12_fuzz_glob.c), LeakSanitizer results are recorded as observations, not failures',
           'translator t_conf.py: which body config_default_build_dir has (re-entry guard) decides whether C12_config_no_abort_holds_now checks']

MODEL_MAX = 3000
TIME_LIMIT = 5
MODES = ['robsd', 'robsd-cross', 'robsd-ports', 'robsd-regress', 'canvas']
SAN = re.compile(rb'AddressSanitizer|runtime error:|LeakSanitizer|UndefinedBehaviorSanitizer|SUMMARY: ')
HOOKMARK = b'HOOK-RAN'
FANOUT_SIG = 'interpolation-fanout-not-prompt'
FANOUT_MIN = 10 ** 7       # expansions from which a time-out is the recorded finding and not an unexplained hang


def mutate(rng, data, rounds=None):
    b = bytearray(data)
    for _ in range(rounds if rounds is not None else rng.choice([0, 1, 1, 2, 3, 6])):
        k = rng.random()
        pos = rng.randrange(len(b) + 1)
        if k < 0.2 and b:
            b[rng.randrange(len(b))] = rng.choice([0, 10, 34, 36, 44, 123, 125, 255, rng.randrange(256)])
        elif k < 0.35:
            b[pos:pos] = bytes([rng.choice([0, 10, 34, 36, 44, 123, 125, 35, 92])])
        elif k < 0.5 and b:
            a = rng.randrange(len(b))
            del b[a:a + rng.choice([1, 2, 8, 64])]
        elif k < 0.6 and b:
            a = rng.randrange(len(b))
            seg = b[a:a + rng.choice([1, 4, 16])]
            b[pos:pos] = seg * rng.choice([2, 8, 200])
        elif k < 0.7:
            b[pos:pos] = rng.choice([b'99999999999999999999999', b'-9223372036854775809', b'2147483648', b'${', b'${}', b'${a${b}}', b'"', b'\x00' * 5,
                                     b'{' * 300, b'a' * 5000, b'"' + b'x' * 70000 + b'"'])
        elif k < 0.8 and len(b) > 2:
            b = b[:rng.randrange(len(b))]
        else:
            b[pos:pos] = bytes(rng.randrange(256) for _ in range(rng.choice([1, 3, 17])))
    return bytes(b)


def seeds_config(root, mode, hook='echo'):
    """one ACCEPTED configuration per mode, touching every production of that mode's grammar (checked at start-up by lane_seeds)"""
    d = root
    hk = 'hook { "%s" "${step-name}" }\n' % hook
    base = {
        'robsd': 'robsddir "%s"\ndestdir "%s"\nbsd-srcdir "%s"\ncvs-root "example.com:/cvs"\ncvs-user "nobody"\nx11-srcdir "%s"\nbsd-objdir "%s"\nx11-objdir "%s"\nskip { "cvs" "reboot" }\n%skeep 3\nstat-interval 30\n' % ((d,) * 6 + (hk,)),
        'robsd-cross': 'robsddir "%s"\ncrossdir "%s/${target}"\nbsd-srcdir "%s"\n%skeep-attic no\n' % ((d,) * 3 + (hk,)),
        'robsd-ports': 'robsddir "%s"\nchroot "%s"\ncvs-root "example.com:/cvs"\ncvs-user "nobody"\ndistrib-host "example.com"\ndistrib-path "/var/www"\ndistrib-user "nobody"\nports { "devel/knfmt" "mail/mdsort" }\nports-user "nobody"\n%s' % ((d,) * 2 + (hk,)),
        'robsd-regress': 'robsddir "%s"\nregress-user "nobody"\nregress "bin/csh" root\nregress "lib/libc/locale" quiet no-parallel\nregress "usr.bin/ssh" env { "A=1" "B=${regress-env}" } targets { "one" "two" } obj { "usr.bin/make" } packages { "exabgp" }\nregress-env { "GLOBAL=1" "RD=${rdomain}" }\nparallel yes\nregress-timeout 2 m\n%s' % (d, hk),
        'canvas': 'canvas-name "t"\ncanvas-dir "%s"\nstep "a" command { "sh" "-c" "true" }\nstep "b" command { "echo" "${canvas-dir}" "${ncpu}" } parallel\nskip { "b" }\n%s' % (d, hk),
    }
    return base[mode].encode()


# every kind of row once: the static defaults and computed defaults config_find can be asked for (Conf/ConfAbort.v trap_free)
ROW_TEMPLATES = {'canvas': b'${canvas-name} ${canvas-dir} ${keep-dir} ${robsddir}\n',
                 'robsd-regress': b'${regress} ${regress-obj} ${regress-packages} ${parallel} ${regress-x-parallel} ${regress-x-targets} ${regress-x-env} ${regress-timeout} '
                                  b'${regress-usr.bin/ssh-env} ${regress-usr.bin/ssh-targets} ${regress-bin/csh-root} ${regress-lib/libc/locale-quiet} ${rdomain} ${rdomain}\n',
                 'robsd': b'${destdir} ${kernel} ${reboot} ${bsd-diff} ${bsd-reldir} ${x11-reldir} ${cvs-user}\n',
                 'robsd-cross': b'${crossdir} ${bsd-srcdir} ${inet} ${inet6} ${machine}\n',
                 'robsd-ports': b'${chroot} ${ports} ${ports-dir} ${ports-user} ${ports-diff} ${distrib-host}\n'}
GOOD_STEPS = b'step,name,exit,duration,delta,log,user,time,skip\n1,env,0,1,0,001-env.log,root,1700000000,0\n2,cvs,0,5,0,002-cvs.log,root,1700000001,1\n3,kernel,1,65,0,003-kernel.log,root,1700000002,0\n'
GOOD_STEPFILE = b'step,name,exit,duration,delta,log,user,time,skip\n1,one,0,5,0,,root,1700000000,0\n2,two,-1,-1,0,002-two.log,root,1700000001,0\n3,x/y,124,9223372036854775807,-5,003-x-y.log,root,1700000002,1\n'


def build_driver(ctx, name, withz=False):
    """C12 uses the extractions of four other areas (st, rl, ip, cf): the libraries an extraction imports are compiled first"""
    import conf_common
    return conf_common.build_driver(ctx, name, withz)


def limit_as(nbytes):
    def f():
        resource.setrlimit(resource.RLIMIT_AS, (nbytes, nbytes))
    return f


def execp(argv, stdin=b'', env=None, cwd=None, mem=None):
    """one execution under THE time limit; -998 = did not terminate"""
    try:
        r = subprocess.run(argv, input=stdin, stdout=subprocess.PIPE, stderr=subprocess.PIPE, timeout=TIME_LIMIT, env=env, cwd=cwd,
                           preexec_fn=limit_as(mem) if mem else None)
        return r.returncode, r.stdout, r.stderr
    except subprocess.TimeoutExpired:
        return -998, b'', b'TIMEOUT'


def judge(res, lane, case, rc, out, err, ok_codes=(0, 1)):
    """the oracle.  No exemption from the "no partial output" clause: robsd-step -L tests the offset BEFORE its print loop
    (steps_list: `if (offset - 1 >= VECTOR_LENGTH(steps)) ... goto out;` precedes the printf loop) and robsd-hook prints nothing
    itself without -V (what appears on its standard output is written by the hook command AFTER a successful execvp, i.e. after
    the helper accepted its input; the lane uses a hook command that always exits 0, so output together with a non-zero status
    is the helper's)."""
    res.evaluations += 1
    res.count('%s rc=%s' % (lane, rc))
    sig = None
    if rc in (-998, -999):
        sig, what = 'hang', '%s did not terminate within %d s' % (lane, TIME_LIMIT)
    elif SAN.search(err):
        sig, what = 'sanitizer-report', '%s: %s' % (lane, err[-400:].decode('latin1'))
    elif rc < 0 or rc > 128:
        sig, what = 'abnormal-termination', '%s terminated with status %s' % (lane, rc)
    elif rc not in ok_codes:
        sig, what = 'undocumented-exit-status', '%s exited %s' % (lane, rc)
    elif rc != 0 and not err.strip():
        sig, what = 'rejection-without-diagnostic', '%s exited %s with empty stderr' % (lane, rc)
    elif rc != 0 and out:
        sig, what = 'partial-output-on-rejection', '%s exited %s with %d bytes on stdout' % (lane, rc, len(out))
    if sig:
        res.oracle_failures.append({'case': case, 'signature': sig, 'what': what, 'lane': lane})
    return sig is None


def load_corpus():
    """corpus/C12/*.json, each case names its lane.  A missing or empty directory is an error."""
    d = os.path.join(common.VERIF, 'corpus', 'C12')
    if not os.path.isdir(d):
        raise common.BuildFailure('corpus directory %s is missing' % d)
    cs = []
    for p in sorted(glob.glob(os.path.join(d, '*.json'))):
        c = json.load(open(p))
        c['corpus'] = os.path.basename(p)
        cs.append(c)
    if not cs:
        raise common.BuildFailure('corpus directory %s holds no case' % d)
    return cs


def make_hookprobe(work):
    p = os.path.join(work, 'hookprobe')
    open(p, 'w').write('#!/bin/sh\necho "%s $*"\nexit 0\n' % HOOKMARK.decode())
    os.chmod(p, 0o755)
    return p


def config_world(work, name='root'):
    root = os.path.join(work, name)
    os.makedirs(os.path.join(root, '2024-01-01.1', 'tmp'), exist_ok=True)
    open(os.path.join(root, '.running'), 'w').write(os.path.join(root, '2024-01-01.1') + '\n')
    return root


def run_tool(impl, which, mode, conf, tmpl, env, idx=0):
    if which == 'config':
        return execp([os.path.join(impl, 'robsd-config'), '-m', mode, '-C', conf, '-v', 'x=${robsddir}', '-v', 'target=amd64', '-v', 'step-name=a', '-'], stdin=tmpl, env=env)
    if which == 'list':
        return execp([os.path.join(impl, 'robsd-step'), '-L', '-m', mode, '-C', conf, '-o', random.Random(idx).choice(['1', '2', '5'])], env=env)
    if which == 'ls':
        return execp([os.path.join(impl, 'robsd-ls'), '-m', mode, '-C', conf, '-B'], env=env)
    return execp([os.path.join(impl, 'robsd-hook'), '-m', mode, '-C', conf, '-v', 'step-name=a', '-v', 'step-exit=0'], env=env)


def report_dir(root, mode, conf_bytes, steps, log, comment, tags):
    bd = os.path.join(root, '2024-01-02.1')
    os.makedirs(os.path.join(bd, 'tmp'))
    open(os.path.join(root, '.running'), 'w').write(bd + '\n')
    conf = os.path.join(root, 'conf')
    open(conf, 'wb').write(conf_bytes)
    open(os.path.join(bd, 'step.csv'), 'wb').write(steps)
    for nme in ('001-env.log', '002-cvs.log', '003-kernel.log'):
        open(os.path.join(bd, nme), 'wb').write(log)
    open(os.path.join(bd, 'comment'), 'wb').write(comment)
    open(os.path.join(bd, 'tags'), 'wb').write(tags)
    return conf, bd


def lane_seeds(ctx, impl, work, res, rng, n):
    """every unmutated seed must be accepted by every tool it is fed to, otherwise the mutations of it only exercise the error path"""
    root = config_world(work, 'sroot')
    probe = make_hookprobe(root)
    env = dict(os.environ, EXECDIR=impl)
    for mode in MODES:
        conf = os.path.join(work, 'seed-%s.conf' % mode)
        open(conf, 'wb').write(seeds_config(root, mode, hook=probe))
        for which in ('config', 'list', 'ls', 'hook'):
            rc, out, err = run_tool(impl, which, mode, conf, ROW_TEMPLATES[mode] + b'${robsddir} ${keep} ${hook} ${skip}\n${builddir} ${ncpu} ${arch} ${trace}\n', env)
            res.evaluations += 1
            ok = rc == 0 and not SAN.search(err) and (which != 'hook' or out.startswith(HOOKMARK)) and (which not in ('config', 'list') or out)
            res.count('seed %s %s: %s' % (which, mode, 'accepted' if ok else 'NOT accepted (exit %s)' % rc))
            if not ok:
                res.tie_errors.append('the unmutated %s seed is not accepted by robsd-%s: exit %s, %r' % (mode, which, rc, err[-200:]))
        rroot = os.path.join(work, 'seedrep-%s' % mode)
        os.makedirs(rroot)
        conf, bd = report_dir(rroot, mode, seeds_config(rroot, mode), GOOD_STEPS, b'+ make\ncc -c x.c\n==== t ====\nFAILED\n*** Error 1\n', b'a comment\n', b'tag1 tag2\n')
        rc, out, err = execp([os.path.join(impl, 'robsd-report'), '-m', mode, '-C', conf, bd], env=env)
        res.evaluations += 1
        res.count('seed report %s: %s' % (mode, 'accepted' if rc == 0 and out else 'NOT accepted (exit %s)' % rc))
        if rc != 0 or not out or SAN.search(err):
            res.tie_errors.append('the unmutated report directory is not accepted by robsd-report -m %s: exit %s, %r' % (mode, rc, err[-200:]))
        shutil.rmtree(rroot, ignore_errors=True)
    p = os.path.join(work, 'seed.csv')
    open(p, 'wb').write(GOOD_STEPFILE)
    rc, out, err = execp([os.path.join(impl, 'robsd-step'), '-R', '-f', p, '-i', '1'], stdin=b'${step} ${name} ${exit}\n')
    res.evaluations += 1
    if rc != 0 or out != b'1 one 0\n':
        res.tie_errors.append('the unmutated step file is not accepted by robsd-step -R: exit %s, %r %r' % (rc, out[:80], err[-200:]))


def lane_step(ctx, impl, work, res, rng, n):
    drv = build_driver(ctx, 'st', withz=True)
    good = GOOD_STEPFILE
    cases = [(bytes.fromhex(c['file']), c['sel'], bytes.fromhex(c['template'])) for c in load_corpus() if c['lane'] == 'step']
    for i in range(n):
        data = mutate(rng, good) if rng.random() < 0.8 else bytes(rng.randrange(256) for _ in range(rng.choice([0, 1, 7, 100, 3000])))
        sel = rng.choice([['-i', '1'], ['-i', '-1'], ['-i', '3'], ['-n', 'two'], ['-i', '99']])
        tmpl = rng.choice([b'${step} ${name} ${exit}\n', b'${log}${user}\n', mutate(rng, b'${name}:${duration}\n', 2)])
        if rng.random() < 0.05:
            # a long field referenced several times: the result outgrows every buffer sized after the template (seeded/C12-2)
            k = rng.choice([600, 700, 1500, 5000])
            data = good.replace(b'1,one,', b'1,' + b'a' * k + b',')
            sel = ['-i', '1']
            tmpl = b' '.join([b'${name}'] * rng.choice([2, 3, 4, 9])) + rng.choice([b'\n', b'\n${nope}\n', b'\n${log}\n'])
        cases.append((data, sel, tmpl))

    def one(ic):
        i, (data, sel, tmpl) = ic
        p = os.path.join(work, 's%d.csv' % i)
        open(p, 'wb').write(data)
        r = execp([os.path.join(impl, 'robsd-step'), '-R', '-f', p] + sel, stdin=tmpl)
        os.unlink(p)
        return r
    with ThreadPoolExecutor(16) as ex:
        obs = list(ex.map(one, enumerate(cases)))
    qs = []
    for (data, sel, tmpl) in cases:
        how = 'i' if sel[0] == '-i' else 'n'
        if len(data) + len(tmpl) <= MODEL_MAX and max(len(x) for x in re.split(rb'[,\n]', data)) <= 300:
            qs.append(' '.join(['read', common.hexs(data), how, sel[1].encode().hex(), common.hexs(tmpl)]))
        else:
            qs.append('skip')      # the list-based model is quadratic in the length of one value: large inputs are judged by the oracle only
    ans = common.run_driver(drv, qs)
    for (data, sel, tmpl), (rc, out, err), a in zip(cases, obs, ans):
        case = {'lane': 'step', 'file': data.hex(), 'sel': sel, 'template': tmpl.hex()}
        if judge(res, 'robsd-step -R', case, rc, out, err) and b'\0' not in tmpl and a != 'BAD':
            if a != '%d %s' % (rc, common.hexs(out)):
                res.disagreements.append({'case': case, 'model': a[:200], 'impl': ('%d %s' % (rc, common.hexs(out)))[:200]})
        if a == 'BAD':
            res.count('robsd-step -R: above MODEL_MAX or a field above 300 bytes, oracle only')
            m = re.match(rb'step,name,exit,duration,delta,log,user,time,skip\n1,(a+),', data)
            if m and sel == ['-i', '1'] and re.fullmatch(rb'\$\{name\}( \$\{name\})*\n', tmpl):
                # the long-value cases are beyond the list model: their result is computed here (the name, as often as referenced)
                want = tmpl.replace(b'${name}', m.group(1))
                if rc != 0 or out != want:
                    res.oracle_failures.append({'case': case, 'signature': 'step-long-value-result', 'lane': 'step',
                                                'what': 'a %d-byte name referenced %d times: exit %s, %d bytes, expected exit 0, %d bytes'
                                                        % (len(m.group(1)), tmpl.count(b'${name}'), rc, len(out), len(want))})
        if rc == 0:
            res.nontrivial.add(hashlib.sha1(data + tmpl).hexdigest())


def lane_regress(ctx, impl, work, res, rng, n):
    drv = build_driver(ctx, 'rl')
    cases = []
    for i in range(n):
        log = c13.gen_log(rng)
        data = mutate(rng, log) if rng.random() < 0.8 else bytes(rng.randrange(256) for _ in range(rng.choice([0, 5, 200, 70000])))
        cases.append({'flags': rng.randint(1, 15), 'doprint': rng.random() < 0.8, 'files': [data.hex()]})
    # OUTSIDE the property: the log PATH cannot be read (missing, a directory).  The property quantifies over byte strings
    # supplied as the log; a path that yields no bytes supplies none.  Only crash/hang freedom is judged there (robsd-regress-log
    # exits 2 without a diagnostic: buffer_read fails silently).
    unreadable = [{'flags': 1, 'doprint': True, 'files': [], 'path': p} for p in (os.path.join(work, 'nosuchlog'), work)]

    def one(ic):
        i, c = ic
        if 'path' in c:
            paths = [c['path']]
        else:
            d = os.path.join(work, 'rl%d' % i)
            os.makedirs(d, exist_ok=True)
            paths = []
            for j, f in enumerate(c['files']):
                p = os.path.join(d, 'log%d' % j)
                open(p, 'wb').write(bytes.fromhex(f))
                paths.append(p)
        r = execp([os.path.join(impl, 'robsd-regress-log'), c13.flag_args(c['flags'], c['doprint'])] + paths)
        if 'path' not in c:
            shutil.rmtree(d, ignore_errors=True)
        return r
    with ThreadPoolExecutor(16) as ex:
        obs = list(ex.map(one, enumerate(cases + unreadable)))
    for c, (rc, out, err) in zip(unreadable, obs[len(cases):]):
        res.count('outside: regress log path not readable (exit %s, %s diagnostic)' % (rc, 'with' if err.strip() else 'without'))
        if rc in (-998, -999) or SAN.search(err) or rc < 0 or rc > 128:
            res.oracle_failures.append({'case': dict(c, lane='regress'), 'signature': 'hang' if rc in (-998, -999) else 'abnormal-termination',
                                        'what': 'robsd-regress-log on an unreadable path: status %s' % rc, 'lane': 'regress'})
    obs = obs[:len(cases)]
    qs = [(' '.join(['main'] + c13.flag_toks(c['flags']) + ['1' if c['doprint'] else '0', '1'] + c13.file_toks(c))
           if len(c['files'][0]) <= 2 * MODEL_MAX else 'skip') for c in cases]
    ans = common.run_driver(drv, qs)
    for c, (rc, out, err), a in zip(cases, obs, ans):
        c2 = dict(c, lane='regress')
        # exit 1 = "nothing extracted" is not a rejection: no diagnostic expected.  Exit 2 (fatal) cannot happen for a readable file.
        res.evaluations += 1
        res.count('robsd-regress-log rc=%s' % rc)
        if rc in (-998, -999) or SAN.search(err) or rc < 0 or rc > 1 or (rc != 0 and out):
            sig = ('hang' if rc in (-998, -999) else 'sanitizer-report' if SAN.search(err) else 'abnormal-termination' if (rc < 0 or rc > 128)
                   else 'undocumented-exit-status' if rc > 1 else 'partial-output-on-rejection')
            res.oracle_failures.append({'case': c2, 'signature': sig,
                                        'what': 'robsd-regress-log status %s: %s' % (rc, err[-300:].decode('latin1')), 'lane': 'regress'})
        elif a != 'BAD' and a != '%d %s' % (rc, common.hexs(out)):
            res.disagreements.append({'case': c2, 'model': a[:200], 'impl': ('%d %s' % (rc, common.hexs(out)))[:200]})
        if rc == 0:
            res.nontrivial.add(hashlib.sha1(json.dumps(c).encode()).hexdigest())


def lane_config(ctx, impl, work, res, rng, n):
    root = config_world(work)
    probe = make_hookprobe(root)          # inside the root, so that stored cases name it as @R@/hookprobe
    env = dict(os.environ, EXECDIR=impl)
    cases = []
    for c in load_corpus():
        if c['lane'] == 'config':
            cases.append((c['mode'], bytes.fromhex(c['config']).replace(b'@R@', root.encode()), bytes.fromhex(c['template']), c['which']))
    for i in range(n):
        mode = rng.choice(MODES)
        seed = seeds_config(root, mode, hook=probe)
        data = mutate(rng, seed, rng.choice([0, 0, 1, 1, 1, 2, 3, 6])) if rng.random() < 0.85 else bytes(rng.randrange(256) for _ in range(rng.choice([0, 3, 50, 4000])))
        tmpl = rng.choice([b'${robsddir} ${keep} ${hook} ${skip}\n', b'${builddir} ${ncpu} ${arch} ${trace}\n',
                           b'${regress} ${regress-env} ${rdomain} ${rdomain}\n' if mode == 'robsd-regress' else b'${keep-dir} ${tmp-dir}\n',
                           mutate(rng, b'${tmp-dir}/${exec-dir}\n', 2), ROW_TEMPLATES[mode], ROW_TEMPLATES[mode],
                           b'${step}\n'])        # step is the one row without a value (INVALID): always 'unknown variable'
        which = rng.choice(['config', 'config', 'list', 'ls', 'hook'])
        k = rng.random()
        if k < 0.2:
            # every line of one keyword dropped (a required variable missing, a list variable never created), then every kind of
            # row asked for: the static-default and computed-default branches of config_find (Conf/ConfAbort.v sites 1-3, 6)
            kws = sorted({l.split()[0] for l in seed.split(b'\n') if l.split()})
            kw = rng.choice(kws)
            data = b'\n'.join(l for l in seed.split(b'\n') if not l.startswith(kw + b' ')) + b'\n'
            tmpl = {'canvas': b'${canvas-name} ${canvas-dir} ${keep-dir}\n${step}\n', 'robsd-regress': b'${regress} ${regress-obj} ${regress-packages} ${parallel} ${regress-x-parallel}\n',
                    'robsd': b'${destdir} ${kernel} ${bsd-reldir}\n', 'robsd-cross': b'${crossdir} ${bsd-srcdir}\n', 'robsd-ports': b'${chroot} ${ports} ${ports-user}\n'}[mode]
            which = rng.choice(['config', 'config', 'config', 'list'])
        elif k < 0.26:
            # a long string value referenced several times (seeded/C12-2): the result outgrows a buffer sized after the template
            v = b'u' * rng.choice([700, 1500, 4000])
            kw = {'canvas': b'canvas-name', 'robsd-cross': b'crossdir'}.get(mode, b'cvs-root')
            data = b''.join(l + b'\n' for l in seed.split(b'\n') if l and not l.startswith(kw + b' ')) + kw + b' "' + v + b'"\n'
            tmpl = b'\n'.join([b'A=${' + kw + b'}'] * rng.choice([2, 3, 5])) + rng.choice([b'\n', b'\n${nope}\n'])
            which = 'config'
        cases.append((mode, data, tmpl, which))

    def one(ic):
        i, (mode, data, tmpl, which) = ic
        p = os.path.join(work, 'c%d.conf' % i)
        open(p, 'wb').write(data)
        r = run_tool(impl, which, mode, p, tmpl, env, i)
        os.unlink(p)
        return r
    with ThreadPoolExecutor(16) as ex:
        obs = list(ex.map(one, enumerate(cases)))
    rates = {}
    for (mode, data, tmpl, which), (rc, out, err) in zip(cases, obs):
        case = {'lane': which, 'mode': mode, 'config': data.replace(root.encode(), b'@R@').hex(), 'template': tmpl.hex()}
        judge(res, 'robsd-%s %s' % (which, mode), case, rc, out, err)
        r = rates.setdefault('%s %s' % (which, mode), [0, 0])
        r[1] += 1
        if rc == 0:
            r[0] += 1
            res.nontrivial.add(hashlib.sha1(data + tmpl + which.encode()).hexdigest())
    # acceptance rates per tool and mode: what share of the executions gets behind the parse error at all
    res.extra.setdefault('acceptance_rates', {}).update({k: '%d/%d' % (a, t) for k, (a, t) in sorted(rates.items())})
    for k, (a, t) in sorted(rates.items()):
        res.count('accepted by robsd-%s: %d of %d' % (k, a, t))
        if t >= 25 and a == 0:
            res.tie_errors.append('config lane: none of %d executions of robsd-%s was accepted - nothing behind the parse error ran' % (t, k))


def lane_interp(ctx, impl, work, res, rng, n):
    limit = c09.source_limit()
    cases = [dict(c) for c in c09.load_corpus() if 'ignore' not in c]
    for _ in range(n):
        c = c09.gen_case(rng)
        c['template'] = mutate(rng, bytes.fromhex(c['template']), rng.choice([0, 1, 2])).hex()
        if c09.argv_ok(c):
            cases.append(c)
    root = os.path.join(work, 'iroot')
    os.makedirs(root, exist_ok=True)
    conf = os.path.join(work, 'i.conf')
    open(conf, 'w').write('canvas-name "t"\ncanvas-dir "%s"\nstep "s" command { "true" }\n' % root)
    with ThreadPoolExecutor(16) as ex:
        obs = list(ex.map(lambda c: c09.run_cmd(impl, conf, c, timeout=TIME_LIMIT), cases))
    drv = build_driver(ctx, 'ip')
    ans = common.run_driver(drv, [(' '.join(['cmd', str(limit)] + c09.env_toks(c) + [c['template'] or '-'])
                                   if len(c['template']) <= 2 * MODEL_MAX and sum(len(v) for _, v in c['env']) <= 4 * MODEL_MAX else 'skip') for c in cases])
    for c, (rc, out, err), a in zip(cases, obs, ans):
        case = dict(c, lane='interp')
        if a.startswith('EXN'):
            # the extracted list-based model ran out of stack on this input (a mutation multiplied a fan-out): oracle only
            res.count('robsd-config -: beyond the extracted model (%s), oracle only' % a[4:40])
            judge(res, 'robsd-config -', case, rc, out, err)
            continue
        if judge(res, 'robsd-config -', case, rc, out, err) and b'\0' not in bytes.fromhex(c['template']) and a != 'BAD':
            m = a.split(' ')
            if m[0] != str(rc) or m[1] != common.hexs(out):
                res.disagreements.append({'case': case, 'model': a[:200], 'impl': ('%d %s' % (rc, common.hexs(out)))[:200]})
        if rc == 0 and len(out) > 2048:
            res.count('robsd-config -: result above 2 KiB')


REPORT_LOGS = (b'001-env.log', b'002-cvs.log', b'003-kernel.log')
MISSING_LOG_SIG = 'report-regress-unreadable-log-silent'


def names_missing_log(steps):
    """does some row of this (possibly mutated) step file name a log that the fixture directory does not hold?"""
    for line in steps.split(b'\n')[1:]:
        f = line.split(b',')
        if len(f) >= 6 and f[5] and f[5] not in REPORT_LOGS:
            return True
    return False


def lane_report(ctx, impl, work, res, rng, n):
    env = dict(os.environ, EXECDIR=impl)
    cases = [(c['mode'], bytes.fromhex(c['steps']), bytes.fromhex(c['log']), bytes.fromhex(c['comment']), bytes.fromhex(c['tags']))
             for c in load_corpus() if c['lane'] == 'report']
    for i in range(n):
        mode = rng.choice(MODES)
        cases.append((mode, mutate(rng, GOOD_STEPS), mutate(rng, b'+ make\ncc -c x.c\n==== t ====\nFAILED\n*** Error 1\n', rng.choice([0, 1, 3])),
                      mutate(rng, b'a comment\n', rng.choice([0, 1])), mutate(rng, b'tag1 tag2\n', rng.choice([0, 1]))))

    def one(ic):
        i, (mode, steps, log, comment, tags) = ic
        root = os.path.join(work, 'r%d' % i)
        os.makedirs(root)
        conf, bd = report_dir(root, mode, seeds_config(root, mode), steps, log, comment, tags)
        r = execp([os.path.join(impl, 'robsd-report'), '-m', mode, '-C', conf, bd], env=env)
        shutil.rmtree(root, ignore_errors=True)
        return r
    with ThreadPoolExecutor(16) as ex:
        obs = list(ex.map(one, enumerate(cases)))
    rates = {}
    for (mode, steps, log, comment, tags), (rc, out, err) in zip(cases, obs):
        case = {'lane': 'report', 'mode': mode, 'steps': steps.hex(), 'log': log.hex(), 'comment': comment.hex(), 'tags': tags.hex()}
        if mode == 'robsd-regress' and rc == 1 and not err.strip() and not out and names_missing_log(steps):
            # regress_report_step_log: regress_log_parse() < 0 (the log named by a row cannot be read) returns STEP_LOG_ERROR without
            # a message, where report_step_log of the other modes says warn("%s", log_path) (findings/C12_report_regress_missing_log.md)
            res.evaluations += 1
            res.count('robsd-report robsd-regress rc=1 silent, a row names a log that does not exist')
            res.oracle_failures.append({'case': case, 'signature': MISSING_LOG_SIG, 'lane': 'report',
                                        'what': 'robsd-report -m robsd-regress exits 1 with empty stderr: a row of step.csv names a log that cannot be read'})
            r = rates.setdefault('report %s' % mode, [0, 0])
            r[1] += 1
            continue
        judge(res, 'robsd-report %s' % mode, case, rc, out, err)
        r = rates.setdefault('report %s' % mode, [0, 0])
        r[1] += 1
        if rc == 0:
            r[0] += 1
            res.nontrivial.add(hashlib.sha1(steps + log).hexdigest())
    res.extra.setdefault('acceptance_rates', {}).update({k: '%d/%d' % (a, t) for k, (a, t) in sorted(rates.items())})
    for k, (a, t) in sorted(rates.items()):
        if t >= 25 and a == 0:
            res.tie_errors.append('report lane: none of %d executions of robsd-%s was accepted' % (t, k))


def lane_html(ctx, impl, work, res, rng, n):
    """robsd-regress-html (regress-html.c is an anchor file of the property) on generated invocation trees (harness/c14.py) whose
    step files and logs are mutated at byte level"""
    import c14, c14_fixture as fx
    binary = os.path.join(impl, 'robsd-regress-html')
    cases = []
    for i in range(max(12, n // 6)):
        c = c14.gen_case(rng, rng.choice(['plain', 'plain', 'dup', 'error', 'special', 'tie']))
        hit = 0
        for a in c['arches']:
            for e in a['entries']:
                if e['kind'] != 'dir':
                    continue
                if e.get('step') is not None and rng.random() < 0.35:
                    e['step'] = mutate(rng, bytes.fromhex(e['step']), rng.choice([1, 2, 4])).hex()
                    hit += 1
                e['files'] = [[nm, (mutate(rng, bytes.fromhex(ct), rng.choice([1, 3])).hex() if rng.random() < 0.2 else ct)] for nm, ct in e.get('files', [])]
        c['mutated_step_files'] = hit
        cases.append(c)
    env = dict(os.environ)

    def one(ic):
        i, c = ic
        root = os.path.join(work, 'h%d' % i)
        os.makedirs(root)
        try:
            rc, err, outdir = fx.run_impl(binary, root, c, timeout=TIME_LIMIT, env=env)
            nfiles = sum(len(fs) for _, _, fs in os.walk(outdir))
            return rc, err, nfiles
        finally:
            shutil.rmtree(root, ignore_errors=True)
    with ThreadPoolExecutor(8) as ex:
        obs = list(ex.map(one, enumerate(cases)))
    acc = 0
    for c, (rc, err, nfiles) in zip(cases, obs):
        # the result of robsd-regress-html is the output directory, its standard output is always empty
        judge(res, 'robsd-regress-html', dict(c, lane='html'), rc, b'', err)
        if rc == 0:
            acc += 1
            res.nontrivial.add(hashlib.sha1(json.dumps(c, sort_keys=True).encode()).hexdigest())
    res.extra.setdefault('acceptance_rates', {})['regress-html'] = '%d/%d' % (acc, len(cases))
    if acc == 0:
        res.tie_errors.append('html lane: none of %d executions of robsd-regress-html was accepted' % len(cases))


D21_SIG = 'config-builddir-reentry'
STACK = re.compile(rb'AddressSanitizer: stack-overflow')


def lane_reentry(ctx, impl, work, res, rng, n):
    """abnormal termination of the configuration reader: the model's trap flag (proved in Conf/ConfAbort.v to be set only
    when ${builddir} is needed while it is being computed) against what the sanitizer build does"""
    import conf_common as cc, conf_gen
    world = cc.World(ctx, impl)
    drv = build_driver(ctx, 'cf', withz=True)
    g = conf_gen.Gen(rng)
    cases = [dict(c, lane='reentry') for c in load_corpus() if c['lane'] == 'reentry']
    if not cases:
        res.tie_errors.append('corpus/C12 holds no builddir re-entry witness (D21)')
    for _ in range(max(24, n // 8)):
        mode = rng.choice(cc.MODES)
        ents, st = g.entries(mode, popt=rng.choice([0.1, 0.35]))
        label, text = g.reentry(mode, ents, st)
        stdin = rng.choice([b'${builddir}\n', b'${tmp-dir}\n', b'x\n', b'${robsddir}\n', b'${keep} ${ncpu}\n${comment-path}\n', g.template(mode, st)])
        cases.append({'mode': mode, 'kind': label, 'text': text.hex(), 'vars': [], 'execdir': None, 'stdin': stdin.hex(),
                      'which': rng.choice(['config', 'config', 'config', 'list']), 'lane': 'reentry'})
    env = dict(os.environ, LC_ALL='C')
    env.pop('EXECDIR', None)

    def one(c):
        conf = cc.write_case_files(world, c)
        if c['which'] == 'config':
            return execp([os.path.join(impl, 'robsd-config'), '-m', c['mode'], '-C', conf, '-'], stdin=world.sub(bytes.fromhex(c['stdin'])), env=env)
        return execp([os.path.join(impl, 'robsd-step'), '-L', '-m', c['mode'], '-C', conf], env=env)
    with ThreadPoolExecutor(16) as ex:
        obs = list(ex.map(one, cases))
    # the model: robsd-config on the same text; for robsd-step -L only the parse (empty template) matters
    qs = [(i, ['cfg', c['mode'], common.hexs(world.sub(bytes.fromhex(c['text']))), '0',
               common.hexs(world.sub(bytes.fromhex(c['stdin'])) if c['which'] == 'config' else b'')]) for i, c in enumerate(cases)]
    answers, _ = cc.driver_rounds(world, drv, qs, cases, lambda pre, envt: ' '.join(pre + envt))
    for c, (rc, out, err), a in zip(cases, obs, answers):
        mf = a.split()
        trap = len(mf) > 2 and mf[2] == '1'
        died = bool(STACK.search(err)) or rc < 0 or rc > 128
        stack = bool(STACK.search(err)) or rc in (-11, 139)
        if rc in (-998, -999):
            judge(res, 'robsd-%s reentry' % c['which'], c, rc, out, err)
            continue
        if died and not trap and stack:
            # the model (with the body the translator found in the source) does not flag the trap but the implementation recurses
            res.oracle_failures.append({'case': c, 'signature': D21_SIG, 'lane': 'reentry',
                                        'what': 'robsd-%s dies of stack exhaustion where the model exits %s' % (c['which'], mf[0])})
            res.evaluations += 1
            res.count('reentry %s %s: model exit %s, impl dies' % (c['which'], c['kind'], mf[0]))
            continue
        res.evaluations += 1
        res.count('reentry %s %s: model %s, impl %s' % (c['which'], c['kind'], 'trap' if trap else 'exit ' + mf[0], 'dies' if died else 'exit %s' % rc))
        if trap and died and not stack:
            # another trap site than the unbounded recursion (SIGILL of __builtin_trap, SIGABRT of an assert)
            judge(res, 'robsd-%s reentry' % c['which'], c, rc, out, err)
            res.evaluations -= 1
        elif trap and died:
            res.oracle_failures.append({'case': c, 'signature': D21_SIG, 'lane': 'reentry',
                                        'what': 'robsd-%s dies of stack exhaustion: ${builddir} needed while ${builddir} is being computed' % c['which']})
        elif trap and not died:
            res.tie_errors.append('the model flags a trap (config_default_build_dir re-entered) where robsd-%s exits %s: %r'
                                  % (c['which'], rc, bytes.fromhex(c['text'])[:120]))
        else:
            ok = judge(res, 'robsd-%s reentry' % c['which'], c, rc, out, err)
            res.evaluations -= 1
            if ok and c['which'] == 'config' and (mf[0] != str(rc) or mf[1] != common.hexs(out)):
                res.disagreements.append({'case': c, 'model': a[:200], 'impl': ('%d %s' % (rc, common.hexs(out)))[:200]})
            if ok and c['which'] == 'list' and (mf[0] == '1') != (rc == 1) and mf[0] == '1':
                res.disagreements.append({'case': c, 'model': 'configuration rejected', 'impl': 'robsd-step -L exit %s' % rc})
        if rc == 0:
            res.nontrivial.add(hashlib.sha1(bytes.fromhex(c['text']) + bytes.fromhex(c['stdin'])).hexdigest())


# ---- fan-out -------------------------------------------------------------------------------------------------------------
def fanout_inputs(case, root, impl, work, idx):
    """a fan-out case -> (argv, stdin, expected stdout or None).  via = argv: -v a=(${b})^F ...; conf: string variables of
    robsd.conf referring to each other; step: fields of a step file referring to each other (robsd-step -R)"""
    F, levels, leaf = case['F'], case['levels'], bytes.fromhex(case['leaf'])
    ref = lambda nme: b'${' + nme + b'}'
    expansions = F ** levels
    expected = (leaf * expansions + b'\n') if expansions * max(1, len(leaf)) <= 40 * 10 ** 6 else None
    if case['via'] == 'argv':
        names = [b'a', b'b', b'c'][:levels]
        conf = os.path.join(work, 'fan%d.conf' % idx)
        open(conf, 'w').write('canvas-name "t"\ncanvas-dir "%s"\nstep "s" command { "true" }\n' % root)
        argv = [os.path.join(impl, 'robsd-config'), '-m', 'canvas', '-C', conf]
        for i, nme in enumerate(names[:-1]):
            argv += ['-v', nme + b'=' + ref(names[i + 1]) * F]
        argv += ['-v', names[-1] + b'=' + leaf, '-']
        return argv, ref(names[0]) * F + b'\n', expected, [conf]
    if case['via'] == 'conf':
        names = [b'cvs-root', b'distrib-host', b'distrib-path'][:levels]
        conf = os.path.join(work, 'fan%d.conf' % idx)
        text = b'robsddir "%s"\ndestdir "%s"\n' % (root.encode(), root.encode())
        for i, nme in enumerate(names[:-1]):
            text += nme + b' "' + ref(names[i + 1]) * F + b'"\n'
        text += names[-1] + b' "' + leaf + b'"\n'
        open(conf, 'wb').write(text)
        return [os.path.join(impl, 'robsd-config'), '-m', 'robsd', '-C', conf, '-'], ref(names[0]) * F + b'\n', expected, [conf]
    names = [b'name', b'log', b'user'][:levels]
    vals = {}
    for i, nme in enumerate(names[:-1]):
        vals[nme] = ref(names[i + 1]) * F
    vals[names[-1]] = leaf
    p = os.path.join(work, 'fan%d.csv' % idx)
    open(p, 'wb').write(b'step,name,exit,duration,delta,log,user,time,skip\n1,%s,0,5,0,%s,%s,1700000000,0\n'
                        % (vals.get(b'name', b'n'), vals.get(b'log', b''), vals.get(b'user', b'root')))
    return [os.path.join(impl, 'robsd-step'), '-R', '-f', p, '-i', '1'], ref(names[0]) * F + b'\n', expected, [p]


def lane_fanout(ctx, impl_asan, work, res, rng, n):
    """expansion blow-up: the depth limit allows template -> value -> value -> leaf; with F references per value the result
    holds F^3 copies of the leaf (Interp/InterpCost.v: interp_output_bound, fanout_exact).  Small instances must be exact and
    prompt; an instance of >= FANOUT_MIN expansions that does not finish within the limit is the recorded finding
    `interpolation-fanout-not-prompt`, a smaller one that does not finish is an unexplained hang."""
    impl = ctx.build_impl()                          # plain build: ASan cannot run under RLIMIT_AS
    root = config_world(work, 'froot')
    cases = [dict(c) for c in load_corpus() if c['lane'] == 'fanout']
    if not any(c['F'] ** c['levels'] >= FANOUT_MIN for c in cases):
        res.tie_errors.append('corpus/C12 holds no fan-out witness of at least %d expansions' % FANOUT_MIN)
    for _ in range(max(10, n // 25)):
        levels = rng.choice([1, 2, 3, 3])
        leaf = rng.choice([b'x', b'x', b'leaf', b'', b'y' * 50])
        emax = 200000 // max(1, len(leaf))
        F = rng.randint(2, max(2, int(emax ** (1.0 / levels))))
        if levels == 1 and F > 4000:
            F = 4000
        via = rng.choice(['argv', 'conf', 'step'])
        if via in ('step', 'conf') and leaf == b'':
            leaf = b'r'                          # an empty string is rejected by the configuration grammar; step fields likewise
        cases.append({'lane': 'fanout', 'via': via, 'F': F, 'levels': levels, 'leaf': leaf.hex(), 'kind': 'generated'})

    def one(ic):
        i, c = ic
        argv, stdin, expected, files = fanout_inputs(c, root, impl, work, i)
        r = execp(argv, stdin=stdin, env=dict(os.environ, EXECDIR=impl), mem=1 << 30)
        for f in files:
            os.unlink(f)
        return r, expected
    with ThreadPoolExecutor(8) as ex:
        obs = list(ex.map(one, enumerate(cases)))
    for c, ((rc, out, err), expected) in zip(cases, obs):
        e = c['F'] ** c['levels']
        res.evaluations += 1
        bucket = '>= 1e7' if e >= FANOUT_MIN else ('>= 1e5' if e >= 10 ** 5 else '< 1e5')
        res.count('fan-out via %s, %s expansions: %s' % (c['via'], bucket, 'time limit' if rc in (-998, -999) else 'exit %s' % rc))
        if rc in (-998, -999) and e >= FANOUT_MIN:
            res.oracle_failures.append({'case': c, 'signature': FANOUT_SIG, 'lane': 'fanout',
                                        'what': '%d references per value on %d levels = %d expansions: not finished after %d s (input: %d bytes)'
                                                % (c['F'], c['levels'], e, TIME_LIMIT, 4 * c['F'] * c['levels'] + len(c['leaf']) // 2)})
            continue
        if not judge(res, 'fan-out via %s' % c['via'], c, rc, out, err):
            res.evaluations -= 1
            continue
        res.evaluations -= 1
        if rc == 0 and expected is not None and out != expected:
            res.oracle_failures.append({'case': c, 'signature': 'fanout-result', 'lane': 'fanout',
                                        'what': 'result is not the leaf %d times: %d bytes, expected %d' % (e, len(out), len(expected))})
        if rc == 1 and b'Cannot allocate memory' not in err:
            res.oracle_failures.append({'case': c, 'signature': 'fanout-rejected', 'lane': 'fanout',
                                        'what': 'a well-formed fan-out within the depth limit is rejected: %r' % err[-200:]})
        if rc == 0 and e >= 1000:
            res.nontrivial.add('fanout-%s-%d-%d-%s' % (c['via'], c['F'], c['levels'], c['leaf'][:16]))


def lane_fuzz(ctx, impl, work, res, rng, n):
    """coverage-guided: libFuzzer on its own instrumented scratch build (harness/c12_fuzz.py)"""
    import c12_fuzz
    c12_fuzz.lane_fuzz(ctx, impl, work, res, rng, n)


LANES = [lane_seeds, lane_step, lane_regress, lane_config, lane_interp, lane_report, lane_html, lane_reentry, lane_fanout, lane_fuzz]


def run_all(ctx, res, n, fuzz=True):
    impl = ctx.build_impl('-fsanitize=address,undefined -fno-sanitize-recover=all -g -O1', cc='clang', ldflags='-fsanitize=address,undefined')
    os.environ.setdefault('ASAN_OPTIONS', 'detect_leaks=0:abort_on_error=0')
    os.environ.setdefault('UBSAN_OPTIONS', 'print_stacktrace=0')
    work = ctx.mkscratch('c12')
    for lane in LANES:
        if lane is lane_fuzz and not fuzz:
            continue
        before = res.evaluations
        lane(ctx, impl, work, res, ctx.rng, n)
        if res.evaluations == before:
            res.tie_errors.append('%s produced no verdict' % lane.__name__)


def run(ctx, n=None, fuzz=True):
    res = common.Result()
    res.rule = ('clang ASan+UBSan build of robsd-config, robsd-step, robsd-ls, robsd-hook, robsd-report, robsd-regress-log, robsd-regress-html; inputs = grammar-derived seeds '
                'of the five configuration grammars (each asserted to be accepted by every tool before mutation), step files, regress logs, templates, '
                'report build directories, regress-html invocation trees, each with 0-6 byte-level mutations (NUL, quotes, braces, $, commas, deletions, repeated segments '
                'up to 70 kB tokens, huge integers, deep nesting, truncation) plus raw random bytes; long values referenced several times; fan-out of references on up to '
                'three levels (plain build under a 1 GiB address-space limit); one 5 s limit per execution in every lane; non-trivial = the mutated input was still accepted '
                '(exit 0); distinct by content hash.  Coverage-guided lane: libFuzzer targets (repository fuzz-config x five modes, fuzz-step; harness conf, stepread, interp, '
                'regresslog, report) seeded with the same grammar-derived seeds, executions / edge coverage / corpus size per target under coverage.fuzz')
    res.assumptions = TRUSTED[:2]
    n = n or ctx.budget(500, 12000)
    run_all(ctx, res, n, fuzz)
    res.samples = [{'lanes': [l.__name__ for l in LANES], 'per_lane': n}]
    res.traces_validated = res.evaluations
    return res


def extended_search(ctx, res, proof):
    return run(ctx, n=2500, fuzz=False)


def replay(ctx, rep):
    case = rep.get('case') or {}
    lane = case.get('lane')
    res = common.Result()
    if lane == 'fuzz':
        import c12_fuzz
        return c12_fuzz.replay(ctx, case)
    if lane == 'fanout':
        impl = ctx.build_impl()
        work = ctx.mkscratch('c12r')
        root = config_world(work, 'froot')
        argv, stdin, expected, files = fanout_inputs(case, root, impl, work, 0)
        import time
        t = time.time()
        rc, out, err = execp(argv, stdin=stdin, env=dict(os.environ, EXECDIR=impl), mem=1 << 30)
        print('fan-out via %s: %d references per value, %d levels, leaf of %d bytes; argv %d bytes, template %d bytes'
              % (case['via'], case['F'], case['levels'], len(case['leaf']) // 2, sum(len(a) for a in argv), len(stdin)))
        print('exit %s after %.1f s (limit %d s), %d bytes of output, stderr %r' % ('TIME LIMIT' if rc == -998 else rc, time.time() - t, TIME_LIMIT, len(out), err[-200:]))
        bad = rc not in (0, 1) or (rc == 0 and expected is not None and out != expected)
        print('VIOLATION reproduced' if bad else 'no violation')
        return 1 if bad else 0
    if lane != 'reentry':
        # every other lane: the same input on a sanitizer build of the tree as it is now, judged by the same oracle
        impl = ctx.build_impl('-fsanitize=address,undefined -fno-sanitize-recover=all -g -O1', cc='clang', ldflags='-fsanitize=address,undefined')
        os.environ.setdefault('ASAN_OPTIONS', 'detect_leaks=0:abort_on_error=0')
        os.environ.setdefault('UBSAN_OPTIONS', 'print_stacktrace=0')
        work = ctx.mkscratch('c12r')
        env = dict(os.environ, EXECDIR=impl)
        ok_codes = (0, 1)
        if lane == 'step':
            p = os.path.join(work, 's.csv')
            open(p, 'wb').write(bytes.fromhex(case['file']))
            what = 'robsd-step -R -f <file> %s' % ' '.join(case['sel'])
            rc, out, err = execp([os.path.join(impl, 'robsd-step'), '-R', '-f', p] + case['sel'], stdin=bytes.fromhex(case['template']))
        elif lane in ('config', 'list', 'ls', 'hook'):
            root = config_world(work)
            make_hookprobe(root)
            p = os.path.join(work, 'c.conf')
            # generated cases hold the scratch root of their run as @R@; the hook probe path is re-created under the same name
            open(p, 'wb').write(bytes.fromhex(case['config']).replace(b'@R@', root.encode()))
            what = 'robsd-%s -m %s' % (lane, case['mode'])
            rc, out, err = run_tool(impl, lane, case['mode'], p, bytes.fromhex(case['template']), env)
        elif lane == 'interp':
            root = os.path.join(work, 'iroot')
            os.makedirs(root)
            conf = os.path.join(work, 'i.conf')
            open(conf, 'w').write('canvas-name "t"\ncanvas-dir "%s"\nstep "s" command { "true" }\n' % root)
            what = 'robsd-config -m canvas -v ... -'
            rc, out, err = c09.run_cmd(impl, conf, case, timeout=TIME_LIMIT)
        elif lane == 'report':
            root = os.path.join(work, 'r')
            os.makedirs(root)
            conf, bd = report_dir(root, case['mode'], seeds_config(root, case['mode']), bytes.fromhex(case['steps']), bytes.fromhex(case['log']),
                                  bytes.fromhex(case['comment']), bytes.fromhex(case['tags']))
            what = 'robsd-report -m %s' % case['mode']
            rc, out, err = execp([os.path.join(impl, 'robsd-report'), '-m', case['mode'], '-C', conf, bd], env=env)
        elif lane == 'regress':
            p = os.path.join(work, 'log0')
            open(p, 'wb').write(bytes.fromhex(case['files'][0]))
            what = 'robsd-regress-log'
            rc, out, err = execp([os.path.join(impl, 'robsd-regress-log'), c13.flag_args(case['flags'], case['doprint']), p])
            ok_codes = (0, 1)
            if rc == 1 and not err.strip():
                err = b'(exit 1 = nothing extracted)'
        elif lane == 'html':
            import c14_fixture as fx
            root = os.path.join(work, 'h')
            os.makedirs(root)
            what = 'robsd-regress-html'
            rc, err, _ = fx.run_impl(os.path.join(impl, 'robsd-regress-html'), root, case, timeout=TIME_LIMIT, env=dict(os.environ))
            out = b''
        else:
            print(json.dumps(rep, indent=1)[:3000])
            return 1
        judge(res, what, case, rc, out, err, ok_codes)
        print('%s: exit %s, %d bytes on stdout, stderr: %s' % (what, 'TIME LIMIT' if rc in (-998, -999) else rc, len(out), err[-700:].decode('latin1')))
        for f in res.oracle_failures:
            print('oracle: %s - %s' % (f['signature'], f['what'][:300]))
        if lane == 'report' and case['mode'] == 'robsd-regress' and rc == 1 and not err.strip() and names_missing_log(bytes.fromhex(case['steps'])):
            print('oracle: %s' % MISSING_LOG_SIG)
            return 1
        print('VIOLATION reproduced' if res.oracle_failures else 'no violation')
        return 1 if res.oracle_failures else 0
    # the reentry lane replays: same configuration, same template, sanitizer build of the tree as it is now
    ctx.regen(TRANSLATORS)
    impl = ctx.build_impl('-fsanitize=address,undefined -fno-sanitize-recover=all -g -O1', cc='clang', ldflags='-fsanitize=address,undefined')
    os.environ.setdefault('ASAN_OPTIONS', 'detect_leaks=0:abort_on_error=0')
    import conf_common as cc
    world = cc.World(ctx, impl)
    conf = cc.write_case_files(world, case)
    env = dict(os.environ, LC_ALL='C')
    if case['which'] == 'config':
        rc, out, err = execp([os.path.join(impl, 'robsd-config'), '-m', case['mode'], '-C', conf, '-'], stdin=world.sub(bytes.fromhex(case['stdin'])), env=env)
    else:
        rc, out, err = execp([os.path.join(impl, 'robsd-step'), '-L', '-m', case['mode'], '-C', conf], env=env)
    print('configuration:\n' + world.sub(bytes.fromhex(case['text'])).decode('latin1'))
    print('template: %r' % bytes.fromhex(case['stdin']))
    print('exit %s\nstdout %r\nstderr %s' % (rc, out[:200], err[-600:].decode('latin1')))
    bad = bool(SAN.search(err)) or rc not in (0, 1)
    print('VIOLATION reproduced' if bad else 'no violation')
    return 1 if bad else 0
