/* C12 libFuzzer target: the configuration reader AND what the helpers do with a parsed configuration.
 * The repository's own fuzz-config.c stops after config_parse; nothing behind the parse (defaults computed on
 * demand, interpolation of values, the step schedule, the hook command) is reached by it.
 * Input: <mode> <what> <configuration> SEP <template>
 *   mode % 5: robsd robsd-cross robsd-ports robsd-regress canvas
 *   what bit 0: robsd-config -m mode -C conf -v x=${robsddir} -v target=amd64 -v step-name=a -   (template)
 *        bit 1: robsd-step -L                (config_get_steps)
 *        bit 2: robsd-hook up to the exec    (every word of the hook interpolated)
 *        bit 3: robsd-ls up to the directory scan (${robsddir}, ${keep-dir})
 *   (no bit set: all four) */
#include "config.h"

#include "c12_fuzz_common.h"

#include "libks/arena.h"
#include "libks/vector.h"

#include "conf.h"
#include "interpolate.h"
#include "log.h"

static struct arena *eternal, *scratch;

int LLVMFuzzerInitialize(int *, char ***);
int LLVMFuzzerTestOneInput(const uint8_t *, size_t);

int
LLVMFuzzerInitialize(int *argc, char ***argv)
{
	(void)argc;
	(void)argv;
	log_disable();
	eternal = arena_alloc();
	scratch = arena_alloc();
	return 0;
}

static struct config *
load(const char *mode, const char *path, struct arena_scope *es)
{
	static const char *const vars[] = { "x=${robsddir}", "target=amd64", "step-name=a", "step-exit=0" };
	struct config *config;

	config = config_alloc(mode, path, es, scratch);
	if (config == NULL)
		__builtin_trap();
	if (config_parse(config)) {
		config_free(config);
		return NULL;
	}
	for (size_t i = 0; i < sizeof(vars) / sizeof(vars[0]); i++) {
		if (config_append_var(config, vars[i])) {
			config_free(config);
			return NULL;
		}
	}
	return config;
}

int
LLVMFuzzerTestOneInput(const uint8_t *data, size_t size)
{
	struct c12_part parts[2];
	struct c12_file fconf, ftmpl;
	const char *mode;
	unsigned int what;

	if (size < 2)
		return 0;
	mode = c12_modes[data[0] % 5];
	what = data[1] & 0x0fu;
	if (what == 0)
		what = 0x0fu;
	c12_split(data + 2, size - 2, parts, 2);
	c12_file_open(&fconf, &parts[0]);

	if (what & 1u) {
		struct config *config;

		arena_scope(eternal, es);
		config = load(mode, fconf.path, &es);
		if (config != NULL) {
			c12_file_open(&ftmpl, &parts[1]);
			(void)config_interpolate_file(config, ftmpl.path);
			c12_file_close(&ftmpl);
			config_free(config);
		}
	}
	if (what & 2u) {
		struct config *config;

		arena_scope(eternal, es);
		arena_scope(scratch, s);
		config = load(mode, fconf.path, &es);
		if (config != NULL) {
			const struct config_step *steps;

			steps = config_get_steps(config, 0, &s);
			if (steps != NULL) {
				for (size_t i = 0; i < VECTOR_LENGTH(steps); i++) {
					if (steps[i].name == NULL)
						__builtin_trap();
				}
			}
			config_free(config);
		}
	}
	if (what & 4u) {
		struct config *config;

		arena_scope(eternal, es);
		config = load(mode, fconf.path, &es);
		if (config != NULL) {
			VECTOR(char *) hook;

			hook = config_value(config, "hook", list, NULL);
			for (size_t i = 0; hook != NULL && i < VECTOR_LENGTH(hook); i++) {
				const char *arg;

				arg = interpolate_str(hook[i], &(struct interpolate_arg){
				    .lookup	= config_interpolate_lookup,
				    .arg	= config,
				    .eternal	= &es,
				    .scratch	= scratch,
				});
				if (arg == NULL)
					break;
			}
			config_free(config);
		}
	}
	if (what & 8u) {
		struct config *config;

		arena_scope(eternal, es);
		config = load(mode, fconf.path, &es);
		if (config != NULL) {
			if (config_interpolate_str(config, "${robsddir}") != NULL)
				(void)config_interpolate_str(config, "${keep-dir}");
			config_free(config);
		}
	}

	c12_file_close(&fconf);
	return 0;
}
