"""Translator util.sh / util-regress.sh / entry scripts -> coq/gen/Gen_Shell.v: the shell decisions the models of
C03 (step_next, the loop of robsd(), step_exec_job, the skip records of the entry scripts) and C18 (duration_total,
regress_duration_total) transcribe.

Each function body is normalised (comments and `local` lines dropped, white space squeezed) and matched line by line
against anchored patterns; the variable parts - test operators (-eq -ne -gt -ge -lt -le), integer literals, the
string the step name is compared with, the +N / -N of the arithmetic, the option values of the step_write calls - are
captured and written out as Coq definitions, so that an edit of one of them changes a definition (and breaks the proof
that the hand-written model equals the generated one) while any other edit of these lines raises here.

Anything that no longer matches raises: the tie is reported as broken rather than guessed."""
import os, re

OPS = {'-eq': '(%s =? %s)', '-ne': 'negb (%s =? %s)', '-gt': '(%s <? %s)', '-ge': '(%s <=? %s)',
       '-lt': '(%s <? %s)', '-le': '(%s <=? %s)'}


def coq_test(op, var, lit):
    """[ var op lit ] as a Coq boolean"""
    lit = coq_z(lit)
    if op in ('-gt', '-ge'):
        return OPS[op] % (lit, var)
    return OPS[op] % (var, lit)


def coq_z(n):
    n = int(n)
    return '(%d)' % n if n < 0 else '%d' % n


def coq_bytes(s):
    return '[' + '; '.join(str(b) for b in s.encode()) + ']%N'


def func_body(src, name, what='util.sh'):
    m = re.search(r'^%s\(\) [{(]\n(.*?)^[})]\n' % re.escape(name), src, re.S | re.M)
    if not m:
        raise ValueError('%s: function %s not found' % (what, name))
    return m.group(1)


def norm(body, keep_local=False):
    lines = []
    for l in body.split('\n'):
        l = re.sub(r'\s+', ' ', l.strip())
        if not l or l.startswith('#'):
            continue
        if l.startswith('local ') and not keep_local:
            continue
        lines.append(l)
    return lines


def local_init(body, var, fn):
    m = re.search(r'^\s*local %s=(-?\d+)\s*$' % re.escape(var), body, re.M)
    if not m:
        raise ValueError('util.sh %s: `local %s=<int>` not found' % (fn, var))
    return int(m.group(1))


class Matcher:
    def __init__(self, fn, lines):
        self.fn, self.lines, self.i = fn, lines, 0

    def lit(self, *want):
        for w in want:
            if self.i >= len(self.lines) or self.lines[self.i] != w:
                raise ValueError('util.sh %s: line %d is %r, expected %r' % (
                    self.fn, self.i + 1, self.lines[self.i] if self.i < len(self.lines) else None, w))
            self.i += 1

    def rx(self, pattern):
        if self.i >= len(self.lines):
            raise ValueError('util.sh %s: body ends before /%s/' % (self.fn, pattern))
        m = re.fullmatch(pattern, self.lines[self.i])
        if not m:
            raise ValueError('util.sh %s: line %d is %r, expected /%s/' % (self.fn, self.i + 1, self.lines[self.i], pattern))
        self.i += 1
        return m

    def skip_until(self, line):
        while self.i < len(self.lines) and self.lines[self.i] != line:
            self.i += 1
        if self.i >= len(self.lines):
            raise ValueError('util.sh %s: %r not found' % (self.fn, line))

    def end(self):
        if self.i != len(self.lines):
            raise ValueError('util.sh %s: unexpected trailing lines %r' % (self.fn, self.lines[self.i:]))


OP = r'(-eq|-ne|-gt|-ge|-lt|-le)'
INT = r'(-?\d+)'


def arith(expr, var, fn):
    """${var}, $((var + N)), $((var - N)) -> Coq term over `step`"""
    if expr == '"${%s}"' % var:
        return 'step'
    m = re.fullmatch(r'\$\(\(%s ([+-]) (\d+)\)\)' % re.escape(var), expr)
    if not m:
        raise ValueError('util.sh %s: unrecognised echo argument %r' % (fn, expr))
    return '(step %s %s)' % (m.group(1), m.group(2))


def parse_step_skip(src):
    b = Matcher('step_skip', norm(func_body(src, 'step_skip')))
    b.lit('_skip="$(step_value skip 2>/dev/null)"')
    m = b.rx(r'\[ "\$\{_skip\}" %s %s \]' % (OP, INT))
    b.end()
    return coq_test(m.group(1), 'skip', m.group(2))


def parse_step_next(src):
    body = func_body(src, 'step_next')
    start = local_init(body, '_i', 'step_next')
    b = Matcher('step_next', norm(body))
    b.lit('_file="$1"; : "${_file:?}"')
    m = b.rx(r'while step_eval "(-?)\$\{_i\}" "\$\{_file\}"; do')
    backwards = m.group(1) == '-'
    m = b.rx(r'_i="\$\(\(_i \+ (\d+)\)\)"')
    incr = int(m.group(1))
    m = b.rx(r'if \[ "\$\(step_value skip 2>/dev/null\)" %s %s \]; then' % (OP, INT))
    skip_test = coq_test(m.group(1), 'skip', m.group(2))
    b.lit('continue', 'fi', '_step="$(step_value step)"', '_exit="$(step_value exit)"')
    m = b.rx(r'if \[ "\$\{_exit\}" %s %s \]; then' % (OP, INT))
    failed_test = coq_test(m.group(1), 'exit', m.group(2))
    m = b.rx(r'echo (.+)')
    on_failed = arith(m.group(1), '_step', 'step_next')
    m = b.rx(r'elif \[ "\$\(step_value name\)" (=|!=) "([^"$`\\]*)" \]; then')
    name_eq, end_name = m.group(1) == '=', m.group(2)
    m = b.rx(r'echo (.+)')
    on_end = arith(m.group(1), '_step', 'step_next')
    b.lit('else')
    m = b.rx(r'echo (.+)')
    otherwise = arith(m.group(1), '_step', 'step_next')
    b.lit('fi', 'return 0', 'done', 'echo "step_next: cannot find next step" 1>&2')
    m = b.rx(r'return %s' % INT)
    fail_status = int(m.group(1))
    b.end()
    return dict(start=start, backwards=backwards, incr=incr, skip_test=skip_test, failed_test=failed_test, on_failed=on_failed,
                name_test=('beq name %s' if name_eq else 'negb (beq name %s)') % coq_bytes(end_name), on_end=on_end,
                otherwise=otherwise, fail_status=fail_status)


def parse_step_write(src):
    body = func_body(src, 'step_write')
    default = local_init(body, '_skip', 'step_write')
    m = re.search(r'^\s*-S\)\s+_skip="(-?\d+)";;\s*$', body, re.M)
    if not m:
        raise ValueError('util.sh step_write: the -S case no longer sets _skip to a literal')
    flag = int(m.group(1))
    call = re.search(r'"\$\{ROBSDSTEP\}" -W -f "\$\{_file\}" -i "\$\{_s\}" -- \\\n(.*?)\n\}', body + '\n}', re.S)
    if not call:
        raise ValueError('util.sh step_write: robsd-step -W call changed')
    args = [re.sub(r'\s*\\$', '', l.strip()) for l in call.group(1).split('\n') if l.strip()]
    want = ['"name=${_name}"', '"exit=${_exit}"', '"duration=${_duration}"', '${_delta:+delta=${_delta}}', '${_log:+log=${_log}}',
            '"user=${_user}"', '${_time:+time=${_time}}', '"skip=${_skip}"']
    if args != want:
        raise ValueError('util.sh step_write: arguments of robsd-step -W changed: %r' % args)
    if len(re.findall(r'_skip=', body)) != 2:
        raise ValueError('util.sh step_write: _skip is assigned somewhere else than its default and the -S case')
    return default, flag


def parse_step_exec_job(src):
    lines = norm(func_body(src, 'step_exec_job'))
    b = Matcher('step_exec_job', lines)
    b.skip_until('_log="$(log_id -b "${_builddir}" -n "${_name}" -s "${_id}")"')
    b.lit('_log="$(log_id -b "${_builddir}" -n "${_name}" -s "${_id}")"', '_t0="$(date \'+%s\')"')
    m = b.rx(r'step_write -t -l "\$\{_log\}" -s "\$\{_id\}" -n "\$\{_name\}" -e %s -d %s "\$\{_steps\}"' % (INT, INT))
    inflight_exit, inflight_duration = int(m.group(1)), int(m.group(2))
    b.lit('step_exec -l "${_builddir}/${_log}" -s "${_name}" || _exit="$?"', '_t1="$(date \'+%s\')"', '_d1="$((_t1 - _t0))"',
          '_d0="$(duration_prev "${_name}" || :)"', 'if [ -n "${_d0}" ]; then', '_delta="$((_d1 - _d0))"', 'else', '_delta=0', 'fi',
          'step_write -l "${_log}" -s "${_id}" -n "${_name}" -e "${_exit}" -d "${_d1}" \\', '-a "${_delta}" "${_steps}"',
          'robsd_hook -v "step-exit=${_exit}" -v "step-name=${_name}"', 'case "${_MODE}" in', 'robsd-regress)',
          'regress_step_after -b "${_builddir}" -e "${_exit}" -n "${_name}" || return 1', ';;', '*)')
    m = b.rx(r'\[ "\$\{_exit\}" %s %s \] \|\| return 1' % (OP, INT))
    job_ok = coq_test(m.group(1), 'e', m.group(2))
    b.lit(';;', 'esac')
    b.end()
    if not re.search(r'^\s*local _exit=0\s*$', func_body(src, 'step_exec_job'), re.M):
        raise ValueError('util.sh step_exec_job: `local _exit=0` not found')
    return inflight_exit, inflight_duration, job_ok


def parse_robsd_loop(src):
    lines = norm(func_body(src, 'robsd'))
    txt = '\n'.join(lines)
    if 'steps -o "${_step}" | while read -r _step _name _parallel; do' not in lines:
        raise ValueError('util.sh robsd: the loop no longer reads `steps -o "${_step}"`')
    if 'if step_eval -n "${_name}" "${_steps}" 2>/dev/null &&\nstep_skip; then\ninfo "step ${_name} skipped"\ncontinue\nfi' not in txt:
        raise ValueError('util.sh robsd: the skip test (step_eval -n name && step_skip => continue) changed')
    m = re.search(r'if \[ "\$\{_name\}" = "([^"$`\\]*)" \]; then\n_d1="\$\(duration_total -s "\$\{_steps\}"\)"\n'
                  r'_d0="\$\(duration_prev "\$\{_name\}" \|\| :\)"\nif \[ -n "\$\{_d0\}" \]; then\n_delta="\$\(\(_d1 - _d0\)\)"\nelse\n_delta=0\nfi\n'
                  r'step_write -t -s "\$\{_step\}" -n "\$\{_name\}" -e (-?\d+) \\\n-d "\$\{_d1\}" -a "\$\{_delta\}" "\$\{_steps\}"\nreturn 0\nfi\n'
                  r'step_exec_job -b "\$\{_builddir\}" -s "\$\{_steps\}" \\\n-i "\$\{_step\}" -n "\$\{_name\}"\nfi', txt)
    if not m:
        raise ValueError('util.sh robsd: the end step / synchronous step part of the loop changed')
    return m.group(1), int(m.group(2))


def parse_skip_writers(repo):
    vals = set()
    for script in ('canvas', 'robsd', 'robsd-cross', 'robsd-ports'):
        src = open(os.path.join(repo, script)).read()
        sites = re.findall(r'^\s*step_write .*-S.*$', src, re.M) + re.findall(r'^\s*step_write -S.*$', src, re.M)
        sites = sorted(set(sites))
        if len(sites) != 1:
            raise ValueError('%s: expected exactly one step_write -S call, found %d' % (script, len(sites)))
        m = re.fullmatch(r'\s*step_write -S -t -s "\$\{_id\}" -n "\$\{_skip\}" -e (-?\d+) -d (-?\d+) -l "" \\', sites[0])
        if not m:
            raise ValueError('%s: the step_write -S call changed: %r' % (script, sites[0]))
        vals.add((int(m.group(1)), int(m.group(2))))
        if not re.search(r'if \[ "\$\{_step\}" -eq 1 \]; then', src):
            raise ValueError('%s: skip records are no longer written under `[ "${_step}" -eq 1 ]`' % script)
    for script in ('robsd-regress',):
        src = open(os.path.join(repo, script)).read()
        if re.search(r'step_write', src):
            raise ValueError('%s: writes step records itself' % script)
    # no other writer of skip records anywhere in the shell code
    for f in sorted(os.listdir(repo)):
        p = os.path.join(repo, f)
        if not os.path.isfile(p) or f in ('canvas', 'robsd', 'robsd-cross', 'robsd-ports', 'util.sh'):
            continue
        try:
            head = open(p, 'rb').read(4096)
        except OSError:
            continue
        if head.startswith(b'#!/bin/') or f.endswith('.sh'):
            if re.search(rb'step_write\s', open(p, 'rb').read()):
                raise ValueError('%s: calls step_write (not covered by the writer model)' % f)
    if len(vals) != 1:
        raise ValueError('the entry scripts write different skip records: %r' % sorted(vals))
    return vals.pop()


def parse_duration_total(src):
    body = func_body(src, 'duration_total')
    start, init = local_init(body, '_i', 'duration_total'), local_init(body, '_tot', 'duration_total')
    b = Matcher('duration_total', norm(body))
    b.lit('while [ $# -gt 0 ]; do', 'case "$1" in', '-s) shift; _steps="$1";;', '*) break;;', 'esac', 'shift', 'done', ': "${_steps:?}"',
          'case "${_MODE}" in')
    m = b.rx(r'([a-z-]+)\)')
    regress_mode = m.group(1)
    b.lit('regress_duration_total -s "${_steps}"', 'return 0', ';;', '*)', ';;', 'esac',
          'while step_eval "${_i}" "${_steps}" 2>/dev/null; do')
    m = b.rx(r'_i=\$\(\(_i \+ (\d+)\)\)')
    incr = int(m.group(1))
    b.lit('step_skip && continue')
    m = b.rx(r'\[ "\$\(step_value name\)" (=|!=) "([^"$`\\]*)" \] && continue')
    name_test = ('beq name %s' if m.group(1) == '=' else 'negb (beq name %s)') % coq_bytes(m.group(2))
    b.lit('_d="$(step_value duration)"')
    m = b.rx(r'_tot=\$\(\(_tot ([+-]) _d\)\)')
    acc_op = m.group(1)
    b.lit('done', 'echo "${_tot}"')
    b.end()
    return dict(start=start, init=init, regress_mode=regress_mode, incr=incr, name_test=name_test, acc_op=acc_op)


def parse_regress_total(repo):
    src = open(os.path.join(repo, 'util-regress.sh')).read()
    body = func_body(src, 'regress_duration_total', 'util-regress.sh')
    t0, t1 = local_init(body, '_t0', 'regress_duration_total'), local_init(body, '_t1', 'regress_duration_total')
    b = Matcher('regress_duration_total', norm(body))
    b.lit('while [ $# -gt 0 ]; do', 'case "$1" in', '-s) shift; _steps="$1";;', '*) break;;', 'esac', 'shift', 'done', ': "${_steps:?}"')
    m = b.rx(r'if step_eval %s "\$\{_steps\}" 2>/dev/null; then' % INT)
    first = int(m.group(1))
    b.lit('_t0="$(step_value time)"', 'fi')
    m = b.rx(r'if step_eval %s "\$\{_steps\}" 2>/dev/null; then' % INT)
    last = int(m.group(1))
    b.lit('_t1="$(step_value time)"', 'fi')
    m = b.rx(r'echo "\$\(\((_t[01]) - (_t[01])\)\)"')
    b.end()
    return dict(t0=t0, t1=t1, first=first, last=last, minuend=m.group(1), subtrahend=m.group(2))


def generate(repo):
    src = open(os.path.join(repo, 'util.sh')).read()
    skip_test = parse_step_skip(src)
    sn = parse_step_next(src)
    skip_default, skip_flag = parse_step_write(src)
    inflight_exit, inflight_duration, job_ok = parse_step_exec_job(src)
    loop_end, end_exit = parse_robsd_loop(src)
    skip_exit, skip_duration = parse_skip_writers(repo)
    dt = parse_duration_total(src)
    rt = parse_regress_total(repo)
    o = []
    o.append('(* Gen_Shell.v - GENERATED by harness/t_shell.py from util.sh, util-regress.sh, canvas, robsd, robsd-cross, robsd-ports; do not edit. *)')
    o.append('From Robsd Require Import Base.Bytes.')
    o.append('Local Open Scope Z_scope.')
    o.append('')
    o.append('(* step_skip: the test on ${_skip} *)')
    o.append('Definition sh_step_skip (skip : Z) : bool := %s.' % skip_test)
    o.append('')
    o.append('(* step_next: step_eval "%s${_i}" with _i from %d in steps of %d; the decision on one row, None = go on with the row before *)'
             % ('-' if sn['backwards'] else '', sn['start'], sn['incr']))
    o.append('Definition sn_walks_backwards : bool := %s.' % ('true' if sn['backwards'] else 'false'))
    o.append('Definition sn_index_start : Z := %s.' % coq_z(sn['start']))
    o.append('Definition sn_index_incr : Z := %s.' % coq_z(sn['incr']))
    o.append('Definition sn_fail_status : Z := %s.' % coq_z(sn['fail_status']))
    o.append('Definition sn_row (step : Z) (name : bytes) (exit skip : Z) : option Z :=')
    o.append('  if %s then None' % sn['skip_test'])
    o.append('  else if %s then Some %s' % (sn['failed_test'], sn['on_failed']))
    o.append('  else if %s then Some %s' % (sn['name_test'], sn['on_end']))
    o.append('  else Some %s.' % sn['otherwise'])
    o.append('')
    o.append('(* step_write: skip=%d unless -S (skip=%d); exit, skip always handed to robsd-step -W *)' % (skip_default, skip_flag))
    o.append('Definition skip_flag_default : Z := %s.' % coq_z(skip_default))
    o.append('Definition skip_flag_S : Z := %s.' % coq_z(skip_flag))
    o.append('(* the entry scripts: step_write -S ... -e %d -d %d, only when starting at step 1 *)' % (skip_exit, skip_duration))
    o.append('Definition skip_record_exit : Z := %s.' % coq_z(skip_exit))
    o.append('Definition skip_record_duration : Z := %s.' % coq_z(skip_duration))
    o.append('(* step_exec_job: in-flight record, then the outcome; the job fails unless the test on ${_exit} holds *)')
    o.append('Definition inflight_exit : Z := %s.' % coq_z(inflight_exit))
    o.append('Definition inflight_duration : Z := %s.' % coq_z(inflight_duration))
    o.append('Definition job_ok (e : Z) : bool := %s.' % job_ok)
    o.append('(* robsd(): the step of this name is recorded with -e %d and ends the loop *)' % end_exit)
    o.append('Definition loop_end_name : bytes := %s.' % coq_bytes(loop_end))
    o.append('Definition end_record_exit : Z := %s.' % coq_z(end_exit))
    o.append('')
    o.append('(* duration_total: step_eval "${_i}" with _i from %d in steps of %d, _tot from %d *)' % (dt['start'], dt['incr'], dt['init']))
    o.append('Definition dt_index_start : Z := %s.' % coq_z(dt['start']))
    o.append('Definition dt_index_incr : Z := %s.' % coq_z(dt['incr']))
    o.append('Definition dt_total_init : Z := %s.' % coq_z(dt['init']))
    o.append('Definition dt_regress_mode : bytes := %s.' % coq_bytes(dt['regress_mode']))
    o.append('Definition dt_row (skip : Z) (name : bytes) (duration tot : Z) : Z :=')
    o.append('  if sh_step_skip skip then tot else if %s then tot else tot %s duration.' % (dt['name_test'], dt['acc_op']))
    o.append('(* regress_duration_total: step_eval %d and step_eval %d, defaults %d and %d *)' % (rt['first'], rt['last'], rt['t0'], rt['t1']))
    o.append('Definition rdt_first_index : Z := %s.' % coq_z(rt['first']))
    o.append('Definition rdt_last_index : Z := %s.' % coq_z(rt['last']))
    o.append('Definition rdt_t0_default : Z := %s.' % coq_z(rt['t0']))
    o.append('Definition rdt_t1_default : Z := %s.' % coq_z(rt['t1']))
    o.append('Definition rdt_result (_t0 _t1 : Z) : Z := %s - %s.' % (rt['minuend'], rt['subtrahend']))
    o.append('')
    return {'Gen_Shell.v': '\n'.join(o)}


if __name__ == '__main__':
    import sys
    print(generate(sys.argv[1] if len(sys.argv) > 1 else '/repo')['Gen_Shell.v'])
