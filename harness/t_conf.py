"""Translator T1 for the configuration reader: conf.c, conf-*.c, conf-token.h, mode.h -> coq/gen/Gen_Conf.v

What is read (by anchored patterns; anything that no longer matches raises, so the tie is
reported as broken rather than guessed):
  mode.h          FOR_ROBSD_MODES (must be the five modes the model knows, in order)
  conf-token.h    FOR_TOKEN_TYPES rows (name, literal, mode)
  conf.c          common_grammar[]; config_copy_grammar (mode grammar first, then common);
                  config_steps_add_script argv template; the default of exec-dir
  conf-<mode>.c   <mode>_grammar[] (keyword, type, parser, flags, default), <mode>_steps[]
                  (the ${regress} placeholder row), which tables the init function installs,
                  which get_steps callback the mode uses
  conf-robsd-regress.c  RDOMAIN_MIN/MAX, which of the two known bodies config_default_rdomain has
                  (shipped: 255,11,11,12 ... / repaired as in findings/D6_rdomain.diff), the script of
                  the regress steps, and the two-pass expansion of config_robsd_regress_get_steps /
                  is_parallel (compared as normalised text with the form the schedule model transcribes)
  conf.c, conf-priv.h  which of the two known bodies config_default_build_dir has (shipped: re-enters itself
                  without bound when ${robsddir} needs ${builddir}, D18 / guarded by cf->interpolate.builddir as in
                  findings/D18_builddir_reentry.diff) -> builddir_guarded, field t_builddir_guard of every table
  conf-canvas.c   the synthetic last step added by config_canvas_after_parse
  interpolate.c   depth limit (through t_interp)
  conf.c          config_parse_keyword and config_validate as normalised text (the no_repeat logic, the order "parse, append,
                  then complain", the mandatory check); the sequence of CONFIG_* codes every value parser returns
                  (-> parser_returns, compared in Conf/ConfPins.v with the outcomes the model's parsers have)
  conf*.c, variable-value.c, lexer.c, conf-token.c, interpolate.c, if.c, robsd-config.c
                  every function containing assert( / __builtin_trap( / abort( with the number of such sites
                  (-> src_trap_sites, compared in Conf/ConfPins.v with the sites the model flags or argues dead: a new site
                  breaks the tie); the guards that make two of them unreachable are pinned here
"""
import os, re

MODES = ['ROBSD', 'ROBSD_CROSS', 'ROBSD_PORTS', 'ROBSD_REGRESS', 'CANVAS']
MODE_STR = {'ROBSD': 'robsd', 'ROBSD_CROSS': 'robsd-cross', 'ROBSD_PORTS': 'robsd-ports',
            'ROBSD_REGRESS': 'robsd-regress', 'CANVAS': 'canvas'}
MODE_FILE = {'ROBSD': 'conf-robsd.c', 'ROBSD_CROSS': 'conf-robsd-cross.c', 'ROBSD_PORTS': 'conf-robsd-ports.c',
             'ROBSD_REGRESS': 'conf-robsd-regress.c', 'CANVAS': 'conf-canvas.c'}
MODE_PREFIX = {'ROBSD': 'robsd', 'ROBSD_CROSS': 'robsd_cross', 'ROBSD_PORTS': 'robsd_ports',
               'ROBSD_REGRESS': 'robsd_regress', 'CANVAS': 'canvas'}
TTYPES = ['UNKNOWN', 'BOOLEAN', 'INTEGER', 'STRING', 'KEYWORD', 'LBRACE', 'RBRACE', 'COMMAND', 'ENV', 'HOURS',
          'MINUTES', 'NO', 'NO_PARALLEL', 'OBJ', 'PACKAGES', 'PARALLEL', 'QUIET', 'ROOT', 'SECONDS', 'TARGETS', 'YES']
VTYPES = {'INVALID': 'VT_INVALID', 'INTEGER': 'VT_INTEGER', 'STRING': 'VT_STRING', 'DIRECTORY': 'VT_DIRECTORY', 'LIST': 'VT_LIST'}
PFUNS = {'NULL': 'PF_none', 'config_parse_boolean': 'PF_boolean', 'config_parse_integer': 'PF_integer',
         'config_parse_string': 'PF_string', 'config_parse_list': 'PF_list', 'config_parse_glob': 'PF_glob',
         'config_parse_user': 'PF_user', 'config_parse_directory': 'PF_directory',
         'config_parse_canvas_directory': 'PF_canvas_directory', 'config_parse_canvas_step': 'PF_canvas_step',
         'config_parse_regress': 'PF_regress', 'config_parse_regress_env': 'PF_regress_env',
         'config_parse_regress_timeout': 'PF_regress_timeout'}
DFUNS = {'config_default_build_dir': 'DF_build_dir', 'config_default_exec_dir': 'DF_exec_dir',
         'config_default_inet4': 'DF_inet4', 'config_default_inet6': 'DF_inet6', 'config_default_ncpu': 'DF_ncpu',
         'config_default_trace': 'DF_trace', 'config_default_rdomain': 'DF_rdomain',
         'config_default_regress_targets': 'DF_regress_targets', 'config_default_parallel': 'DF_parallel'}
# which value types a parser may be paired with (the model's default/rendering code relies on it)
PFUN_TYPES = {'PF_none': None, 'PF_boolean': 'VT_INTEGER', 'PF_integer': 'VT_INTEGER', 'PF_string': 'VT_STRING',
              'PF_list': 'VT_LIST', 'PF_glob': 'VT_LIST', 'PF_user': 'VT_STRING', 'PF_directory': 'VT_DIRECTORY',
              'PF_canvas_directory': 'VT_STRING', 'PF_canvas_step': 'VT_INVALID', 'PF_regress': 'VT_LIST',
              'PF_regress_env': 'VT_LIST', 'PF_regress_timeout': 'VT_INTEGER'}

RDOMAIN_ORIG = ['static struct variable va;', 'int rdomain;', 'rdomain = cf->interpolate.rdomain++;',
                'if (rdomain == RDOMAIN_MAX)', 'cf->interpolate.rdomain = rdomain = RDOMAIN_MIN;',
                'variable_value_init(&va.va_val, INTEGER);', 'va.va_val.integer = rdomain;', 'return &va;']
RDOMAIN_FIXED = ['static struct variable va;', 'int rdomain;', 'rdomain = cf->interpolate.rdomain++;',
                 'if (rdomain == RDOMAIN_MAX) {', 'rdomain = RDOMAIN_MIN;', 'cf->interpolate.rdomain = rdomain + 1;', '}',
                 'variable_value_init(&va.va_val, INTEGER);', 'va.va_val.integer = rdomain;', 'return &va;']

IS_PARALLEL = ['const char *name;', 'arena_scope(cf->arena.scratch, s);',
               'if (!config_value(cf, "parallel", integer, 1))', 'return 0;',
               'name = regressname(step_name, "parallel", &s);', 'return config_value(cf, name, integer, 1);']
REGRESS_GET_STEPS = [
    'VECTOR(const char *) regress_no_parallel;', 'VECTOR(struct config_step) steps;', 'VECTOR(char *) regress;',
    'size_t i, nregress, r;', 'regress = config_value(cf, "regress", list, NULL);', 'nregress = VECTOR_LENGTH(regress);',
    'ARENA_VECTOR_INIT(s, steps, cf->steps.len + nregress);', 'arena_cleanup(s, config_steps_free, steps);',
    'ARENA_VECTOR_INIT(s, regress_no_parallel, 0);',
    'for (i = 0; i < cf->steps.len; i++) {', 'const struct config_step *cs = &cf->steps.ptr[i];',
    'if (cs->name == NULL)', 'break;', 'config_steps_add_script(steps, cs->command.path, cs->name);', '}',
    'for (r = 0; r < nregress; r++) {', 'int parallel;', 'parallel = is_parallel(cf, regress[r]);', 'if (parallel) {',
    'struct config_step *cs;', 'cs = config_steps_add_script(steps,', '"${exec-dir}/robsd-regress-exec.sh", regress[r]);',
    'cs->flags.parallel = 1;', '} else {', 'const char **dst;', 'dst = VECTOR_ALLOC(regress_no_parallel);',
    'if (dst == NULL)', 'err(1, NULL);', '*dst = regress[r];', '}', '}',
    'for (r = 0; r < VECTOR_LENGTH(regress_no_parallel); r++) {', 'config_steps_add_script(steps,',
    '"${exec-dir}/robsd-regress-exec.sh",', 'regress_no_parallel[r]);', '}',
    'for (i++; i < cf->steps.len; i++) {', 'const struct config_step *cs = &cf->steps.ptr[i];',
    'config_steps_add_script(steps, cs->command.path, cs->name);', '}', 'return steps;']
DEFAULT_GET_STEPS = ['VECTOR(struct config_step) steps;', 'size_t i;', 'ARENA_VECTOR_INIT(s, steps, cf->steps.len);',
                     'arena_cleanup(s, config_steps_free, steps);', 'for (i = 0; i < cf->steps.len; i++) {',
                     'const struct config_step *cs = &cf->steps.ptr[i];',
                     'config_steps_add_script(steps, cs->command.path, cs->name);', '}', 'return steps;']
STEPS_LIST_TAIL = ['steps = config_get_steps(config, 0, &s);', 'if (steps == NULL) {', 'error = ACTION_ERROR_FATAL;', 'goto out;', '}',
                   'if (offset - 1 >= VECTOR_LENGTH(steps)) {', 'warnx("offset %u too large", offset);',
                   'error = ACTION_ERROR_FATAL;', 'goto out;', '}',
                   'for (i = offset - 1; i < VECTOR_LENGTH(steps); i++) {', 'printf("%zu %s%s\\n",', 'i + 1,', 'steps[i].name,',
                   'steps[i].flags.parallel ? " parallel" : "");', '}']


PARSE_KEYWORD = ['const struct grammar *gr;', 'struct variable_value val;', 'int no_repeat, rv;',
                 'gr = config_find_grammar_for_keyword(cf, tk->tk_str);', 'if (gr == NULL) {',
                 'lexer_error(cf->lx, tk->tk_lno, "unknown keyword \'%s\'",', 'tk->tk_str);', 'return CONFIG_FATAL;', '}',
                 'no_repeat = (gr->gr_flags & REP) == 0 && config_present(cf, tk->tk_str);', 'rv = gr->gr_fn(cf, &val);',
                 'if (rv == CONFIG_APPEND)', 'config_append(cf, tk->tk_str, &val);', 'if (no_repeat) {',
                 'lexer_error(cf->lx, tk->tk_lno,', '"variable \'%s\' already defined", tk->tk_str);', 'return CONFIG_ERROR;', '}',
                 'return rv;']
VALIDATE = ['size_t i, n;', 'int error = 0;', 'n = VECTOR_LENGTH(cf->grammar);', 'for (i = 0; i < n; i++) {',
            'const struct grammar *gr = cf->grammar[i];', 'const char *str = gr->gr_kw;',
            'if ((gr->gr_flags & REQ) && !config_present(cf, str)) {', 'lexer_error(cf->lx, 0,',
            '"mandatory variable \'%s\' missing", str);', 'error = 1;', '}', '}', 'return error;']
TRAP_FILES = ['conf.c', 'conf-robsd.c', 'conf-robsd-cross.c', 'conf-robsd-ports.c', 'conf-robsd-regress.c', 'conf-canvas.c',
              'conf-token.c', 'lexer.c', 'variable-value.c', 'interpolate.c', 'if.c', 'robsd-config.c']
PARSER_FILE = {'config_parse_boolean': 'conf.c', 'config_parse_integer': 'conf.c', 'config_parse_string': 'conf.c',
               'config_parse_list': 'conf.c', 'config_parse_glob': 'conf.c', 'config_parse_user': 'conf.c',
               'config_parse_directory': 'conf.c', 'config_parse_canvas_directory': 'conf-canvas.c',
               'config_parse_canvas_step': 'conf-canvas.c', 'config_parse_regress': 'conf-robsd-regress.c',
               'config_parse_regress_env': 'conf-robsd-regress.c', 'config_parse_regress_timeout': 'conf-robsd-regress.c'}
RCODES = {'CONFIG_APPEND': 'RC_append', 'CONFIG_NOP': 'RC_nop', 'CONFIG_ERROR': 'RC_error', 'CONFIG_FATAL': 'RC_fatal'}


def all_functions(src):
    """(name, body) of every function definition of a file (return type on its own line, as the project writes them)"""
    return re.findall(r'^(\w+)\([^{;]*\)\n\{\n(.*?)^\}\n', src, re.S | re.M)


def trap_sites(repo):
    sites = []
    for f in TRAP_FILES:
        src = strip_comments(read(repo, f))
        total = len(re.findall(r'\b(?:assert|__builtin_trap|abort)\s*\(', src))
        found = 0
        for name, body in all_functions(src):
            n = len(re.findall(r'\b(?:assert|__builtin_trap|abort)\s*\(', body))
            if n:
                sites.append((f, name, n))
                found += n
        if found != total:
            raise ValueError('%s: %d assert/trap/abort sites, only %d inside recognised function bodies' % (f, total, found))
    hdr = strip_comments(read(repo, 'variable-value.h')) + strip_comments(read(repo, 'conf-priv.h')) + strip_comments(read(repo, 'conf.h'))
    if re.search(r'\b(?:assert|__builtin_trap|abort)\s*\(', hdr):
        raise ValueError('an assert/trap/abort site in a configuration header')
    return sites


def cb(s):
    return '[' + '; '.join(str(b) for b in s.encode('latin1')) + ']'


def cstring(tok):
    """C string literal -> python str (only the escapes the tables use)"""
    m = re.fullmatch(r'"((?:[^"\\]|\\.)*)"', tok.strip())
    if not m:
        raise ValueError('not a string literal: %r' % tok)
    s = m.group(1)
    if '\\' in s:
        raise ValueError('escape sequence in table string %r' % tok)
    return s


def read(repo, name):
    return open(os.path.join(repo, name), encoding='latin1').read()


def strip_comments(src):
    return re.sub(r'/\*.*?\*/', '', src, flags=re.S)


def func_body(src, name, fname):
    m = re.search(r'^%s\([^{;]*\)\n\{\n(.*?)^\}\n' % re.escape(name), src, re.S | re.M)
    if not m:
        raise ValueError('%s: function %s not found' % (fname, name))
    return m.group(1)


def norm(body):
    body = strip_comments(body)
    out = []
    for l in body.split('\n'):
        l = re.sub(r'\s+', ' ', l.strip())
        if l:
            out.append(l)
    return out


def parse_grammar(src, arr, fname):
    m = re.search(r'static const struct grammar %s\[\] = \{\n(.*?)\n\};' % re.escape(arr), src, re.S)
    if not m:
        raise ValueError('%s: table %s[] not found' % (fname, arr))
    rows = []
    for line in m.group(1).split('\n'):
        line = strip_comments(line).strip()
        if not line:
            continue
        mm = re.fullmatch(r'\{\s*("[^"]*"),\s*(\w+),\s*(\w+),\s*([\w|]+),\s*\{\s*(.*?)\s*\}\s*\},', line)
        if not mm:
            raise ValueError('%s: %s[] row not understood: %r' % (fname, arr, line))
        kw = cstring(mm.group(1))
        ty, fn, flags, dflt = mm.group(2), mm.group(3), mm.group(4), mm.group(5)
        if ty not in VTYPES:
            raise ValueError('%s: %s: unknown type %s' % (fname, kw, ty))
        if fn not in PFUNS:
            raise ValueError('%s: %s: unknown parser %s' % (fname, kw, fn))
        fl = set(flags.split('|')) - {'0'}
        if not fl <= {'REQ', 'REP', 'PAT', 'FUN', 'EARLY'}:
            raise ValueError('%s: %s: unknown flag in %s' % (fname, kw, flags))
        vt, pf = VTYPES[ty], PFUNS[fn]
        if PFUN_TYPES[pf] is not None and PFUN_TYPES[pf] != vt:
            raise ValueError('%s: %s: parser %s paired with type %s' % (fname, kw, fn, ty))
        md = re.fullmatch(r'D_FUN\((\w+)\)', dflt)
        mi = re.fullmatch(r'D_I32\((-?\d+)\)', dflt)
        if md:
            if md.group(1) not in DFUNS:
                raise ValueError('%s: %s: unknown default function %s' % (fname, kw, md.group(1)))
            if 'FUN' not in fl:
                raise ValueError('%s: %s: D_FUN without the FUN flag' % (fname, kw))
            d = 'D_fun %s' % DFUNS[md.group(1)]
        elif 'FUN' in fl:
            raise ValueError('%s: %s: FUN flag without D_FUN' % (fname, kw))
        elif mi:
            if vt != 'VT_INTEGER':
                raise ValueError('%s: %s: integer default for type %s' % (fname, kw, ty))
            d = 'D_i32 (%s)%%Z' % mi.group(1)
        elif dflt == 'NULL':
            d = 'D_null'
        elif dflt in ('MACHINE', 'MACHINE_ARCH'):
            if vt not in ('VT_STRING', 'VT_DIRECTORY'):
                raise ValueError('%s: %s: string default for type %s' % (fname, kw, ty))
            d = 'D_macro M_%s' % dflt
        else:
            if vt not in ('VT_STRING', 'VT_DIRECTORY'):
                raise ValueError('%s: %s: string default for type %s' % (fname, kw, ty))
            d = 'D_str %s' % cb(cstring(dflt))
        if 'PAT' in fl:
            if kw.count('*') != 1 or re.search(r'[?\[\]\\]', kw):
                raise ValueError('%s: pattern keyword %r is not literal*literal' % (fname, kw))
            if pf != 'PF_none':
                raise ValueError('%s: pattern keyword %r with a parser' % (fname, kw))
        elif re.search(r'[*?\[\]\\]', kw):
            raise ValueError('%s: keyword %r contains a pattern character without PAT' % (fname, kw))
        if pf != 'PF_none' and not re.fullmatch(r'[a-z][a-z0-9-]*', kw):
            raise ValueError('%s: keyword %r can never be lexed as a word' % (fname, kw))
        b = lambda x: 'true' if x in fl else 'false'
        rows.append('  (* %s *) mk_grammar %s %s %s %s %s %s %s (%s)' % (kw.replace('*', '<star>'), cb(kw), vt, pf, b('REQ'), b('REP'), b('PAT'), b('EARLY'), d))
    if not rows:
        raise ValueError('%s: %s[] is empty' % (fname, arr))
    return rows


def parse_steps(src, arr, fname):
    m = re.search(r'static (?:const )?struct config_step %s\[\] = \{\n(.*?)\n\};' % re.escape(arr), src, re.S)
    if not m:
        raise ValueError('%s: table %s[] not found' % (fname, arr))
    rows = []
    for line in m.group(1).split('\n'):
        line = strip_comments(line).strip()
        if not line:
            continue
        if re.fullmatch(r'\{\s*NULL,\s*\{\s*NULL\s*\},\s*\{0\}\s*\},', line):
            rows.append('None')
            continue
        mm = re.fullmatch(r'\{\s*("[^"]*"),\s*\{\s*("[^"]*")\s*\},\s*\{0\}\s*\},', line)
        if not mm:
            raise ValueError('%s: %s[] row not understood: %r' % (fname, arr, line))
        rows.append('(* %s *) Some (%s, %s)' % (cstring(mm.group(1)), cb(cstring(mm.group(1))), cb(cstring(mm.group(2)))))
    return rows


def generate(repo):
    out = ['(* Gen_Conf.v - GENERATED by harness/t_conf.py from mode.h, conf-token.h, conf.c, conf-*.c; do not edit. *)',
           'From Robsd Require Import Conf.ConfTypes.', 'From RobsdGen Require Import Gen_Interp.',
           'Local Open Scope N_scope.', '']
    # ---- modes
    mh = read(repo, 'mode.h')
    modes = re.findall(r'OP\((\w+),\s*("[^"]*")\)', mh[:mh.index('enum robsd_mode')])
    if [(a, cstring(b)) for a, b in modes] != [(m, MODE_STR[m]) for m in MODES]:
        raise ValueError('mode.h: FOR_ROBSD_MODES is no longer the five modes the model knows: %r' % modes)
    # ---- tokens
    th = read(repo, 'conf-token.h')
    blk = re.search(r'#define FOR_TOKEN_TYPES\(OP\)(.*?)\n\n', th, re.S)
    if not blk:
        raise ValueError('conf-token.h: FOR_TOKEN_TYPES not found')
    trow = re.findall(r'OP\((\w+),\s*("[^"]*"),\s*(\w+)\)', strip_comments(blk.group(1)))
    nops = len(re.findall(r'\bOP\(', strip_comments(blk.group(1))))
    if len(trow) != nops or not trow:
        raise ValueError('conf-token.h: %d OP rows, %d understood' % (nops, len(trow)))
    if [t[0] for t in trow] != TTYPES:
        raise ValueError('conf-token.h: token types changed: %r' % [t[0] for t in trow])
    toks = []
    keys = {}
    for name, key, md in trow:
        k = cstring(key)
        if md == '0':
            mo = 'None'
        elif md == 'ROBSD':
            raise ValueError('conf-token.h: token %s restricted to ROBSD, which the lookup treats as "all modes" (ROBSD == 0)' % name)
        elif md in MODES:
            mo = 'Some %s' % md
        else:
            raise ValueError('conf-token.h: token %s: unknown mode %s' % (name, md))
        if k:
            for other_md in keys.get(k, []):
                if other_md == '0' or md == '0' or other_md == md:
                    raise ValueError('conf-token.h: literal %r defined twice for one mode' % k)
            keys.setdefault(k, []).append(md)
        toks.append('  mk_tokrow T_%s %s (%s)' % (name, cb(k), mo))
    tc = read(repo, 'conf-token.c')
    if not re.search(r"if \(\(key\)\[0\] != '\\0' && \(\(m\) == 0 \|\| \(m\) == mode\)\)\s*\\\n\s*token_type_lookup_insert\(lookup, \(key\), TOKEN_ ## name\);", tc):
        raise ValueError('conf-token.c: the insertion rule of token_type_lookup_alloc changed')
    out.append('Definition token_table : list tokrow := [\n' + ';\n'.join(toks) + '].\n')
    # ---- common grammar, argv template, exec-dir default
    cc = read(repo, 'conf.c')
    out.append('Definition common_grammar : list grammar := [\n' + ';\n'.join(parse_grammar(cc, 'common_grammar', 'conf.c')) + '].\n')
    b = norm(func_body(cc, 'config_copy_grammar', 'conf.c'))
    txt = ' '.join(b)
    i1 = txt.find('*dst = &grammar[i];')
    i2 = txt.find('*dst = &common_grammar[i];')
    if i1 < 0 or i2 < 0 or not i1 < i2 or txt.count('VECTOR_ALLOC(cf->grammar)') != 2:
        raise ValueError('conf.c: config_copy_grammar no longer copies the mode grammar followed by the common grammar')
    b = norm(func_body(cc, 'config_steps_add_script', 'conf.c'))
    apps = [re.fullmatch(r'variable_value_append\(val, (.*)\);', l) for l in b if l.startswith('variable_value_append')]
    if not apps or any(a is None for a in apps) or 'dst->name = step_name;' not in b:
        raise ValueError('conf.c: config_steps_add_script changed')
    argv = []
    for a in apps:
        t = a.group(1)
        if t == 'script':
            argv.append('A_script')
        elif t == 'step_name':
            argv.append('A_name')
        else:
            argv.append('A_lit %s' % cb(cstring(t)))
    out.append('Definition script_argv_template : list argtmpl := [' + '; '.join(argv) + '].\n')
    b = norm(func_body(cc, 'config_default_exec_dir', 'conf.c'))
    mm = re.search(r'execdir = getenv\("EXECDIR"\); if \(execdir == NULL \|\| execdir\[0\] == \'\\0\'\) execdir = ("[^"]*"); return config_append_string\(cf, name, execdir\);', ' '.join(b))
    if not mm:
        raise ValueError('conf.c: config_default_exec_dir changed')
    out.append('Definition execdir_default : bytes := %s.\n' % cb(cstring(mm.group(1))))
    if norm(func_body(cc, 'config_default_get_steps', 'conf.c')) != DEFAULT_GET_STEPS:
        raise ValueError('conf.c: config_default_get_steps changed')
    # ---- do the interpolations made while parsing name the configuration file? (findings/D16_interp_diag_path.diff)
    ih = read(repo, 'interpolate.h')
    ic = read(repo, 'interpolate.c')
    has_field = bool(re.search(r'const char\s*\*path;', ih[ih.index('struct interpolate_arg'):]))
    sites = [func_body(cc, 'config_parse_directory', 'conf.c'), func_body(cc, 'config_interpolate_early', 'conf.c'),
             func_body(cc, 'config_default_build_dir', 'conf.c')]
    npath = sum(1 for b in sites if re.search(r'\.path\s*=\s*cf->path,', b))
    buf = func_body(ic, 'interpolate_buffer', 'interpolate.c')
    if has_field and npath == 3 and re.search(r'\.path\s*=\s*arg->path,', buf):
        interp_path = True
    elif not has_field and npath == 0 and not re.search(r'\.path', buf):
        interp_path = False
    else:
        raise ValueError('conf.c/interpolate.c: the parse-time interpolations neither all omit nor all pass the configuration path')
    out.append('(* parse-time interpolation diagnostics %s the configuration path *)' % ('carry' if interp_path else 'do not carry'))
    out.append('Definition interp_path : bool := %s.\n' % ('true' if interp_path else 'false'))
    # ---- is config_default_build_dir guarded against re-entry? (findings/D18_builddir_reentry.diff)
    bb = norm(func_body(cc, 'config_default_build_dir', 'conf.c'))
    ph = read(repo, 'conf-priv.h')
    has_flag = bool(re.search(r'\bint\s+builddir;', ph))
    if 'path = interpolate_str("${robsddir}/.running",' not in bb or bb.count('path = interpolate_str("${robsddir}/.running",') != 1:
        raise ValueError('conf.c: config_default_build_dir no longer expands ${robsddir}/.running once')
    i0 = bb.index('path = interpolate_str("${robsddir}/.running",')
    iend = next((k for k in range(i0, len(bb)) if bb[k] == '});'), None)
    if iend is None:
        raise ValueError('conf.c: config_default_build_dir: end of the interpolate_str call not found')
    mentions = [l for l in bb if 'interpolate.builddir' in l]
    if not mentions and not has_flag:
        builddir_guarded = False
    elif (has_flag and mentions == ['if (cf->interpolate.builddir)', 'cf->interpolate.builddir = 1;', 'cf->interpolate.builddir = 0;']
          and bb.index('if (cf->interpolate.builddir)') < i0 and bb[bb.index('if (cf->interpolate.builddir)') + 1] == 'return NULL;'
          and bb[i0 - 1] == 'cf->interpolate.builddir = 1;' and bb[iend + 1] == 'cf->interpolate.builddir = 0;'):
        builddir_guarded = True
    else:
        raise ValueError('conf.c: config_default_build_dir matches neither the shipped body nor the one guarded against re-entry')
    out.append('(* config_default_build_dir %s: ${builddir} needed while ${builddir} is being computed %s *)'
               % (('refuses to be re-entered', 'has no value') if builddir_guarded else ('is not guarded against re-entry', 'recurses without bound (D18)')))
    out.append('Definition builddir_guarded : bool := %s.\n' % ('true' if builddir_guarded else 'false'))
    # ---- rdomain
    rc = read(repo, 'conf-robsd-regress.c')
    mn = re.findall(r'^#define RDOMAIN_MIN\s+(\d+)$', rc, re.M)
    mx = re.findall(r'^#define RDOMAIN_MAX\s+(\d+)$', rc, re.M)
    if len(mn) != 1 or len(mx) != 1:
        raise ValueError('conf-robsd-regress.c: RDOMAIN_MIN/RDOMAIN_MAX not found')
    if not re.search(r'cf->interpolate\.rdomain = RDOMAIN_MIN;', func_body(rc, 'config_robsd_regress_init', 'conf-robsd-regress.c')):
        raise ValueError('conf-robsd-regress.c: the rdomain counter no longer starts at RDOMAIN_MIN')
    b = norm(func_body(rc, 'config_default_rdomain', 'conf-robsd-regress.c'))
    if b == RDOMAIN_ORIG:
        fixed = False
    elif b == RDOMAIN_FIXED:
        fixed = True
    else:
        raise ValueError('conf-robsd-regress.c: config_default_rdomain matches neither the shipped nor the repaired body: %r' % b)
    out.append('Definition rdomain_min : Z := %s%%Z.' % mn[0])
    out.append('Definition rdomain_max : Z := %s%%Z.' % mx[0])
    out.append('(* config_default_rdomain: %s *)' % ('repaired body (findings/D6_rdomain.diff)' if fixed else 'shipped body'))
    out.append('Definition rdomain_fixed : bool := %s.\n' % ('true' if fixed else 'false'))
    # ---- regress expansion
    if norm(func_body(rc, 'is_parallel', 'conf-robsd-regress.c')) != IS_PARALLEL:
        raise ValueError('conf-robsd-regress.c: is_parallel changed')
    if norm(func_body(rc, 'config_robsd_regress_get_steps', 'conf-robsd-regress.c')) != REGRESS_GET_STEPS:
        raise ValueError('conf-robsd-regress.c: config_robsd_regress_get_steps is no longer the two-pass expansion the schedule model transcribes')
    out.append('Definition regress_script : bytes := %s.\n' % cb('${exec-dir}/robsd-regress-exec.sh'))
    if not re.search(r'return arena_sprintf\(s, "regress-%s-%s", path, suffix\);', func_body(rc, 'regressname', 'conf-robsd-regress.c')):
        raise ValueError('conf-robsd-regress.c: regressname changed')
    # ---- canvas end step
    cv = read(repo, 'conf-canvas.c')
    b = norm(func_body(cv, 'config_canvas_after_parse', 'conf-canvas.c'))
    # two known bodies: the shipped one (the by-value vector pointer goes stale when adding "end" makes the vector grow:
    # 16 steps abort, 32 list nothing) and the repaired one (/repo 8c850c1: room is reserved through the real vector first)
    reserved = len(b) == 3 and b[0] == 'if (VECTOR_RESERVE(cf->canvas.steps, 1))' and b[1] == 'err(1, NULL);'
    mm = (len(b) == 1 or reserved) and re.fullmatch(r'config_steps_add_script\(cf->canvas\.steps, ("[^"]*"), ("[^"]*")\);', b[-1])
    if not mm:
        raise ValueError('conf-canvas.c: config_canvas_after_parse changed')
    out.append('(* config_canvas_after_parse reserves room for the end step before config_steps_add_script (which takes the\n'
               '   vector by value) appends it: without that the step list is lost when the vector has to grow *)\n'
               'Definition canvas_end_reserved : bool := %s.\n' % ('true' if reserved else 'false'))
    out.append('Definition canvas_end : bytes * bytes := (%s, %s).\n' % (cb(cstring(mm.group(1))), cb(cstring(mm.group(2)))))
    if norm(func_body(cv, 'config_canvas_get_steps', 'conf-canvas.c')) != ['return cf->canvas.steps;']:
        raise ValueError('conf-canvas.c: config_canvas_get_steps changed')
    # ---- robsd-step -L
    rs = read(repo, 'robsd-step.c')
    b = norm(func_body(rs, 'steps_list', 'robsd-step.c'))
    try:
        k = b.index(STEPS_LIST_TAIL[0])
    except ValueError:
        k = -1
    if k < 0 or b[k:k + len(STEPS_LIST_TAIL)] != STEPS_LIST_TAIL:
        raise ValueError('robsd-step.c: the listing loop of steps_list changed')
    if 'num = strtonum(optarg, 1, INT_MAX, &errstr);' not in b or 'unsigned int offset = 1;' not in b:
        raise ValueError('robsd-step.c: the offset option of steps_list changed')
    # ---- keyword dispatch and the mandatory check, as text
    if norm(func_body(cc, 'config_parse_keyword', 'conf.c')) != PARSE_KEYWORD:
        raise ValueError('conf.c: config_parse_keyword is no longer the body the model transcribes (no_repeat computed before the parser runs, '
                         'append on CONFIG_APPEND, then "already defined"): %r' % norm(func_body(cc, 'config_parse_keyword', 'conf.c')))
    if norm(func_body(cc, 'config_validate', 'conf.c')) != VALIDATE:
        raise ValueError('conf.c: config_validate changed: %r' % norm(func_body(cc, 'config_validate', 'conf.c')))
    # ---- which CONFIG_* codes every value parser returns, in source order
    rows = []
    for fn, pf in PFUNS.items():
        if fn == 'NULL':
            continue
        body = strip_comments(func_body(read(repo, PARSER_FILE[fn]), fn, PARSER_FILE[fn]))
        rets = [r.strip() for r in re.findall(r'\breturn\s+([^;]+);', body)]
        # `if (error) return error;` hands on the code of the parser just called (CONFIG_APPEND is 0)
        bad = [r for r in rets if r not in RCODES and not (r in ('error', 'rv') and re.search(r'\b%s = config_parse_\w+\(' % r, body))]
        if bad:
            raise ValueError('%s: %s returns something other than a CONFIG_* code: %r' % (PARSER_FILE[fn], fn, bad))
        rows.append('  (%s, [%s])' % (pf, '; '.join(RCODES.get(r, 'RC_pass') for r in rets)))
    ph2 = read(repo, 'conf-priv.h')
    if [re.findall(r'^#define %s\s+(\d+)$' % k, ph2, re.M) for k in ('CONFIG_APPEND', 'CONFIG_ERROR', 'CONFIG_NOP', 'CONFIG_FATAL')] != [['0'], ['1'], ['2'], ['3']]:
        raise ValueError('conf-priv.h: the CONFIG_* codes changed (CONFIG_APPEND must be 0: `if (error) return error;`)')
    out.append('(* the CONFIG_* codes each value parser returns, in source order; RC_pass = the code of the parser it called *)')
    out.append('Inductive retcode := RC_append | RC_nop | RC_error | RC_fatal | RC_pass.')
    out.append('Definition parser_returns : list (pfun * list retcode) := [\n' + ';\n'.join(rows) + '].\n')
    # ---- assert / __builtin_trap / abort sites of the configuration sources
    sites = trap_sites(repo)
    out.append('(* every function of ' + ', '.join(TRAP_FILES) + ' that contains assert( / __builtin_trap( / abort(, with the number of sites *)')
    out.append('Definition src_trap_sites : list (bytes * bytes * nat) := [\n' +
               ';\n'.join('  (* %s %s *) (%s, %s, %d%%nat)' % (f, fn, cb(f), cb(fn), n) for f, fn, n in sites) + '].\n')
    # the guards that make two of the sites unreachable, pinned as text
    vh = strip_comments(read(repo, 'variable-value.h'))
    if not re.search(r'is_variable_value_valid\(const struct variable_value \*val\)\s*\{\s*return val->type != INVALID;\s*\}', vh):
        raise ValueError('variable-value.h: is_variable_value_valid is no longer "type != INVALID"')
    lk = norm(func_body(cc, 'config_interpolate_lookup', 'conf.c'))
    if 'if (va == NULL || !is_variable_value_valid(&va->va_val))' not in lk or lk[lk.index('if (va == NULL || !is_variable_value_valid(&va->va_val))') + 1] != 'return NULL;' \
            or lk.index('if (va == NULL || !is_variable_value_valid(&va->va_val))') > lk.index('__builtin_trap();'):
        raise ValueError('conf.c: config_interpolate_lookup no longer returns NULL for an INVALID value before its switch')
    for f in TRAP_FILES:
        for name, body in all_functions(strip_comments(read(repo, f))):
            for v in set(re.findall(r'variable_value_append\(([^,]+),', body)):
                first = body.index('variable_value_append(%s,' % v)
                init = body.find('variable_value_init(%s, LIST);' % v)
                if init < 0 or init > first:
                    raise ValueError('%s: %s appends to %s without initialising it as a LIST first (assert of variable_value_append)' % (f, name, v))
    # ---- per mode
    for m in MODES:
        f = MODE_FILE[m]
        src = read(repo, f)
        p = MODE_PREFIX[m]
        out.append('Definition %s_grammar : list grammar := [\n' % p + ';\n'.join(parse_grammar(src, p + '_grammar', f)) + '].\n')
        init = ' '.join(norm(func_body(src, 'config_%s_init' % p, f)))
        if not re.search(r'config_copy_grammar\(cf, %s_grammar, sizeof\(%s_grammar\) / sizeof\(%s_grammar\[0\]\)\);' % (p, p, p), init):
            raise ValueError('%s: init no longer installs %s_grammar' % (f, p))
        cbs = re.search(r'\.init\s*=\s*(\w+),\s*\.free\s*=\s*(\w+),\s*\.after_parse\s*=\s*(\w+),\s*\.get_steps\s*=\s*(\w+),', src)
        if not cbs:
            raise ValueError('%s: callbacks not found' % f)
        want_get = {'ROBSD_REGRESS': 'config_robsd_regress_get_steps', 'CANVAS': 'config_canvas_get_steps'}.get(m, 'config_default_get_steps')
        if cbs.group(1) != 'config_%s_init' % p or cbs.group(3) != 'config_%s_after_parse' % p or cbs.group(4) != want_get:
            raise ValueError('%s: callbacks changed: %r' % (f, cbs.groups()))
        if m != 'CANVAS':
            if norm(func_body(src, 'config_%s_after_parse' % p, f)):
                raise ValueError('%s: after_parse is no longer empty' % f)
            if not re.search(r'cf->steps\.ptr = %s_steps; cf->steps\.len = sizeof\(%s_steps\) / sizeof\(%s_steps\[0\]\);' % (p, p, p), init):
                raise ValueError('%s: init no longer installs %s_steps' % (f, p))
            steps = parse_steps(src, p + '_steps', f)
            nph = steps.count('None')
            if (m == 'ROBSD_REGRESS') != (nph == 1):
                raise ValueError('%s: %d ${regress} placeholder rows' % (f, nph))
        else:
            steps = []
        out.append('Definition %s_steps : list steprow := [\n  ' % p + ';\n  '.join(steps) + '].\n')
        out.append('Definition tables_%s : tables :=\n  mk_tables %s token_table (%s_grammar ++ common_grammar) %s_steps script_argv_template\n'
                   '    regress_script canvas_end rdomain_min rdomain_max rdomain_fixed execdir_default depth_limit interp_path builddir_guarded.\n' % (p, m, p, p))
    ctab = re.search(r'static const struct config_callbacks \*\(\*callbacks\[\]\)\(void\) = \{(.*?)\};', cc, re.S)
    want = [(m, 'config_%s_callbacks' % MODE_PREFIX[m]) for m in MODES]
    if not ctab or re.findall(r'\[(\w+)\]\s*=\s*(\w+),', ctab.group(1)) != want:
        raise ValueError('conf.c: config_alloc callbacks table changed')
    out.append('Definition tables_of (m : mode) : tables :=\n  match m with\n' +
               ''.join('  | %s => tables_%s\n' % (m, MODE_PREFIX[m]) for m in MODES) + '  end.\n')
    return {'Gen_Conf.v': '\n'.join(out)}


if __name__ == '__main__':
    import sys
    print(generate(sys.argv[1] if len(sys.argv) > 1 else '/repo')['Gen_Conf.v'])
