/* C12 fuzz lane: linked into the repository's own libFuzzer targets (fuzz-config, fuzz-step).
 * Their FUZZER_LLVM entry point (libks/fuzzer.h) hands the input to the code under test as a file made by
 * KS_tmpfd (libks/tmp.c): mkstemp("/tmp/libks.XXXXXXXX"), unlink, write, lseek, "/dev/fd/<n>".  On this
 * machine /tmp is a journalled disk file system: create + unlink per execution limits the targets to a few
 * hundred executions per second and writes outside the scratch directory of the run.  This file answers
 * exactly that mkstemp / unlink pair with an anonymous memory file (memfd_create); every other call goes to
 * the C library.  Nothing of the repository is modified: KS_tmpfd runs as written. */
#define _GNU_SOURCE
#include <sys/mman.h>

#include <dlfcn.h>
#include <stdlib.h>
#include <string.h>
#include <unistd.h>

#define LIBKS_PREFIX "/tmp/libks."

int
mkstemp(char *template)
{
	static int (*real)(char *);

	if (strncmp(template, LIBKS_PREFIX, sizeof(LIBKS_PREFIX) - 1) == 0)
		return memfd_create("libks", 0);
	if (real == NULL) {
		real = (int (*)(char *))dlsym(RTLD_NEXT, "mkstemp");
		if (real == NULL)
			abort();
	}
	return real(template);
}

int
unlink(const char *path)
{
	static int (*real)(const char *);

	if (strncmp(path, LIBKS_PREFIX, sizeof(LIBKS_PREFIX) - 1) == 0)
		return 0;
	if (real == NULL) {
		real = (int (*)(const char *))dlsym(RTLD_NEXT, "unlink");
		if (real == NULL)
			abort();
	}
	return real(path);
}
