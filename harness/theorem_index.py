#!/usr/bin/env python3
"""Theorem list of the property files (gap report 2, M9/M13: deleting a theorem or weakening its statement was noticed by nothing).

  harness/theorem_index.py write            extract the list from coq/theories/Properties_C*.v into /verif/THEOREMS.json
  harness/theorem_index.py check            compare the current tree with the committed THEOREMS.json; prints every REMOVED or
                                            CHANGED statement (and, for information, the added ones); exit 1 when something was
                                            removed or changed, when a listed file is missing or when THEOREMS.json is missing
  harness/theorem_index.py show [Cnn ...]   print name, kind and hash per property (nothing is written)

What is recorded per property file, in file order: kind (Theorem, Corollary, Remark, Example, Lemma, Fact, Proposition), name,
sha256 of the STATEMENT (the text between the name and the terminating '.' before 'Proof', comments removed, white space runs
collapsed to one blank), whether the proof is the single tactic `exact ...` and whether a `Print Assumptions <name>` follows.
A statement that is only re-indented or re-commented keeps its hash; any other edit of it changes the hash.
The hash covers the statement only: definitions it mentions live in the area files and are not followed.
"""
import glob, hashlib, json, os, re, sys

VERIF = os.environ.get('VERIF_DIR', '/verif')
OUT = os.path.join(VERIF, 'THEOREMS.json')
KINDS = 'Theorem|Corollary|Remark|Example|Lemma|Fact|Proposition'


def strip_coq_comments(text):
    """the routine of harness/common.py (nested comments; new lines kept), extended by string literals:
    a comment opener inside "..." does not open a comment"""
    out, depth, i, n, instr = [], 0, 0, len(text), False
    while i < n:
        c = text[i]
        if depth == 0 and c == '"':
            instr = not instr
            out.append(c)
            i += 1
        elif not instr and text.startswith('(*', i):
            depth += 1
            i += 2
        elif not instr and text.startswith('*)', i) and depth > 0:
            depth -= 1
            i += 2
        else:
            if depth == 0:
                out.append(c)
            elif c == '\n':
                out.append('\n')
            i += 1
    return ''.join(out)


def sentence_end(text, start):
    """index just after the '.' that ends the vernacular sentence starting at [start]: a '.' followed by white space or the
    end of the text, outside string literals (qualified names such as A.b have no blank after the dot)"""
    i, n, instr = start, len(text), False
    while i < n:
        c = text[i]
        if c == '"':
            instr = not instr
        elif c == '.' and not instr and (i + 1 == n or text[i + 1] in ' \t\r\n'):
            # a sentence never ends in ".." (ellipsis of a recursive notation)
            if not (i > 0 and text[i - 1] == '.'):
                return i + 1
        i += 1
    return n


def norm(s):
    return re.sub(r'\s+', ' ', s).strip()


def index_file(path):
    text = strip_coq_comments(open(path).read())
    entries = []
    pa = set(re.findall(r'Print\s+Assumptions\s+([A-Za-z0-9_\']+)\s*\.', text))
    for m in re.finditer(r'^[ \t]*(?:(?:Local|Global|#\[[^\]]*\])\s+)*(%s)\s+([A-Za-z0-9_\']+)' % KINDS, text, re.M):
        kind, name = m.group(1), m.group(2)
        end = sentence_end(text, m.end())
        stmt = norm(text[m.end():end - 1])
        rest = text[end:]
        pm = re.match(r'\s*Proof\s*\.\s*', rest)
        by_exact = False
        if pm:
            pend = sentence_end(rest, pm.end())
            tac = norm(rest[pm.end():pend - 1])
            after = rest[pend:]
            by_exact = tac.startswith('exact') and re.match(r'\s*Qed\s*\.', after) is not None
        entries.append({'kind': kind, 'name': name,
                        'statement_sha256': hashlib.sha256(stmt.encode()).hexdigest(),
                        'statement_chars': len(stmt),
                        'closed_by_exact': by_exact,
                        'print_assumptions': name in pa})
    return entries


def current(pids=None):
    out = {}
    for path in sorted(glob.glob(os.path.join(VERIF, 'coq', 'theories', 'Properties_C*.v'))):
        pid = os.path.basename(path)[len('Properties_'):-2]
        if pids and pid not in pids:
            continue
        out[pid] = index_file(path)
    return out


def summarise(idx):
    return {pid: {'counted': sum(1 for e in es if e['kind'] in ('Theorem', 'Corollary')), 'all': len(es)} for pid, es in idx.items()}


def cmd_write():
    idx = current()
    doc = {'_comment': 'Written by harness/theorem_index.py write; compared by harness/theorem_index.py check. Per property file, in '
                       'file order: every Theorem/Corollary/Remark/Example with the sha256 of its statement (comments removed, '
                       'white space collapsed). Commit this file together with the Properties files.',
           'summary': summarise(idx), 'properties': idx}
    json.dump(doc, open(OUT, 'w'), indent=1, sort_keys=True)
    print('%s: %d property files, %d statements' % (OUT, len(idx), sum(len(v) for v in idx.values())))
    return 0


def cmd_check():
    if not os.path.exists(OUT):
        print('MISSING %s (run: harness/theorem_index.py write)' % OUT)
        return 1
    old = json.load(open(OUT))['properties']
    new = current()
    bad = 0
    for pid in sorted(set(old) | set(new)):
        if pid not in new:
            print('REMOVED-FILE %s: Properties_%s.v is gone (%d statements were listed)' % (pid, pid, len(old[pid])))
            bad += 1
            continue
        o = {e['name']: e for e in old.get(pid, [])}
        n = {e['name']: e for e in new[pid]}
        for name, e in o.items():
            if name not in n:
                print('REMOVED %s %s %s' % (pid, e['kind'], name))
                bad += 1
            else:
                f = n[name]
                if f['statement_sha256'] != e['statement_sha256']:
                    print('CHANGED %s %s %s: statement differs from the committed one (%d -> %d characters)'
                          % (pid, f['kind'], name, e.get('statement_chars', -1), f['statement_chars']))
                    bad += 1
                if f['kind'] != e['kind']:
                    # Theorem -> Remark takes a statement out of the count of common.prove (Theorem|Corollary only)
                    print('CHANGED %s %s: kind %s -> %s' % (pid, name, e['kind'], f['kind']))
                    bad += 1
                if e.get('print_assumptions') and not f['print_assumptions']:
                    print('CHANGED %s %s: its Print Assumptions is gone' % (pid, name))
                    bad += 1
                if e.get('closed_by_exact') and not f['closed_by_exact']:
                    print('CHANGED %s %s: no longer closed by a single exact' % (pid, name))
                    bad += 1
        for name, f in n.items():
            if name not in o:
                print('added   %s %s %s' % (pid, f['kind'], name))
    print('theorem index: %d removed or changed' % bad)
    return 1 if bad else 0


def cmd_show(pids):
    for pid, es in current(set(pids) or None).items():
        for e in es:
            print('%s %-9s %-52s %s%s%s' % (pid, e['kind'], e['name'], e['statement_sha256'][:16],
                                             '' if e['closed_by_exact'] else ' (not exact)', '' if e['print_assumptions'] else ' (no Print Assumptions)'))
    return 0


def main(argv):
    if len(argv) >= 2 and argv[1] == 'write':
        return cmd_write()
    if len(argv) >= 2 and argv[1] == 'check':
        return cmd_check()
    if len(argv) >= 2 and argv[1] == 'show':
        return cmd_show(argv[2:])
    print(__doc__)
    return 2


if __name__ == '__main__':
    sys.exit(main(sys.argv))
