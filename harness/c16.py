"""C16 - cleaning keeps exactly the newest N: model/spec of robsd-clean + util.sh purge vs
`bash robsd-clean -m canvas -C conf [count]` on generated roots, BSD userland behind shims (DESIGN.md 7, C16)."""
import glob, hashlib, json, os, shutil, subprocess
from concurrent.futures import ThreadPoolExecutor
import common, iv_common
from common import hexs, unhex

TRANSLATORS = ['t_util']
TRUSTED = ['PARTIAL CLAIM: bash standing in for ksh and GNU tail/find/cp/rm/tr/mkdir/touch standing in for the BSD userland, '
           'behind the stand-ins tools/shims/{stat (stat -f %Sm -t), find (-delete ignores ENOTEMPTY), chflags, logname, date}; '
           'robsd-config and robsd-ls are the binaries rebuilt from the working tree; only -m canvas is run end to end '
           '(the other modes differ in the id -u check only); names without newline, leading/trailing blanks or "/"; '
           'file modes, owners and time stamps are not modelled; qsort as in C15; the keep directory is <robsddir>/attic '
           '(the configuration grammar accepts nothing else)']

SIG_STALE = 'clean-stale-lock-keeps-one-less'
SIG_RUNNING = 'clean-lock-spelled-differently'

DAYS = ['2024-01-01', '2024-01-02', '2023-12-31']
STRAY_DIRS = ['src', 'a-b', '2024', 'rel', 'x', '2024-01-02x', '-n', 'a--b']
STRAY_FILES = ['strayfile', 'README', '2024-01-02.7', 'robsd.log']
CONTENT = [('report', 'F'), ('comment', 'F'), ('tags', 'F'), ('step.csv', 'F'), ('stat.csv', 'F'), ('src.diff.1', 'F'),
           ('x11.diff.2', 'F'), ('index.txt', 'F'), ('rel', 'D'), ('rel/index.txt', 'F'), ('rel/bsd.rd', 'F'),
           ('001-a.log', 'F'), ('robsd.log', 'F'), ('tmp', 'D'), ('tmp/report', 'F'), ('tmp/sub', 'D'), ('tmp/sub/x', 'F'),
           ('obj', 'D'), ('obj/deep', 'D'), ('obj/deep/x', 'F'), ('keepme', 'D'), ('keepme/a', 'D'), ('keepme/a/comment', 'F'),
           ('keepme/a/other', 'F'), ('empty', 'D'), ('.diff.', 'F'), ('a.diff.', 'F'), ('adiff.1', 'F'), ('reportx', 'F'),
           ('xreport', 'F'), ('step.csv.bak', 'F')]
SPECIAL = [('tagslink', 'L'), ('reportdir', 'D')]


def gen_inv_content(rng, name):
    ents = []
    have = set()
    for p, k in CONTENT:
        parent = p.rsplit('/', 1)[0] if '/' in p else None
        if rng.random() < 0.45 and (parent is None or parent in have):
            ents.append([name + '/' + p, k, 'c:' + p])
            have.add(p)
    if rng.random() < 0.2:
        ents.append([name + '/tags2', 'L', 'report'])
    if rng.random() < 0.15:
        # a directory whose own name is on the whitelist, with other content
        ents += [[name + '/report.d', 'D', ''], [name + '/stat.csv.d', 'D', '']]
        ents = [e for e in ents if e[0] != name + '/comment']
        ents += [[name + '/comment', 'D', ''], [name + '/comment/junk', 'F', 'j']]
    return ents


def gen_case(rng):
    ents = []
    names = []
    for d in DAYS:
        if rng.random() < 0.75:
            if rng.random() < 0.2:
                names.append(d)
            ks = [k for k in [1, 2, 3, 9, 10, 11] if rng.random() < 0.4]
            names += ['%s.%d' % (d, k) for k in ks]
    if rng.random() < 0.15:
        names = names[:1]
    if rng.random() < 0.05:
        names = []
    strays = [n for n in STRAY_DIRS if rng.random() < 0.08]
    for n in names + strays:
        ents.append([n, 'D', ''])
        ents += gen_inv_content(rng, n)
    for n in STRAY_FILES:
        if rng.random() < 0.2:
            ents.append([n, 'F', 'stray ' + n])
    if rng.random() < 0.2:
        ents.append(['.hidden', 'D', ''])
        ents.append(['.hidden/report', 'F', 'h'])
    if rng.random() < 0.15 and names:
        ents.append(['latest', 'L', names[-1]])
    attic = rng.choice(['absent', 'absent', 'empty', 'old', 'old', 'collide'])
    if attic != 'absent':
        ents.append(['attic', 'D', ''])
    if attic in ('old', 'collide'):
        ents += [['attic/2023', 'D', ''], ['attic/2023/11', 'D', ''], ['attic/2023/11/30.1', 'D', ''],
                 ['attic/2023/11/30.1/report', 'F', 'old report'], ['attic/note', 'F', 'keep this']]
    if attic == 'collide' and names:
        v = rng.choice(names)
        comps = v.replace('-', '/').split('/')
        for i in range(1, len(comps) + 1):
            p = 'attic/' + '/'.join(comps[:i])
            if [p, 'D', ''] not in ents:
                ents.append([p, 'D', ''])
        ents.append(['attic/' + v.replace('-', '/') + '/report', 'F', 'earlier one'])
    alld = names + strays
    lock = rng.choice(['absent', 'absent', 'valid', 'valid', 'valid', 'stale', 'respelled', 'nonl', 'hidden'])
    target = rng.choice(alld) if alld else None
    if target is None and lock in ('valid', 'respelled'):
        lock = 'absent'
    return {'entries': ents, 'lock': lock, 'target': target, 'keep': rng.choice([0, 0, 1, 1, 2, 3, 5]),
            'count': rng.choice([None, None, 0, 1, 2, 3, 7]), 'attic': rng.random() < 0.7,
            'spell': rng.choice(['abs', 'abs', 'abs', 'slash'])}


def materialize(case, root):
    for p, k, c in case['entries']:
        fp = os.path.join(root, p)
        os.makedirs(os.path.dirname(fp), exist_ok=True)
        if k == 'D':
            os.makedirs(fp, exist_ok=True)
        elif k == 'F':
            open(fp, 'w').write(c + '\n')
        elif k == 'L':
            os.symlink(c, fp)


def lock_content(case, rootstr):
    k, t = case['lock'], case['target']
    if k == 'absent':
        return None
    if k == 'valid':
        return '%s/%s\n' % (rootstr, t)
    if k == 'stale':
        return '%s/2020-02-02.7\n' % rootstr
    if k == 'respelled':
        return '%s//%s\n' % (rootstr.rstrip('/'), t) if not rootstr.endswith('/') else '%s/%s\n' % (rootstr.rstrip('/'), t)
    if k == 'nonl':
        return '%s/%s' % (rootstr, t or 'x')
    if k == 'hidden':
        return '%s/.hidden\n' % rootstr
    raise ValueError(k)


def snap_tokens(snap):
    toks = []
    for rel in sorted(snap):
        v = snap[rel]
        p = hexs(rel)
        if v[0] == 'd':
            toks += ['D', p]
        elif v[0] == 'f':
            toks += ['F', p, hexs(v[1])]
        elif v[0] == 'l':
            toks += ['L', p, hexs(v[1])]
        else:
            toks += ['O', p]
    return toks


def parse_fs(toks):
    res = {}
    i = 0
    while i < len(toks):
        k = toks[i]
        p = unhex(toks[i + 1])
        if k == 'D':
            res[p] = ('d',)
            i += 2
        elif k == 'F':
            res[p] = ('f', unhex(toks[i + 2]))
            i += 3
        elif k == 'L':
            res[p] = ('l', unhex(toks[i + 2]))
            i += 3
        else:
            res[p] = ('o',)
            i += 2
    return res


def run_one(ctx, impl, work, idx, case):
    d = os.path.join(work, 'c%d' % idx)
    os.makedirs(d)
    try:
        root = os.path.join(d, 'root')
        os.mkdir(root)
        tmp = os.path.join(d, 'tmp')
        os.mkdir(tmp)
        materialize(case, root)
        rootstr = root + ('/' if case['spell'] == 'slash' else '')
        lc = lock_content(case, rootstr)
        if lc is not None:
            open(os.path.join(root, '.running'), 'w').write(lc)
        conf = os.path.join(d, 'conf')
        open(conf, 'w').write('canvas-name "test"\ncanvas-dir "%s"\n%skeep-attic %s\nstep "a" command { "true" }\n'
                              % (rootstr, ('keep %d\n' % case['keep']) if case['keep'] else '',
                                 'yes' if case['attic'] else 'no'))
        before = iv_common.snapshot(root.encode())
        env = dict(os.environ)
        env['PATH'] = iv_common.SHIMS + ':' + env.get('PATH', '/usr/bin:/bin')
        env.update({'EXECDIR': impl, 'TMPDIR': tmp})
        args = ['bash', os.path.join(impl, 'robsd-clean'), '-m', 'canvas', '-C', conf]
        if case['count'] is not None:
            args.append(str(case['count']))
        try:
            r = subprocess.run(args, env=env, cwd=d, stdout=subprocess.PIPE, stderr=subprocess.PIPE, timeout=120)
            rc, out, err = r.returncode, r.stdout, r.stderr
        except subprocess.TimeoutExpired:
            rc, out, err = -999, b'', b'timeout'
        after = iv_common.snapshot(root.encode())
        leftover = os.listdir(tmp)
        return {'rootstr': rootstr.encode(), 'lock': None if lc is None else lc.encode(), 'before': before, 'after': after,
                'rc': rc, 'out': out, 'err': err, 'tmp_leftover': leftover}
    finally:
        shutil.rmtree(d, ignore_errors=True)


def load_corpus():
    return [json.load(open(p)) for p in sorted(glob.glob(os.path.join(common.VERIF, 'corpus', 'C16', '*.json')))]


def strip_lock(snap):
    return {k: v for k, v in snap.items() if k != b'.running'}


def running_name(case):
    """ground truth for the oracle: the invocation the lock file stands for, if it exists"""
    if case['lock'] in ('valid', 'respelled') and case['target']:
        return case['target']
    return None


def evaluate(ctx, cases, res, impl=None):
    impl = impl or ctx.build_impl()
    drv = iv_common.build_iv_driver(ctx)
    for s in ('tools/shims/stat (BSD stat -f %Sm -t)', 'tools/shims/find (-delete ignores ENOTEMPTY)', 'tools/shims/chflags',
              'tools/shims/logname', 'tools/shims/date'):
        if s not in ctx.shims_used:
            ctx.shims_used.append(s)
    work = ctx.mkscratch('c16work')
    with ThreadPoolExecutor(8) as ex:
        obs = list(ex.map(lambda ic: run_one(ctx, impl, work, ic[0], ic[1]), enumerate(cases)))
    qs = []
    for c, o in zip(cases, obs):
        lock = '!' if o['lock'] is None else hexs(o['lock'])
        cnt = '!' if c['count'] is None else str(c['count'])
        head = [hexs(o['rootstr']), str(c['keep']), cnt, '1' if c['attic'] else '0', lock]
        qs.append(' '.join(['clean'] + head + snap_tokens(strip_lock(o['before']))))
        qs.append(' '.join(['cleanok'] + head + [hexs((running_name(c) or '').encode()) if running_name(c) else '!',
                                                   str(o['rc'] if o['rc'] >= 0 else 999)]
                           + [str(len(snap_tokens(strip_lock(o['before']))))] + snap_tokens(strip_lock(o['before']))
                           + snap_tokens(strip_lock(o['after']))))
    ans = common.run_driver(drv, qs)
    # the specification oracle applied to the MODEL's result, wherever the lock file is consistent with
    # the running invocation (the guard of the C16 theorems): an executable cross-check of model vs spec
    qs2 = []
    idx2 = []
    for i, (c, o) in enumerate(zip(cases, obs)):
        if c['lock'] in ('absent', 'nonl', 'valid'):
            mt = ans[2 * i].split()
            lock = '!' if o['lock'] is None else hexs(o['lock'])
            cnt = '!' if c['count'] is None else str(c['count'])
            bt = snap_tokens(strip_lock(o['before']))
            qs2.append(' '.join(['cleanok', hexs(o['rootstr']), str(c['keep']), cnt, '1' if c['attic'] else '0', lock,
                                 hexs(running_name(c).encode()) if running_name(c) else '!', mt[0], str(len(bt))]
                                + bt + mt[2:]))
            idx2.append(i)
    for i, a in zip(idx2, common.run_driver(drv, qs2) if qs2 else []):
        if a != '1':
            res.tie_errors.append('the model of robsd-clean does not satisfy spec_ok_clean on %s' % json.dumps(cases[i])[:400])
    for i, (c, o) in enumerate(zip(cases, obs)):
        m, ok = ans[2 * i], ans[2 * i + 1]
        res.evaluations += 1
        mt = m.split()
        mrc, mout, mfs = mt[0], unhex(mt[1]) if len(mt) > 1 else b'', parse_fs(mt[2:])
        after = strip_lock(o['after'])
        eff = c['count'] if c['count'] else c['keep']
        ninv = sum(1 for p, v in o['before'].items() if b'/' not in p and v[0] == 'd' and not p.startswith(b'.') and p != b'attic')
        nrem = sum(1 for p, v in o['before'].items() if b'/' not in p and v[0] == 'd' and p not in o['after'])
        res.count('keep=%d' % eff)
        res.count('lock=' + c['lock'])
        res.count('attic=' + ('yes' if c['attic'] else 'no'))
        res.count('invocations=%s' % (ninv if ninv < 8 else '8+'))
        res.count('removed=%s' % (nrem if nrem < 5 else '5+'))
        if eff > 0 and nrem >= 1 and ninv - nrem >= 1:
            res.nontrivial.add(hashlib.sha1(json.dumps(c, sort_keys=True).encode()).hexdigest())
        diffs = []
        if str(o['rc']) != mrc:
            diffs.append('exit %s vs model %s' % (o['rc'], mrc))
        if o['out'] != mout:
            diffs.append('stdout differs')
        if after != mfs:
            only_impl = sorted(set(after) - set(mfs))[:4]
            only_model = sorted(set(mfs) - set(after))[:4]
            changed = sorted(p for p in set(after) & set(mfs) if after[p] != mfs[p])[:4]
            diffs.append('tree differs: only impl %r, only model %r, different %r' % (only_impl, only_model, changed))
        if o['tmp_leftover']:
            diffs.append('temporary files left: %r' % o['tmp_leftover'][:3])
        if diffs:
            res.disagreements.append({'case': c, 'model': '; '.join(diffs), 'impl': o['out'][-300:].decode('latin1'),
                                      'stderr': o['err'][-300:].decode('latin1')})
        if ok != '1':
            sig, what = classify(c, o, eff)
            res.oracle_failures.append({'case': c, 'signature': sig, 'what': what,
                                        'impl': o['out'][-300:].decode('latin1'), 'oracle': ok})
    return res


def classify(c, o, eff):
    before, after = strip_lock(o['before']), strip_lock(o['after'])
    inv = sorted((p for p, v in before.items() if b'/' not in p and v[0] == 'd' and not p.startswith(b'.') and p != b'attic'),
                 reverse=True)
    left = [p for p in inv if p in after]
    run = running_name(c)
    if eff == 0:
        return 'clean-zero-not-a-noop', 'retention 0 changed the tree'
    if run is not None and run.encode() not in left:
        return SIG_RUNNING, ('robsd-clean moved the running invocation %s away: the lock file names it as %r, robsd-ls -B '
                             'compares strings' % (run, (o['lock'] or b'').decode('latin1').strip()))
    want = min(eff, len(inv))
    if len(left) < want:
        if c['lock'] == 'respelled':
            return SIG_RUNNING, ('retention %d but %d of %d invocations left: the lock file names the running invocation as %r, '
                                 'robsd-ls -B compares strings and excludes nothing while purge skips the +1 compensation'
                                 % (eff, len(left), len(inv), (o['lock'] or b'').decode('latin1').strip()))
        if c['lock'] in ('stale', 'hidden'):
            return SIG_STALE, ('retention %d but %d of %d invocations left: the lock file names a directory that is not an '
                               'invocation of the root, purge then skips the +1 compensation' % (eff, len(left), len(inv)))
        return 'clean-keeps-too-few', 'retention %d but only %d of %d invocations left' % (eff, len(left), len(inv))
    if len(left) > want:
        return 'clean-keeps-too-many', 'retention %d but %d of %d invocations left' % (eff, len(left), len(inv))
    others = [p for p in inv if run is None or p != run.encode()]
    keep_others = others[:want - (1 if run is not None else 0)]
    if set(left) != set(keep_others) | ({run.encode()} if run is not None else set()):
        return 'clean-keeps-wrong-invocations', 'kept %r' % left
    for p, v in before.items():
        top = p.split(b'/')[0]
        if top != b'attic' and top not in inv and after.get(p) != v:
            return 'clean-touches-non-invocation', 'entry %r changed or removed' % p
    for p, v in before.items():
        top = p.split(b'/')[0]
        if top in left and after.get(p) != v:
            return 'clean-touches-kept-invocation', 'entry %r changed or removed' % p
    for p in after:
        if p.split(b'/')[0] in set(inv) - set(left):
            return 'clean-leaves-part-of-victim', 'entry %r still in the root' % p
    return 'clean-attic-content', 'attic content is not the whitelisted part of the removed invocations'


def run(ctx, n=None):
    res = common.Result()
    res.rule = ('roots with 0-18 invocation directories over three days (several per day, .9/.10/.11, no suffix), stray '
                'directories/files/symlinks/hidden directories, invocation content drawn from whitelisted and near-miss names '
                '(tmp with whitelisted names inside, whitelisted names in nested directories, directories named like whitelisted '
                'files, empty directories, symlinks), attic absent/empty/with earlier content/with the destination already '
                'there, lock absent/valid/stale/spelled differently/without newline/naming a hidden directory, keep 0-5 x count '
                'argument none/0/1-7, attic on/off, robsddir with and without trailing slash; non-trivial = retention > 0, at '
                'least one invocation removed and at least one left; distinct by content hash')
    n = n or ctx.budget(150, 3000)
    cases = load_corpus() + [gen_case(ctx.rng) for _ in range(n)]
    res.samples = cases[:2]
    res.assumptions = ['trees of up to ~300 entries in the correspondence (the theorems have no bound)']
    impl = ctx.build_impl()
    chunk = 500
    for i in range(0, len(cases), chunk):
        evaluate(ctx, cases[i:i + chunk], res, impl)
    res.traces_validated = res.evaluations
    return res


def extended_search(ctx, res, proof):
    return run(ctx, n=1200)


def replay(ctx, rep):
    case = rep.get('case') or (rep.get('first_disagreements') or [{}])[0].get('case')
    if case is None:
        print(rep)
        return 1
    res = common.Result()
    evaluate(ctx, [case], res)
    print('case:', json.dumps(case)[:2000])
    print('disagreements:', res.disagreements)
    print('oracle failures:', res.oracle_failures)
    return 1 if (res.disagreements or res.oracle_failures) else 0
