"""C16 - cleaning keeps exactly the newest N: model/spec of robsd-clean + util.sh purge vs
`bash robsd-clean -m canvas -C conf [count]` on generated roots, BSD userland behind shims (DESIGN.md 7, C16)."""
import glob, hashlib, json, os, re, shutil, subprocess
from concurrent.futures import ThreadPoolExecutor
import common, iv_common
from common import hexs, unhex

TRANSLATORS = ['t_util']
TRUSTED = ['PARTIAL CLAIM: bash standing in for ksh and GNU tail/find/cp/rm/tr/mkdir/touch standing in for the BSD userland, '
           'behind the stand-ins tools/shims/{stat (stat -f %Sm -t), find (-delete ignores ENOTEMPTY), chflags, logname, date}; '
           'robsd-config and robsd-ls are the binaries rebuilt from the working tree; robsd-clean is run in all five modes '
           '(as uid 0; the modes differ in the id -u check and the configuration only), complete canvas invocations in the '
           'trace lane; names without newline, leading/trailing blanks or "/"; '
           'file modes, owners and time stamps are not modelled; qsort as in C15; the keep directory is <robsddir>/attic '
           '(the configuration grammar accepts nothing else)']

SIG_STALE = 'clean-stale-lock-keeps-one-less'
SIG_RUNNING = 'clean-lock-spelled-differently'
SIG_AGE = 'newest-is-name-order-not-age'
SIG_BLOCKED = 'clean-attic-path-not-a-directory'
OUT_NAMES = 'outside: attic enabled and an invocation directory not named Y-M-D'

DAYS = ['2024-01-01', '2024-01-02', '2023-12-31']
# more shapes of the lock file (drawn with a smaller probability)
LOCKS_B = ['empty', 'crlf', 'valid_long', 'cut', 'respelled_slash']
STRAY_DIRS = ['src', 'a-b', '2024', 'rel', 'x', '2024-01-02x', '-n', 'a--b']
STRAY_FILES = ['strayfile', 'README', '2024-01-02.7', 'robsd.log']
CONTENT = [('report', 'F'), ('comment', 'F'), ('tags', 'F'), ('step.csv', 'F'), ('stat.csv', 'F'), ('src.diff.1', 'F'),
           ('x11.diff.2', 'F'), ('index.txt', 'F'), ('rel', 'D'), ('rel/index.txt', 'F'), ('rel/bsd.rd', 'F'),
           ('001-a.log', 'F'), ('robsd.log', 'F'), ('tmp', 'D'), ('tmp/report', 'F'), ('tmp/sub', 'D'), ('tmp/sub/x', 'F'),
           ('obj', 'D'), ('obj/deep', 'D'), ('obj/deep/x', 'F'), ('keepme', 'D'), ('keepme/a', 'D'), ('keepme/a/comment', 'F'),
           ('keepme/a/other', 'F'), ('empty', 'D'), ('.diff.', 'F'), ('a.diff.', 'F'), ('adiff.1', 'F'), ('reportx', 'F'),
           ('xreport', 'F'), ('step.csv.bak', 'F')]
SPECIAL = [('tagslink', 'L'), ('reportdir', 'D')]


# ---- boundary classes (sizes / shapes a fixed buffer, a narrowed integer, a growth step or an off-by-one trips over) ----
# numbers of invocation directories around the growth steps of robsd-ls's vector (16, doubling) - also the number of
# lines `tail -n +N` and the `while read` loop of purge see
COUNTS = [15, 16, 17, 31, 32, 33, 63, 64, 65]
COUNTS_BIG = [255, 256]          # the extracted oracle is cubic in the tree: drawn rarely, with nearly empty invocations
PER_DAY = [99, 100, 101]         # 9/10/11 are in the ordinary stream; 999/1000 see corpus/C16/b16_per_day_1000.json
# retention values next to the integer limits.  The configuration takes `keep` as a C int (2^31 is "integer too big", a
# configuration error, C08); the count ARGUMENT is compared by the shell ([ -eq ], $((n + 1)), tail -n +N): bash and ksh
# agree up to 2^63 - 2, beyond that $((n + 1)) wraps in bash and not in ksh93 - outside what bash can stand in for.
BIG_KEEP = [2 ** 31 - 1, 2 ** 31, 2 ** 32 - 1, 2 ** 32, 2 ** 62]
# PurgeDefs.effective_keep takes the retention as `nat` - unary in the extracted code, 2^31 of them do not fit in memory.
# Every tree here has far fewer than MODEL_CAP invocations, and skipn k l = [] for every k >= length l: the model and
# the oracle are given min(value, MODEL_CAP), the implementation the value itself.
MODEL_CAP = 100000
ROOT_LENS = [254, 255, 256, 1023, 1024, 1025, 3000]
ATTIC_OLD = [1, 16, 17, 64, 65]
# content of the invocations of a `bulk` description, by index
PROFILES = [[],
            [['report', 'F', 'r'], ['tmp', 'D', ''], ['tmp/x', 'F', 't'], ['001-a.log', 'F', 'l']],
            [['report', 'F', 'old report']],
            [['comment', 'F', 'c'], ['rel', 'D', ''], ['rel/index.txt', 'F', 'i'], ['rel/bsd.rd', 'F', 'b'], ['tmp', 'D', '']]]
DEEP = 64


def expand(case):
    """entries of a case: the explicit ones plus the compact form `bulk` = [[prefix, lo, hi, profile], ...] standing for
    the directories prefix + decimal(k), lo <= k <= hi, each with the content PROFILES[profile] (keeps corpus files
    with hundreds of invocations small)"""
    ents = [list(e) for e in case['entries']]
    for prefix, lo, hi, prof in case.get('bulk') or []:
        for k in range(lo, hi + 1):
            n = '%s%d' % (prefix, k)
            ents.append([n, 'D', ''])
            ents += [[n + '/' + r, kind, c] for r, kind, c in PROFILES[prof]]
    return ents


def top_dirs(case):
    """names of the directories the case puts into the root that robsd-ls lists"""
    return [p for p, k, c in expand(case) if k == 'D' and '/' not in p and not p.startswith('.') and p != 'attic']


def gen_inv_boundary(rng, name):
    """content of an invocation at the boundaries of purge: tmp with 1 / many files (whitelisted names among them), tmp
    inside tmp and inside another directory, 64 levels of nesting below tmp and below a directory that holds a
    whitelisted file at the bottom, names of NAME_MAX bytes (one off, one on the whitelist, one a directory)"""
    w = rng.choice(['tmp-1', 'tmp-many', 'tmp-nested', 'deep', 'name-255'])
    ents = []
    if w == 'tmp-1':
        ents = [['tmp', 'D', ''], ['tmp/only', 'F', 'x']]
    elif w == 'tmp-many':
        ents = [['tmp', 'D', '']] + [['tmp/f%d' % i, 'F', 'x'] for i in range(rng.choice([15, 16, 17, 64, 65]))]
        ents += [['tmp/report', 'F', 'x'], ['tmp/a.diff.1', 'F', 'x'], ['tmp/index.txt', 'F', 'x'], ['tmp/tags', 'F', 'x']]
    elif w == 'tmp-nested':
        ents = [['tmp', 'D', ''], ['tmp/tmp', 'D', ''], ['tmp/tmp/report', 'F', 'x'], ['tmp/tmp/tmp', 'D', ''],
                ['rel', 'D', ''], ['rel/tmp', 'D', ''], ['rel/tmp/report', 'F', 'kept'], ['rel/tmp/junk', 'F', 'x'],
                ['tmp.d', 'D', ''], ['tmp.d/stat.csv', 'F', 'kept'], ['tmpx', 'F', 'x']]
    elif w == 'deep':
        chain = ['obj'] + ['d'] * (DEEP - 1)
        ents = [['/'.join(chain[:i]), 'D', ''] for i in range(1, DEEP + 1)]
        ents += [['/'.join(chain) + '/report', 'F', 'deep and kept'], ['/'.join(chain) + '/junk', 'F', 'x'],
                 ['/'.join(chain[:DEEP // 2]) + '/junk', 'F', 'x']]
        tchain = ['tmp'] + ['t'] * DEEP
        ents += [['/'.join(tchain[:i]), 'D', ''] for i in range(1, DEEP + 2)] + [['/'.join(tchain) + '/report', 'F', 'x']]
    else:
        ents = [['n' * iv_common.NAME_MAX, 'F', 'x'], ['x' * (iv_common.NAME_MAX - 7) + '.diff.1', 'F', 'kept'],
                ['m' * iv_common.NAME_MAX, 'D', ''], ['m' * iv_common.NAME_MAX + '/comment', 'F', 'kept'],
                ['m' * iv_common.NAME_MAX + '/' + 'j' * iv_common.NAME_MAX, 'F', 'x']]
    return [[name + '/' + p, k, c] for p, k, c in ents]


def gen_inv_content(rng, name):
    ents = []
    have = set()
    for p, k in CONTENT:
        parent = p.rsplit('/', 1)[0] if '/' in p else None
        if rng.random() < 0.45 and (parent is None or parent in have):
            ents.append([name + '/' + p, k, 'c:' + p])
            have.add(p)
    if rng.random() < 0.2:
        ents.append([name + '/tags2', 'L', 'report'])
    if rng.random() < 0.15:
        # a directory whose own name is on the whitelist, with other content
        ents += [[name + '/report.d', 'D', ''], [name + '/stat.csv.d', 'D', '']]
        ents = [e for e in ents if e[0] != name + '/comment']
        ents += [[name + '/comment', 'D', ''], [name + '/comment/junk', 'F', 'j']]
    return ents


def gen_many(rng):
    """a root with exactly n invocation directories, n around a growth step of robsd-ls's vector or a day with
    99..101 invocations: consecutive numbers (every shorter name is a prefix of a longer one, name order is not age
    order beyond nine a day), nearly empty so that the extracted oracle stays within seconds"""
    r = rng.random()
    if r < 0.7:
        n, days = rng.choice(COUNTS), rng.choice([1, 2, 3])
    elif r < 0.9:
        n, days = rng.choice(PER_DAY), 1
    else:
        n, days = rng.choice(COUNTS_BIG), rng.choice([1, 3])
    bulk = []
    left = n
    for i, d in enumerate(DAYS[:days]):
        take = left if i == days - 1 else rng.randint(0, left)
        if take:
            bulk.append([d + '.', 1, take, 0 if n > 70 else rng.choice([0, 1, 1, 3])])
        left -= take
    return bulk, n


def gen_case(rng):
    ents = []
    names = []
    bulk = None
    if rng.random() < 0.05:
        bulk, _ = gen_many(rng)
    for d in DAYS:
        if bulk:
            break
        if rng.random() < 0.75:
            if rng.random() < 0.2:
                names.append(d)
            if rng.random() < 0.12:
                # a busy day: a run of consecutive numbers across the one-digit boundary
                lo = rng.choice([2, 7, 8, 9])
                ks = list(range(lo, rng.choice([10, 11, 12, 13]) + 1))
            else:
                ks = [k for k in [1, 2, 3, 9, 10, 11] if rng.random() < 0.4]
            names += ['%s.%d' % (d, k) for k in ks]
    if rng.random() < 0.15:
        names = names[:1]
    if rng.random() < 0.05:
        names = []
    strays = [n for n in STRAY_DIRS if rng.random() < 0.03]
    for n in names + strays:
        ents.append([n, 'D', ''])
        ents += gen_inv_content(rng, n)
        if rng.random() < 0.06:
            ents += gen_inv_boundary(rng, n)
    if bulk:
        names = top_dirs({'entries': [], 'bulk': bulk})
    for n in STRAY_FILES:
        if rng.random() < 0.2 and n not in names:
            ents.append([n, 'F', 'stray ' + n])
    if rng.random() < 0.08:
        # entries next to the invocations that are not invocations: names of 1 and NAME_MAX bytes, a name byte-adjacent
        # to a date, a dangling symlink, symlinks to invocation directories named like invocations (seed C16-3)
        for e in [['f', 'F', 'one'], ['F' * iv_common.NAME_MAX, 'F', 'long'], ['2024-01-010', 'F', 'adjacent'],
                  ['dangling', 'L', 'nowhere'], ['2024-01-02.99', 'L', names[0] if names else 'nowhere'],
                  ['2024-01-03.1', 'L', names[-1] if names else '.'], ['.2024-01-02.1', 'D', ''], ['TMP', 'F', 'x']]:
            if rng.random() < 0.5 and e[0] not in names:
                ents.append(e)
    if rng.random() < 0.2:
        ents.append(['.hidden', 'D', ''])
        ents.append(['.hidden/report', 'F', 'h'])
    if rng.random() < 0.15 and names:
        ents.append(['latest', 'L', names[-1]])
    attic = rng.choice(['absent', 'absent', 'empty', 'old', 'old', 'collide', 'blocked'])
    dated = [n for n in names if re.fullmatch(r'\d{4}-\d{2}-\d{2}\.\d+', n)]
    if attic == 'blocked' and not dated:
        attic = 'empty'
    if attic == 'blocked':
        # something that is not a directory where attic, attic/YYYY, attic/YYYY/MM or attic/YYYY/MM/DD.X of an
        # invocation has to go
        comps = ['attic'] + rng.choice(dated).replace('-', '/').split('/')
        depth = rng.choice([1, 2, 2, 3, 4])
        for i in range(1, depth):
            ents.append(['/'.join(comps[:i]), 'D', ''])
        if rng.random() < 0.5 and depth > 1:
            ents.append(['attic/note', 'F', 'keep this'])
        ents.append(['/'.join(comps[:depth]), 'F', 'in the way'])
    elif attic != 'absent':
        ents.append(['attic', 'D', ''])
    if attic in ('old', 'collide'):
        ents += [['attic/2023', 'D', ''], ['attic/2023/11', 'D', ''], ['attic/2023/11/30.1', 'D', ''],
                 ['attic/2023/11/30.1/report', 'F', 'old report'], ['attic/note', 'F', 'keep this']]
        if rng.random() < 0.1:
            # an attic that already holds 16/17/64/65 invocations
            bulk = (bulk or []) + [['attic/2023/11/30.', 2, rng.choice(ATTIC_OLD), 2]]
    if attic == 'collide' and names:
        v = rng.choice(names)
        comps = v.replace('-', '/').split('/')
        for i in range(1, len(comps) + 1):
            p = 'attic/' + '/'.join(comps[:i])
            if [p, 'D', ''] not in ents:
                ents.append([p, 'D', ''])
        ents.append(['attic/' + v.replace('-', '/') + '/report', 'F', 'earlier one'])
    alld = names + strays
    lock = rng.choice(['absent', 'absent', 'valid', 'valid', 'valid', 'stale', 'respelled', 'nonl', 'hidden']
                      + (LOCKS_B if rng.random() < 0.3 else []))
    target = rng.choice(alld) if alld else None
    if target is not None and rng.random() < 0.3:
        # a target whose path is a proper prefix of another invocation's path (DATE.1 next to DATE.10), when there is one
        pre = [x for x in alld if any(y != x and y.startswith(x) for y in alld)]
        target = rng.choice(pre) if pre else target
    if target is None and lock in ('valid', 'respelled', 'crlf', 'valid_long', 'cut', 'respelled_slash'):
        lock = 'absent'
    n = len(alld)
    keep = rng.choice([0, 0, 1, 1, 2, 3, 5])
    count = rng.choice([None, None, 0, 1, 2, 3, 7])
    r = rng.random()
    if r < 0.12 or (bulk and r < 0.7):
        # the retention at the number of invocations and one to either side, through the argument or the configuration
        v = max(0, n + rng.choice([-2, -1, -1, 0, 0, 1, 1, 2]))
        if rng.random() < 0.6:
            count = v
        else:
            keep, count = v, rng.choice([None, 0])
    elif r < 0.17:
        if rng.random() < 0.7:
            count = rng.choice(BIG_KEEP)
        else:
            keep, count = 2 ** 31 - 1, rng.choice([None, 0])
    case = {'entries': ents, 'lock': lock, 'target': target, 'keep': keep, 'count': count, 'attic': rng.random() < 0.7,
            'spell': rng.choice(['abs', 'abs', 'abs', 'slash']),
            'mode': rng.choice(['canvas', 'canvas', 'canvas'] + iv_common.MODES)}
    if bulk:
        case['bulk'] = bulk
    if n > 40 and not (count or keep) >= n - 2:
        # many victims with the attic enabled cost the extracted oracle (cubic in the tree) 5-40 s: a big root is cleaned
        # down to a few only with the attic disabled (0.5-2 s)
        case['attic'] = False
    if rng.random() < 0.05:
        case['rootlen'] = rng.choice(ROOT_LENS)
    return case


def materialize(case, root):
    for p, k, c in expand(case):
        fp = os.path.join(root, p)
        os.makedirs(os.path.dirname(fp), exist_ok=True)
        if k == 'D':
            os.makedirs(fp, exist_ok=True)
        elif k == 'F':
            open(fp, 'w').write(c + '\n')
        elif k == 'L':
            os.symlink(c, fp)


def lock_content(case, rootstr):
    k, t = case['lock'], case['target']
    if k == 'absent':
        return None
    if k == 'valid':
        return '%s/%s\n' % (rootstr, t)
    if k == 'stale':
        return '%s/2020-02-02.7\n' % rootstr
    if k == 'respelled':
        return '%s//%s\n' % (rootstr.rstrip('/'), t) if not rootstr.endswith('/') else '%s/%s\n' % (rootstr.rstrip('/'), t)
    if k == 'nonl':
        return '%s/%s' % (rootstr, t or 'x')
    if k == 'hidden':
        return '%s/.hidden\n' % rootstr
    if k == 'empty':
        return ''
    if k == 'crlf':
        return '%s/%s\r\n' % (rootstr, t)
    if k == 'valid_long':                      # more than one 4096-byte block; the first line is the whole truth
        return '%s/%s\n%s\n' % (rootstr, t, 'x' * 5000)
    if k == 'cut':                             # the path of the target less its last byte: a PREFIX of it
        return '%s/%s\n' % (rootstr, t[:-1])
    if k == 'respelled_slash':
        return '%s/%s/\n' % (rootstr, t)
    raise ValueError(k)


def snap_tokens(snap):
    toks = []
    for rel in sorted(snap):
        v = snap[rel]
        p = hexs(rel)
        if v[0] == 'd':
            toks += ['D', p]
        elif v[0] == 'f':
            toks += ['F', p, hexs(v[1])]
        elif v[0] == 'l':
            toks += ['L', p, hexs(v[1])]
        else:
            toks += ['O', p]
    return toks


def parse_fs(toks):
    res = {}
    i = 0
    while i < len(toks):
        k = toks[i]
        p = unhex(toks[i + 1])
        if k == 'D':
            res[p] = ('d',)
            i += 2
        elif k == 'F':
            res[p] = ('f', unhex(toks[i + 2]))
            i += 3
        elif k == 'L':
            res[p] = ('l', unhex(toks[i + 2]))
            i += 3
        else:
            res[p] = ('o',)
            i += 2
    return res


def run_one(ctx, impl, work, idx, case):
    d = os.path.join(work, 'c%d' % idx)
    os.makedirs(d)
    try:
        post = '/' if case['spell'] == 'slash' else ''
        if case.get('rootlen'):
            # robsddir spelled with exactly `rootlen` bytes: padding directories of up to NAME_MAX bytes in between
            need = case['rootlen'] - len(d) - 1 - len(post)
            if need < 1:
                raise common.BuildFailure('C16 case: rootlen %r is shorter than the scratch directory allows' % case['rootlen'])
            root = os.path.join(d, '/'.join(iv_common.root_components(need)))
        else:
            root = os.path.join(d, 'root')
        os.makedirs(root)
        tmp = os.path.join(d, 'tmp')
        os.mkdir(tmp)
        materialize(case, root)
        rootstr = root + post
        lc = lock_content(case, rootstr)
        if lc is not None:
            open(os.path.join(root, '.running'), 'w').write(lc)
        conf = os.path.join(d, 'conf')
        mode = case.get('mode', 'canvas')
        extra = '%skeep-attic %s\n' % (('keep %d\n' % case['keep']) if case['keep'] else '', 'yes' if case['attic'] else 'no')
        aux = os.path.join(d, 'aux')
        os.mkdir(aux)
        iv_common.write_conf(conf, mode, rootstr, aux, extra)
        before = iv_common.snapshot(root.encode())
        env = dict(os.environ)
        env['PATH'] = iv_common.SHIMS + ':' + env.get('PATH', '/usr/bin:/bin')
        env.update({'EXECDIR': impl, 'TMPDIR': tmp})
        args = ['bash', os.path.join(impl, 'robsd-clean'), '-m', mode, '-C', conf]
        if case['count'] is not None:
            args.append(str(case['count']))
        try:
            r = subprocess.run(args, env=env, cwd=d, stdout=subprocess.PIPE, stderr=subprocess.PIPE, timeout=120)
            rc, out, err = r.returncode, r.stdout, r.stderr
        except subprocess.TimeoutExpired:
            rc, out, err = -999, b'', b'timeout'
        after = iv_common.snapshot(root.encode())
        leftover = os.listdir(tmp)
        return {'rootstr': rootstr.encode(), 'lock': None if lc is None else lc.encode(), 'before': before, 'after': after,
                'rc': rc, 'out': out, 'err': err, 'tmp_leftover': leftover}
    finally:
        shutil.rmtree(d, ignore_errors=True)


def gen_trace(rng):
    """consecutive complete canvas invocations on one day (each cleans with the configured keep while it runs)"""
    return {'kind': 'trace', 'keep': rng.choice([1, 2, 2, 3]), 'attic': rng.random() < 0.8,
            'runs': rng.choice([4, 5, 6, 7, 8])}


def run_trace(ctx, impl, work, idx, case):
    """-> [(derived case, observation)]: one per cleaning the real canvas performed"""
    d = os.path.join(work, 't%d' % idx)
    os.makedirs(d)
    try:
        root = os.path.join(d, 'root')
        tmp = os.path.join(d, 'tmp')
        snap = os.path.join(d, 'snap')
        for x in (root, tmp, snap):
            os.mkdir(x)
        conf = os.path.join(d, 'conf')
        open(conf, 'w').write('canvas-name "test"\ncanvas-dir "%s"\nkeep %d\nkeep-attic %s\nstep "a" command { "true" }\n'
                              % (root, case['keep'], 'yes' if case['attic'] else 'no'))
        env = dict(os.environ)
        env['PATH'] = iv_common.SHIMS + ':' + env.get('PATH', '/usr/bin:/bin')
        env.update({'EXECDIR': impl, 'TMPDIR': tmp, 'VERIF_FAKE_DATE': case.get('date', '2024-03-05'),
                    'ROBSDCLEAN': os.path.join(iv_common.SHIMS, 'robsd-clean-snap'), 'VERIF_SNAP': snap, 'VERIF_SNAP_ROOT': root})
        born = []
        res = []
        for i in range(case['runs']):
            try:
                r = subprocess.run(['bash', os.path.join(impl, 'canvas'), '-d', '-C', conf], env=env, cwd=d,
                                   stdout=subprocess.PIPE, stderr=subprocess.STDOUT, timeout=120)
                out = r.stdout.decode('latin1')
            except subprocess.TimeoutExpired:
                out = 'timeout'
            m = re.search(r'using directory (\S+) at step (\d+)', out)
            used = os.path.basename(m.group(1)).encode() if m else None
            n = i + 1
            if used is None or not os.path.isdir(os.path.join(snap, 'before.%d' % n)):
                raise common.BuildFailure('trace lane: canvas run %d did not get as far as robsd-clean:\n%s' % (n, out[-600:]))
            if used in born:
                born.remove(used)
            born.append(used)                  # creation order, oldest first; a reused name counts as made again
            before = iv_common.snapshot(os.path.join(snap, 'before.%d' % n).encode())
            after = iv_common.snapshot(os.path.join(snap, 'after.%d' % n).encode())
            lock = before.get(b'.running', ('f', None))[1]
            derived = {'entries': [], 'lock': 'valid', 'target': used.decode('latin1'), 'keep': case['keep'], 'count': None,
                       'attic': case['attic'], 'spell': 'abs', 'origin': case, 'step': n}
            res.append((derived, {'rootstr': root.encode(), 'lock': lock, 'before': before, 'after': after,
                                  'rc': int(open(os.path.join(snap, 'rc.%d' % n)).read().strip() or -1),
                                  'out': open(os.path.join(snap, 'out.%d' % n), 'rb').read(),
                                  'err': open(os.path.join(snap, 'err.%d' % n), 'rb').read(), 'tmp_leftover': [],
                                  'ages': list(reversed(born))}))
        return res
    finally:
        shutil.rmtree(d, ignore_errors=True)


def load_corpus():
    d = os.path.join(common.VERIF, 'corpus', 'C16')
    files = sorted(glob.glob(os.path.join(d, '*.json')))
    if not files:
        raise common.BuildFailure('corpus/C16 is missing or empty: the replays of the known and fixed findings cannot run')
    return [json.load(open(p)) for p in files]


DATED = re.compile(rb'(\d{4}-\d{2}-\d{2})\.([1-9]\d*)')


def age_key(name):
    """The order in which the harness "made" the invocations of a generated root: DATE.k is the k-th invocation of
    its day, so among names of one date the numeric suffix decides; everything else is ordered as robsd-ls orders
    it (bytes).  Realised by comparing the names with the suffix zero-padded - the only pairs this orders
    differently from strcmp are same-date names whose suffixes differ in length (DATE.9 / DATE.10)."""
    m = DATED.fullmatch(name)
    return m.group(1) + b'.' + m.group(2).rjust(12, b'0') if m else name


def invocations_of(snap):
    return [p for p, v in snap.items() if b'/' not in p and v[0] == 'd' and not p.startswith(b'.') and p != b'attic']


def ages_of(o):
    """the invocations by age, newest first: the order the trace lane recorded, else the order of generation"""
    if o.get('ages') is not None:
        return [a for a in o['ages'] if a in invocations_of(o['before'])]
    return sorted(invocations_of(o['before']), key=age_key, reverse=True)


SHAPED = re.compile(rb'[^-/]+-[^-/]+-[^-/]+')


def outside_names(c, before):
    """C16 speaks of invocations that reappear as attic/YYYY/MM/DD.X: names of the shape Y-M-D, which is what
    build_id hands out (C16_names_are_date_shaped).  A root in which some OTHER directory sits next to them
    (src, a-b, 2024 - robsd-ls lists them, so purge treats them as invocations) has no destination of that
    shape for it, and two such names can share one (a-b / a--b, a-a / a: C16_attic_complete_refuted).  With the
    attic enabled such a root is outside the statement: the case is counted, not judged by the oracle; the
    model-vs-implementation comparison still runs on it.  With the attic disabled the oracle judges every root."""
    return c['attic'] and any(not SHAPED.fullmatch(n) for n in invocations_of(before))


def strip_lock(snap):
    return {k: v for k, v in snap.items() if k != b'.running'}


def replayable(c):
    return c.get('origin', c)


def running_name(case):
    """ground truth for the oracle: the invocation the lock file stands for, if it exists"""
    if case['lock'] in ('valid', 'respelled', 'valid_long', 'respelled_slash') and case['target']:
        return case['target']
    if case['lock'] == 'cut' and case['target'] and case['target'][:-1] in top_dirs(case):
        return case['target'][:-1]          # the cut path is the path of another invocation (DATE.10 -> DATE.1)
    return None


def mcap(v):
    """a retention value as the model and the oracle are given it (see MODEL_CAP)"""
    return str(min(v, MODEL_CAP))


def evaluate(ctx, cases, res, impl=None):
    impl = impl or ctx.build_impl()
    drv = iv_common.build_iv_driver(ctx)
    for s in ('tools/shims/stat (BSD stat -f %Sm -t)', 'tools/shims/find (-delete ignores ENOTEMPTY)', 'tools/shims/chflags',
              'tools/shims/logname', 'tools/shims/date'):
        if s not in ctx.shims_used:
            ctx.shims_used.append(s)
    work = ctx.mkscratch('c16work')
    if any(c.get('kind') == 'trace' for c in cases):
        for s in ('tools/shims/robsd-clean-snap (wrapper keeping copies of the root)', 'tools/shims/sendmail'):
            if s not in ctx.shims_used:
                ctx.shims_used.append(s)
    with ThreadPoolExecutor(8) as ex:
        parts = list(ex.map(lambda ic: run_trace(ctx, impl, work, ic[0], ic[1]) if ic[1].get('kind') == 'trace'
                            else [(ic[1], run_one(ctx, impl, work, ic[0], ic[1]))], enumerate(cases)))
    cases = [c for part in parts for c, _ in part]
    obs = [o for part in parts for _, o in part]
    qs = []
    for c, o in zip(cases, obs):
        lock = '!' if o['lock'] is None else hexs(o['lock'])
        cnt = '!' if c['count'] is None else mcap(c['count'])
        head = [hexs(o['rootstr']), mcap(c['keep']), cnt, '1' if c['attic'] else '0', lock]
        qs.append(' '.join(['clean'] + head + snap_tokens(strip_lock(o['before']))))
        ages = ages_of(o)
        qs.append(' '.join(['cleanok'] + head + [hexs((running_name(c) or '').encode()) if running_name(c) else '!',
                                                   str(o['rc'] if o['rc'] >= 0 else 999)]
                           + [str(len(ages))] + [hexs(a) for a in ages]
                           + [str(len(snap_tokens(strip_lock(o['before']))))] + snap_tokens(strip_lock(o['before']))
                           + snap_tokens(strip_lock(o['after']))))
    ans = common.run_driver(drv, qs)
    # the specification oracle applied to the MODEL's result, wherever the lock file is consistent with
    # the running invocation (the guard of the C16 theorems): an executable cross-check of model vs spec
    qs2 = []
    idx2 = []
    for i, (c, o) in enumerate(zip(cases, obs)):
        if c['lock'] in ('absent', 'nonl', 'valid', 'empty', 'valid_long') and not outside_names(c, o['before']) and not blocked_possible(c, o['before']):
            # the guards of C16_oracle_accepts_model: consistent lock, names Y-M-D, every victim archived
            mt = ans[2 * i].split()
            lock = '!' if o['lock'] is None else hexs(o['lock'])
            cnt = '!' if c['count'] is None else mcap(c['count'])
            bt = snap_tokens(strip_lock(o['before']))
            qs2.append(' '.join(['cleanok', hexs(o['rootstr']), mcap(c['keep']), cnt, '1' if c['attic'] else '0', lock,
                                 hexs(running_name(c).encode()) if running_name(c) else '!', mt[0], '!', str(len(bt))]
                                + bt + mt[2:]))
            idx2.append(i)
    for i, a in zip(idx2, common.run_driver(drv, qs2) if qs2 else []):
        if a != '1':
            res.tie_errors.append('the model of robsd-clean does not satisfy spec_ok_clean on %s' % json.dumps(replayable(cases[i]))[:400])
    for i, (c, o) in enumerate(zip(cases, obs)):
        m, ok = ans[2 * i], ans[2 * i + 1]
        res.evaluations += 1
        mt = m.split()
        mrc, mout, mfs = mt[0], unhex(mt[1]) if len(mt) > 1 else b'', parse_fs(mt[2:])
        after = strip_lock(o['after'])
        eff = c['count'] if c['count'] else c['keep']
        ninv = sum(1 for p, v in o['before'].items() if b'/' not in p and v[0] == 'd' and not p.startswith(b'.') and p != b'attic')
        nrem = sum(1 for p, v in o['before'].items() if b'/' not in p and v[0] == 'd' and p not in o['after'])
        res.count('keep=%s' % (eff if eff < 20 else '20+' if eff < 2 ** 31 - 1 else '2^31-1 and more'))
        for cl in classes_of(c, o, eff, ninv):
            res.count('class: ' + cl)
        res.count('lock=' + c['lock'])
        res.count('lane=' + ('trace' if 'origin' in c else 'root'))
        res.count('attic=' + ('yes' if c['attic'] else 'no'))
        res.count('mode=' + c.get('mode', 'canvas'))
        res.count('invocations=%s' % (ninv if ninv < 8 else '8+'))
        res.count('removed=%s' % (nrem if nrem < 5 else '5+'))
        if eff > 0 and nrem >= 1 and ninv - nrem >= 1:
            res.nontrivial.add(hashlib.sha1(json.dumps([replayable(c), c.get('step')], sort_keys=True).encode()).hexdigest())
        diffs = []
        if str(o['rc']) != mrc:
            diffs.append('exit %s vs model %s' % (o['rc'], mrc))
        if o['out'] != mout:
            diffs.append('stdout differs')
        if after != mfs:
            only_impl = sorted(set(after) - set(mfs))[:4]
            only_model = sorted(set(mfs) - set(after))[:4]
            changed = sorted(p for p in set(after) & set(mfs) if after[p] != mfs[p])[:4]
            diffs.append('tree differs: only impl %r, only model %r, different %r' % (only_impl, only_model, changed))
        if o['tmp_leftover']:
            diffs.append('temporary files left: %r' % o['tmp_leftover'][:3])
        if diffs:
            res.disagreements.append({'case': replayable(c), 'model': '; '.join(diffs), 'impl': o['out'][-300:].decode('latin1'),
                                      'stderr': o['err'][-300:].decode('latin1')})
        if outside_names(c, o['before']):
            # not judged: see outside_names
            res.count(OUT_NAMES)
            continue
        res.count('judged')
        if ages_of(o) != sorted(invocations_of(o['before']), reverse=True):
            res.count('age order differs from name order')
        if ok != '1':
            sig, what = classify(c, o, eff)
            res.oracle_failures.append({'case': replayable(c), 'signature': sig, 'what': ('cleaning of run %d: ' % c['step'] if 'step' in c else '') + what,
                                        'impl': o['out'][-300:].decode('latin1'), 'oracle': ok})
    return res


def classes_of(c, o, eff, ninv):
    """the boundary classes a case belongs to (printed into the input distribution as `class: ...`)"""
    out = []
    before = o['before']
    inv = invocations_of(before)
    if ninv in COUNTS + COUNTS_BIG:
        out.append('invocations=%d' % ninv)
    days = {}
    for n in inv:
        m = DATED.fullmatch(n)
        if m:
            days[m.group(1)] = days.get(m.group(1), 0) + 1
    for k in days.values():
        if k in (9, 10, 11, 99, 100, 101, 999, 1000):
            out.append('per-day=%d' % k)
    if eff > 0:
        for dlt, nm in ((-1, 'n-1'), (0, 'n'), (1, 'n+1')):
            if eff == ninv + dlt:
                out.append('retention=' + nm)
        if eff == 1:
            out.append('retention=1')
        for v in BIG_KEEP:
            if eff == v:
                out.append('retention=%d (%s)' % (v, 'configuration' if not c['count'] else 'argument'))
    sa = sorted(inv)
    if any(y.startswith(x) for x, y in zip(sa, sa[1:])):
        out.append('invocation names that are prefixes of each other')
    line = lock_first_line(o)
    if line is not None and line.startswith(o['rootstr'] + b'/') and \
            any((o['rootstr'] + b'/' + n).startswith(line) and o['rootstr'] + b'/' + n != line for n in inv):
        out.append('lock line is a proper prefix of an invocation path')
    if c['lock'] in LOCKS_B:
        out.append('lock-shape=' + c['lock'])
    if o['lock'] is not None and len(o['lock']) > iv_common.PATH_MAX:
        out.append('lock file > 4096 bytes')
    if len(o['rootstr']) in ROOT_LENS:
        out.append('root-len=%d' % len(o['rootstr']))
    old = sum(1 for p, v in before.items() if p.count(b'/') == 3 and p.startswith(b'attic/') and v[0] == 'd')
    if old in (1, 16, 17, 64, 65):
        out.append('attic already holds %d' % old)
    top = {p: v for p, v in before.items() if b'/' not in p}
    if any(v[0] == 'l' and p not in (b'latest',) for p, v in top.items()):
        out.append('symlink in the root' + (' named like an invocation' if any(v[0] == 'l' and DATED.fullmatch(p) for p, v in top.items()) else ''))
    if any(len(p) in (1, iv_common.NAME_MAX) for p in top):
        out.append('root entry name of 1 / NAME_MAX bytes')
    depth = max([p.count(b'/') for p in before] + [0])
    if depth >= DEEP:
        out.append('nesting >= %d levels' % DEEP)
    if any(len(x) == iv_common.NAME_MAX for p in before for x in p.split(b'/')[1:]):
        out.append('name of NAME_MAX bytes inside an invocation')
    for n in inv:
        k = sum(1 for p in before if p.startswith(n + b'/tmp/') and p.count(b'/') == 2)
        if n + b'/tmp' in before and k in (0, 1) or k >= 15:
            out.append('tmp with %s entries' % (k if k < 15 else '15+'))
        if n + b'/tmp/tmp' in before or n + b'/rel/tmp' in before:
            out.append('tmp nested in tmp / in another directory')
    return sorted(set(out))


def blocked_possible(c, before):
    """something that is not a directory sits where an attic directory of one of the invocations has to go"""
    nondirs = {p for p, v in before.items() if v[0] != 'd'}
    return c['attic'] and any(p in nondirs for v in invocations_of(before) for p in attic_paths(v))


def lock_first_line(o):
    """the value of ${builddir}: the first line of .running, if it has one"""
    l = o['lock']
    if l is None or b'\n' not in l.split(b'\0')[0]:
        return None
    return l.split(b'\0')[0].split(b'\n')[0]


def attic_paths(v):
    """attic, attic/Y, attic/Y/M, attic/Y/M/D.X for an invocation named Y-M-D.X"""
    comps = [b'attic'] + [x for x in v.replace(b'-', b'/').split(b'/') if x]
    return [b'/'.join(comps[:i]) for i in range(1, len(comps) + 1)]


def classify(c, o, eff):
    """Which failure of the property this is.  The four findings that are known (known_findings.json) are recognised
    by the input class they belong to AND by the exact behaviour recorded for them; anything else under the same
    kind of lock / root is an ordinary violation with its own signature."""
    before, after = strip_lock(o['before']), strip_lock(o['after'])
    inv = sorted(invocations_of(before), reverse=True)            # the order robsd-ls lists them in
    ages = ages_of(o)                                              # the order they were made in, newest first
    left = [p for p in inv if p in after and after[p][0] == 'd']
    run = running_name(c)
    runb = run.encode() if run is not None else None
    if eff == 0:
        return 'clean-zero-not-a-noop', 'retention 0 changed the tree'
    line = lock_first_line(o)
    printed = {o['rootstr'] + b'/' + p: p for p in inv}

    def kept_of(order):
        if runb is not None and runb in order:
            return [runb] + [p for p in order if p != runb][:eff - 1]
        return order[:eff]

    # (1) the attic path of a victim is blocked by something that is not a directory: the victims before it are
    #     archived, the blocked one and every later one are still in the root (C16_attic_blocked_refuted)
    if c['attic']:
        # the victims as purge selects them for this lock line: the listing (name order) minus the path the line
        # names, from position eff - or eff+1 when there is no line
        if line is None:
            vict = inv[eff:]
        elif line in printed:
            vict = [p for p in inv if p != printed[line]][eff - 1:]
        else:
            vict = inv[eff - 1:]
        spared = [p for p in inv if p not in vict]
        nondirs = {p for p, v in before.items() if v[0] != 'd'}
        for i, v in enumerate(vict):
            if any(p in nondirs for p in attic_paths(v)):
                if [p for p in vict if p in left] == vict[i:] and set(spared) <= set(left) and o['rc'] == 0:
                    return SIG_BLOCKED, ('%r where the attic directory of %s has to go is not a directory: purge stopped there, '
                                         '%d of %d victims are still in the root (the first of them without its logs), exit 0'
                                         % ([p for p in attic_paths(v) if p in nondirs][0].decode('latin1'), v.decode('latin1'),
                                            len(vict) - i, len(vict)))
                break
    # (2) the lock's first line denotes the running invocation but is spelled differently from the path
    #     robsd-ls prints: -B omits nothing, purge skips the +1: the eff-1 first names are left
    if c['lock'] in ('respelled', 'respelled_slash') and runb is not None and line is not None and line not in printed \
            and os.path.normpath(line.decode('latin1')) == os.path.normpath((o['rootstr'] + b'/' + runb).decode('latin1')) \
            and left == inv[:eff - 1]:
        return SIG_RUNNING, ('the lock file names the running invocation %s as %r, robsd-ls prints %r: -B omitted nothing and '
                             'purge skipped the +1 compensation, %d of %d invocations left%s'
                             % (run, line.decode('latin1'), (o['rootstr'] + b'/' + runb).decode('latin1'), len(left), len(inv),
                                '' if runb in left else ', the running one archived'))
    # (3) the lock names no listed path at all (stale, hidden): exactly eff-1 are left, the first ones by name
    if c['lock'] in ('stale', 'hidden', 'crlf', 'cut') and line is not None and line not in printed and run is None \
            and len(inv) >= eff and left == inv[:eff - 1]:
        return SIG_STALE, ('retention %d but %d of %d invocations left: the lock file names %r, which is not an invocation '
                           'of the root, purge then skips the +1 compensation'
                           % (eff, len(left), len(inv), line.decode('latin1')))
    # (4) "newest" is name order: a consistent lock (or none), the kept set is the one by NAME and it is not the
    #     one by AGE (only possible when two names of one day have suffixes of different length)
    numeric = sorted(inv, key=age_key, reverse=True)
    if ages != numeric and set(left) == set(kept_of(inv)) and set(kept_of(inv)) != set(kept_of(ages)):
        # the order of creation is not even the numeric order of the suffixes: a name was handed out BELOW names in use
        # (defect D23, repaired in /repo 8474b10; this is its signature, not the known finding below)
        return 'reissued-name-sorts-below-existing', (
            'made in the order %s (oldest first); retention %d kept %s, the greatest names, and archived %s'
            % (b' '.join(reversed(ages)).decode('latin1'), eff, b' '.join(left).decode('latin1'),
               b' '.join(p for p in kept_of(ages) if p not in left).decode('latin1')))
    if ages != inv and ages == numeric and (line is None or (runb is not None and line == o['rootstr'] + b'/' + runb)) \
            and set(left) == set(kept_of(inv)) and set(kept_of(inv)) != set(kept_of(ages)):
        gone = [p for p in kept_of(ages) if p not in left]
        return SIG_AGE, ('retention %d: kept %s - the greatest names; the most recently made are %s: %s archived although newer '
                         'than %s' % (eff, b' '.join(left).decode('latin1'), b' '.join(kept_of(ages)).decode('latin1'),
                                      b' '.join(gone).decode('latin1'),
                                      b' '.join(p for p in left if p not in kept_of(ages)).decode('latin1')))
    want = kept_of(ages)
    if runb is not None and runb not in left:
        return 'clean-removes-running-invocation', 'the running invocation %s is gone; lock %r' % (run, line)
    if len(left) < len(want):
        return 'clean-keeps-too-few', 'retention %d but only %d of %d invocations left' % (eff, len(left), len(inv))
    if len(left) > len(want):
        return 'clean-keeps-too-many', 'retention %d but %d of %d invocations left' % (eff, len(left), len(inv))
    if set(left) != set(want):
        return 'clean-keeps-wrong-invocations', 'kept %r, the most recent are %r' % (left, want)
    for p, v in before.items():
        top = p.split(b'/')[0]
        if top != b'attic' and top not in inv and after.get(p) != v:
            return 'clean-touches-non-invocation', 'entry %r changed or removed' % p
    for p, v in before.items():
        top = p.split(b'/')[0]
        if top in left and after.get(p) != v:
            return 'clean-touches-kept-invocation', 'entry %r changed or removed' % p
    for p in after:
        if p.split(b'/')[0] in set(inv) - set(left):
            return 'clean-leaves-part-of-victim', 'entry %r still in the root' % p
    for p, v in before.items():
        if p.split(b'/')[0] == b'attic' and v[0] == 'f' and after.get(p) != v and \
                not any(p == d or p.startswith(d + b'/') for w in inv if w not in left for d in [attic_paths(w)[-1]]):
            return 'clean-changes-old-attic-content', 'attic entry %r changed or removed' % p
    return 'clean-attic-content', 'attic content is not the whitelisted part of the removed invocations'


def run(ctx, n=None):
    res = common.Result()
    res.rule = ('roots with 0-18 invocation directories over three days (several per day, .9/.10/.11, no suffix), stray '
                'directories/files/symlinks/hidden directories, invocation content drawn from whitelisted and near-miss names '
                '(tmp with whitelisted names inside, whitelisted names in nested directories, directories named like whitelisted '
                'files, empty directories, symlinks), attic absent/empty/with earlier content/with the destination already '
                'there / a plain file where an attic directory has to go, busy days (DATE.7 ... DATE.13), lock '
                'absent/valid/stale/spelled differently/without newline/naming a hidden directory, keep 0-5 x count '
                'argument none/0/1-7, attic on/off, robsddir with and without trailing slash; boundary classes (counted as '
                '`class: ...`): 15-17/31-33/63-65/255/256 invocations, 99-101 a day, retention n-1/n/n+1 and 2^31-1 ... 2^62, '
                'robsddir of 254-256/1023-1025/3000 bytes, lock file empty/CRLF/> 4096 bytes/cut to a prefix/trailing slash, attic '
                'holding 16/17/64/65 invocations, tmp with 1/15-65 entries/nested, 64 levels of nesting, names of 255 bytes, '
                'symlinks named like invocations; non-trivial = retention > 0, at '
                'least one invocation removed and at least one left; distinct by content hash')
    n = n or ctx.budget(150, 3000)
    cases = load_corpus() + [gen_case(ctx.rng) for _ in range(n)] + [gen_trace(ctx.rng) for _ in range(ctx.budget(3, 40))]
    if ctx.budget(0, 1):
        # a day with 1000 invocations (four-digit suffixes): 35 s in the extracted oracle - thorough tier only; the quick
        # tier stops at 101 a day (corpus/C16/b16_per_day_101.json) and 256 invocations
        cases.append({'entries': [], 'bulk': [['2024-01-02.', 1, 1000, 0]], 'lock': 'valid', 'target': '2024-01-02.1000', 'keep': 0,
                      'count': 998, 'attic': True, 'spell': 'abs', 'mode': 'canvas'})
    res.samples = cases[:2]
    res.assumptions = ['trees of up to ~1300 entries and 256 invocations (thorough tier: 1000) in the correspondence (the theorems have '
                       'no bound); retention values above %d reach the model as %d (unary numbers in the extracted code)'
                       % (MODEL_CAP, MODEL_CAP)]
    impl = ctx.build_impl()
    chunk = 500
    for i in range(0, len(cases), chunk):
        evaluate(ctx, cases[i:i + chunk], res, impl)
    res.traces_validated = res.evaluations
    return res


def extended_search(ctx, res, proof):
    return run(ctx, n=1200)


def replay(ctx, rep):
    case = rep.get('case') or (rep.get('first_disagreements') or [{}])[0].get('case')
    if case is None:
        print(rep)
        return 1
    res = common.Result()
    evaluate(ctx, [case], res)
    print('case:', json.dumps(case)[:2000])
    print('disagreements:', res.disagreements)
    print('oracle failures:', res.oracle_failures)
    return 1 if (res.disagreements or res.oracle_failures) else 0
