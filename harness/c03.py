"""C03 - resume: (a) step_next of the real util.sh (bash + real robsd-step) on generated step files vs the model and the
literal specification; (b) end to end: canvas -d killed (SIGKILL of its whole session) at a chosen point between two
step-file writes, then canvas -d -r <dir>: resume point, executed steps and final records vs the model."""
import hashlib, json, glob, os, subprocess, time, shutil, tempfile
from concurrent.futures import ThreadPoolExecutor
import common, orch_env

TRANSLATORS = ['t_step', 't_interp']
TRUSTED = orch_env.SHIMS_USED + [
    'the abstract step file (rows in ascending id order) is what C01 proves robsd-step maintains; a crash INSIDE one robsd-step -W is outside the quantifier',
    'crash = SIGKILL of the orchestrator\'s whole session at a point observed through the probe trace / the step file']

NAMES = ['a', 'b', 'c', 'd', 'e', 'f', 'g', 'end', 'x/y', 'cvs']


def gen_rows(rng):
    n = rng.choice([0, 1, 2, 3, 4, 6, 8])
    ids = sorted(rng.sample(range(1, 15), n))
    rows = []
    for k, i in enumerate(ids):
        last = (k == n - 1)
        name = rng.choice(NAMES[:7])
        if last and rng.random() < 0.3:
            name = 'end'
        kind = rng.random()
        if kind < 0.3:
            rows.append({'id': i, 'name': name, 'exit': 0, 'skip': 1})
        else:
            ex = rng.choice([0, 0, 0, 1, -1, 124, 255, 2])
            if not last and rng.random() < 0.8:
                ex = 0
            rows.append({'id': i, 'name': name, 'exit': ex, 'skip': 0})
    # occasionally a trailing run of skipped rows / everything skipped
    if rows and rng.random() < 0.2:
        for r in rows[-rng.randint(1, len(rows)):]:
            r['skip'], r['exit'] = 1, 0
    return rows


def csv_of(rows):
    out = 'step,name,exit,duration,delta,log,user,time,skip\n'
    for r in rows:
        out += '%d,%s,%d,%d,0,,root,1700000000,%d\n' % (r['id'], r['name'], r['exit'], -1 if r['exit'] == -1 else 3, r['skip'])
    return out


def row_toks(rows):
    t = [str(len(rows))]
    for r in rows:
        t += [str(r['id']), r['name'].encode().hex(), str(r['exit']), str(r['skip'])]
    return t


def sh_step_next(impl, work, idx, rows):
    p = os.path.join(work, 'f%d.csv' % idx)
    open(p, 'w').write(csv_of(rows) if rows is not None else '')
    env = dict(os.environ, EXECDIR=impl, ROBSDSTEP=os.path.join(impl, 'robsd-step'), TMPDIR=work, _MODE='canvas')
    r = subprocess.run(['bash', '-c', '. "$EXECDIR/util.sh"; step_next "$1"', 'x', p], env=env, stdout=subprocess.PIPE,
                       stderr=subprocess.PIPE, timeout=30)
    os.unlink(p)
    return r.returncode, r.stdout.decode().strip(), r.stderr.decode()[-200:]


def part_a(ctx, impl, drv, res, n):
    work = ctx.mkscratch('c03a')
    cases = [json.load(open(p)) for p in sorted(glob.glob(os.path.join(common.VERIF, 'corpus', 'C03', 'rows-*.json')))]
    cases += [gen_rows(ctx.rng) for _ in range(n)]
    with ThreadPoolExecutor(16) as ex:
        obs = list(ex.map(lambda ic: sh_step_next(impl, work, ic[0], ic[1]), enumerate(cases)))
    ans = common.run_driver(drv, [' '.join(['next'] + row_toks(r)) for r in cases])
    for rows, (rc, out, err), a in zip(cases, obs, ans):
        res.evaluations += 1
        model, spec = a.split('|')
        impl_s = out if rc == 0 else '-'
        res.count('step_next -> %s' % ('fail' if rc else 'id'))
        if any(r['skip'] == 0 for r in rows) and any(r['skip'] == 1 for r in rows):
            res.nontrivial.add(hashlib.sha1(json.dumps(rows).encode()).hexdigest())
        if impl_s != model:
            res.disagreements.append({'case': {'rows': rows}, 'model': model, 'impl': impl_s, 'stderr': err})
        if impl_s != spec:
            res.oracle_failures.append({'case': {'rows': rows}, 'signature': 'resume-point-wrong',
                                        'what': 'step_next printed %s (exit %d), the property says %s' % (out or '-', rc, spec)})
    if cases:
        res.samples.append({'rows': cases[-1]})


def gen_e2e(rng):
    n = rng.randint(2, 5)
    steps = [{'name': NAMES[i], 'exit': 0} for i in range(n)]
    if rng.random() < 0.35:
        steps[rng.randrange(n)]['exit'] = rng.choice([1, 2, 124])
    skip = [s['name'] for s in steps if rng.random() < 0.2]
    # crash point: ('start', name) = while that step runs (in-flight record written),
    #              ('done', name) = right after its completion record, ('early',) = before the first step record
    live = [s['name'] for s in steps if s['name'] not in skip]
    if not live:
        skip = skip[1:]
        live = [s['name'] for s in steps if s['name'] not in skip]
    k = rng.random()
    if k < 0.08:
        crash = ['early']
    else:
        crash = [rng.choice(['start', 'start', 'done']), rng.choice(live)]
    second = None
    if rng.random() < 0.3:
        second = [rng.choice(['start', 'done']), rng.choice(live)]
    return {'steps': steps, 'skip': skip, 'crash': crash, 'second': second}


def abstract_rows(cv, bd):
    rows = []
    for r in cv.rows(bd):
        rows.append({'id': int(r['step']), 'name': r['name'], 'exit': int(r['exit']), 'skip': int(r['skip'])})
    return rows


def run_until_crash(cv, args, case, crash):
    """run canvas, open gates as steps start, kill at the crash point; returns (crashed?, rc, output)"""
    codes = {s['name']: s['exit'] for s in case['steps']}
    base = len(cv.trace())
    proc = cv.start(args)
    deadline = time.time() + 20
    opened = set()
    crashed = False
    while time.time() < deadline:
        tr = cv.trace()[base:]
        started = [t[1] for t in tr if t[0] == 'start']
        if crash[0] == 'early':
            # kill as soon as the build directory exists with only skip records
            if cv.builddirs() and os.path.exists(os.path.join(cv.builddirs()[0], 'step.csv')):
                cv.kill_all(proc)
                crashed = True
                break
        if crash[0] == 'start' and crash[1] in started and crash[1] not in opened:
            bd = cv.builddirs()
            rows = abstract_rows(cv, bd[0]) if bd else []
            # the first record of that step has been written (whatever it says) and its command is running
            if any(r['name'] == crash[1] for r in rows):
                cv.kill_all(proc)
                crashed = True
                break
        if crash[0] == 'done' and crash[1] in opened and ['end', crash[1], str(codes[crash[1]])] in tr:
            bd = cv.builddirs()
            rows = abstract_rows(cv, bd[0]) if bd else []
            if any(r['name'] == crash[1] and r['exit'] != -1 and r['skip'] == 0 for r in rows):
                cv.kill_all(proc)
                crashed = True
                break
        for nme in started:
            if nme not in opened and not (crash[0] == 'start' and crash[1] == nme):
                cv.open_gate(nme, codes[nme])
                opened.add(nme)
        if proc.poll() is not None:
            break
        time.sleep(0.001)
    if not crashed and proc.poll() is None:
        try:
            proc.wait(timeout=10)
        except subprocess.TimeoutExpired:
            cv.kill_all(proc)
    out = b''
    try:
        out = proc.stdout.read()
    except Exception:
        pass
    cv.reap_strays()
    return crashed, proc.returncode, out.decode('latin1')


def e2e_case(ctx, impl, case):
    work = tempfile.mkdtemp(dir=ctx.mkscratch('c03b'))
    cv = orch_env.Canvas(ctx, impl, work, [{'name': s['name']} for s in case['steps']], skip=case['skip'], ncpu=1)
    ob = {'phases': []}
    try:
        crashed, rc, out = run_until_crash(cv, ['-d'], case, case['crash'])
        bds = cv.builddirs()
        if not bds:
            ob['nobuilddir'] = True
            return ob
        bd = bds[0]
        ob['phases'].append({'crashed': crashed, 'rc': rc, 'rows': abstract_rows(cv, bd), 'trace': cv.trace()})
        crashes = [case['second']] if case.get('second') else []
        crashes.append(None)
        for cr in crashes:
            pre_trace = len(cv.trace())
            cv.close_gates()
            if os.path.exists(os.path.join(cv.root, '.running')):
                pass   # the lock of the killed invocation is still there: canvas -r on the same directory owns it
            crashed2, rc2, out2 = run_until_crash(cv, ['-d', '-r', bd], case, cr or ['never'])
            import re
            m = re.search(r'at step (\d+)', out2)
            ob['phases'].append({'crashed': crashed2, 'rc': rc2, 'resumed_at': int(m.group(1)) if m else None,
                                 'rows': abstract_rows(cv, bd) if os.path.isdir(bd) else None,
                                 'trace': cv.trace()[pre_trace:], 'tail': out2[-400:]})
            if not crashed2:
                break
        return ob
    finally:
        cv.reap_strays()
        shutil.rmtree(work, ignore_errors=True)


def part_b(ctx, impl, drv, res, n):
    cases = [json.load(open(p)) for p in sorted(glob.glob(os.path.join(common.VERIF, 'corpus', 'C03', 'e2e-*.json')))]
    cases += [gen_e2e(ctx.rng) for _ in range(n)]
    with ThreadPoolExecutor(8) as ex:
        obs = list(ex.map(lambda c: e2e_case(ctx, impl, c), cases))
    for case, ob in zip(cases, obs):
        res.evaluations += 1
        res.count('crash=%s' % case['crash'][0])
        if ob.get('nobuilddir'):
            continue
        steps = case['steps'] + [{'name': 'end', 'exit': 0}]
        stoks = [str(len(steps))]
        for i, s in enumerate(steps, 1):
            stoks += [str(i), s['name'].encode().hex(), str(s['exit'])]
        for k in range(1, len(ob['phases'])):
            prev, cur = ob['phases'][k - 1], ob['phases'][k]
            if not prev['crashed']:
                break
            rows = prev['rows']
            qs = [' '.join(['next'] + row_toks(rows))]
            a = common.run_driver(drv, qs)[0]
            model_next, spec_next = a.split('|')
            got = str(cur['resumed_at']) if cur['resumed_at'] is not None else '-'
            res.nontrivial.add(hashlib.sha1(json.dumps([case, k]).encode()).hexdigest())
            if got != model_next:
                res.disagreements.append({'case': case, 'why': 'resume point', 'model': model_next, 'impl': got, 'rows': rows, 'tail': cur['tail']})
            if got != spec_next:
                res.oracle_failures.append({'case': case, 'signature': 'resume-point-wrong',
                                            'what': 'canvas -r resumed at %s, the property says %s for %s' % (got, spec_next, rows)})
            if got == '-':
                continue
            ok = common.run_driver(drv, [' '.join(['okresume', got] + row_toks(rows))])[0]
            executed = [t[1] for t in cur['trace'] if t[0] == 'start']
            # oracle on what really ran: no step that had completed successfully runs again, none is skipped over
            done_ok = {r['name'] for r in rows if r['skip'] == 0 and r['exit'] == 0 and r['name'] != 'end'}
            rerun = [x for x in executed if x in done_ok]
            if ok != '1' or rerun:
                res.oracle_failures.append({'case': case, 'signature': 'resume-reexecutes-or-skips',
                                            'what': 'resumed at %s from %s; executed %s; re-ran completed %s' % (got, rows, executed, rerun)})
            # ground truth from the probes, not from the step file: which commands really ran to their end with status 0
            # before this resume; the resumed run (when it is not killed again) must execute exactly the other non-skipped
            # steps, in order, up to and including the first one that fails
            if not cur['crashed']:
                truly_done = set()
                for ph in ob['phases'][:k]:
                    for t in ph['trace']:
                        if t[0] == 'end' and t[2] == '0':
                            truly_done.add(t[1])
                expect = []
                for st in case['steps']:
                    if st['name'] in case['skip'] or st['name'] in truly_done:
                        continue
                    expect.append(st['name'])
                    if st['exit'] != 0:
                        break
                if executed != expect:
                    res.oracle_failures.append({'case': case, 'signature': 'resume-reexecutes-or-skips',
                                                'what': 'commands that had completed successfully before the resume: %s; the resumed invocation executed %s, expected %s'
                                                        % (sorted(truly_done), executed, expect)})
            if not cur['crashed']:
                a2 = common.run_driver(drv, [' '.join(['orch', got] + stoks + row_toks(rows))])[0]
                mrows, mex = [x.strip() for x in a2.split('|')]
                idname = {str(i): s['name'] for i, s in enumerate(steps, 1)}
                mexec = [idname[i] for i in mex.split()] if mex else []
                irows = ' '.join('%d:%s:%d:%d' % (r['id'], r['name'].encode().hex(), r['exit'], r['skip']) for r in (cur['rows'] or []))
                if mexec != executed or mrows != irows:
                    res.disagreements.append({'case': case, 'why': 'resumed run', 'model': [mexec, mrows], 'impl': [executed, irows]})
    if cases:
        res.samples.append(cases[-1])


def run(ctx, n=None):
    res = common.Result()
    res.rule = ('(a) step files with 0-8 rows mixing skipped / succeeded / failed / in-flight (-1) records, id gaps, with or without end, through the real '
                'step_next of util.sh under bash; (b) canvas -d with 2-5 gated probe steps, optional failing step and skip set, SIGKILL of the whole session '
                'before the first record / while a step runs / right after a completion record, then canvas -d -r (optionally killed again and resumed again); '
                'non-trivial = (a) both skipped and non-skipped rows present, (b) every crash+resume pair; distinct by content')
    impl = ctx.build_impl()
    drv = ctx.build_driver('rs', withz=True)
    ctx.shims_used = orch_env.SHIMS_USED
    part_a(ctx, impl, drv, res, n or ctx.budget(400, 10000))
    part_b(ctx, impl, drv, res, (n // 20 if n else ctx.budget(24, 400)))
    res.traces_validated = res.evaluations
    return res


def extended_search(ctx, res, proof):
    return run(ctx, n=3000)


def replay(ctx, rep):
    case = rep.get('case') or (rep.get('first_disagreements') or [{}])[0].get('case')
    res = common.Result()
    impl = ctx.build_impl()
    drv = ctx.build_driver('rs', withz=True)
    if 'rows' in case:
        work = ctx.mkscratch('c03r')
        print(sh_step_next(impl, work, 0, case['rows']))
        print(common.run_driver(drv, [' '.join(['next'] + row_toks(case['rows']))]))
    else:
        print(json.dumps(e2e_case(ctx, impl, case), indent=1)[:3000])
    return 0
