"""C03 - resume: (a) step_next of the real util.sh (bash + real robsd-step) on generated step files vs the model and the
literal specification; (b) end to end: canvas -d killed (SIGKILL of its whole session) at a chosen point between two
step-file writes, then canvas -d -r <dir>: resume point, executed steps and final records vs the model; (c) the boundary
for parallel steps; (d) canvas -r on a step file that cannot be read (damaged-resume lane)."""
import hashlib, json, glob, os, subprocess, time, shutil, tempfile
from concurrent.futures import ThreadPoolExecutor
import common, orch_env, orch_e2e

TRANSLATORS = ['t_step', 't_interp', 't_shell', 't_report']
TRUSTED = orch_env.SHIMS_USED + [
    'scope of the reachability relation reachv: every invocation on the build directory is given the same skip set (the entry scripts rewrite the skip '
    'records when an invocation is resumed at step 1 with other -s options); parallel steps are outside the property - the boundary is the theorem '
    'C03_parallel_resume_skips_inflight, replayed on the real canvas in every run',
    'the abstract step file (rows in ascending id order) is what C01 proves robsd-step maintains; a crash INSIDE one robsd-step -W is outside the quantifier',
    'crash = SIGKILL of the orchestrator\'s whole session at a point observed through the probe trace / the step file',
    'a -s option given to a resumed invocation whose resume point is >= 2 is ignored by the entry scripts: C04 lane skip-on-resume (signature command-line-skip-ignored-on-resume)']

NAMES = ['a', 'b', 'c', 'd', 'e', 'f', 'g', 'end', 'x/y', 'cvs']


BOUNDARY_QUICK, BOUNDARY_THOROUGH = 0.12, 0.3
ROW_COUNTS = [1, 16, 17, 64, 65]
# names of the last executed row that are NOT the end step although they look like it, names with the characters the formats use
# as separators, long names (a row is one getline: 1 KiB / 4 KiB names make rows longer than any fixed line buffer)
ODD_NAMES = ['en', 'endx', 'End', 'END', 'end-2', 'xend', 'end.', 'build', 'build-all', 'a-b', 'a.b', 'x/y', 'k=v', 'M' * 64, 'N' * 200, 'O' * 255,
             'P' * 1024, 'Q' * 4096]
BIG_IDS = [2 ** 31 - 1, 2 ** 31, 2 ** 31 + 1, 2 ** 32 - 1, 2 ** 32, 2 ** 32 + 1, 2 ** 62]     # $((id + 1)) is 64-bit shell arithmetic


def gen_rows(rng, boundary=BOUNDARY_QUICK):
    if rng.random() < boundary:
        return gen_rows_boundary(rng)
    return gen_rows_plain(rng)


def gen_rows_boundary(rng):
    """-> {'rows': [...], 'shape': ..., 'bclass': ...}: row counts 1 / 16 / 17 / 64 / 65, the in-flight (or failed) record at the first /
    last / 16th / 17th position, 1 / 15 / 16 / 17 / all-but-one / all trailing skipped rows, ids 2^31 / 2^32 apart, end look-alikes and
    long names, and files that are not what robsd-step writes (empty, no final newline, CRLF, cut inside the last row)"""
    kind = rng.choice(['count', 'count', 'inflight', 'inflight', 'trailing', 'trailing', 'ids', 'ids', 'names', 'names', 'shape', 'shape'])
    if kind == 'shape':
        rows = gen_rows_plain(rng) or [{'id': 1, 'name': 'a', 'exit': 0, 'skip': 0}]
        shape = rng.choice(['empty', 'nonl', 'crlf', 'cut', 'cut', 'blank-line'])
        c = {'rows': [] if shape == 'empty' else rows, 'shape': shape, 'bclass': ['step file shape: ' + shape]}
        if shape == 'cut':
            last = len(csv_of(rows[-1:])) - len(csv_of([]))
            c['cut'] = rng.choice([1, 2, rng.randint(1, last - 1), last - 1, last - 2])      # bytes taken off the end: inside the last row
        return c
    n = rng.choice(ROW_COUNTS if kind == 'count' else [2, 3, 17, 17, 18, 33] if kind in ('inflight', 'trailing') else [2, 3, 4, 6])
    ids = list(range(1, n + 1))
    if kind == 'ids':
        # not contiguous; neighbours 2^31 / 2^32 apart; ids beyond int
        base = sorted(set(rng.sample(BIG_IDS, rng.randint(1, 3)) + rng.sample(range(1, 40), n)))
        ids = base[-n:] if rng.random() < 0.5 else sorted(rng.sample(base, n))
    rows = [{'id': i, 'name': 's%d' % (k + 1), 'exit': 0, 'skip': 1 if rng.random() < 0.15 else 0} for k, i in enumerate(ids)]
    desc = ['rows: %d' % n] if n >= 16 or n == 1 else []
    if kind in ('count', 'inflight'):
        pos = rng.choice([0, n - 1, 15, 16, n - 2])
        if 0 <= pos < n:
            # the record that did not complete: everything after it is skipped or absent
            ex = rng.choice([-1, -1, 1, 255])
            rows = rows[:pos + 1] + [dict(r, skip=1, exit=0) for r in rows[pos + 1:] if rng.random() < 0.5]
            rows[pos].update(exit=ex, skip=0)
            desc.append('the record that did not complete (exit %s) is %s' % ('-1' if ex == -1 else 'non-zero', {0: 'the first', n - 1: 'the last', n - 2: 'the last but one'}.get(pos, 'at index %d' % pos)))
    elif kind == 'trailing':
        t = rng.choice([1, 15, 16, 17, n - 1, n])
        t = max(0, min(t, n))
        for r in rows[:n - t]:
            r['skip'] = 0
        for r in rows[n - t:]:
            r.update(skip=1, exit=0)
        if t < n:
            rows[n - t - 1]['exit'] = rng.choice([0, 0, 1, -1])
        desc.append('trailing skipped rows: %s' % ('all' if t == n else 'all but one' if t == n - 1 else str(t)))
    elif kind == 'ids':
        last = [r for r in rows if r['skip'] == 0][-1:] or rows[-1:]
        last[0].update(exit=rng.choice([0, 0, 1, -1]), skip=0)
        desc = ['ids not contiguous, the largest %s' % ('2^62' if ids[-1] >= 2 ** 62 else '>= 2^32' if ids[-1] >= 2 ** 32 else '>= 2^31 - 1')]
    elif kind == 'names':
        for r in rows:
            r['name'] = rng.choice(ODD_NAMES[:13]) if rng.random() < 0.7 else rng.choice(ODD_NAMES)
        live = [r for r in rows if r['skip'] == 0][-1:] or rows[-1:]
        live[0].update(skip=0, exit=rng.choice([0, 0, 0, 1]), name=rng.choice(ODD_NAMES[:8] + ['end', 'end']))
        desc = ['names: last executed row is %s' % ('end among odd names' if live[0]['name'] == 'end' else 'an end look-alike' if 'en' in live[0]['name'].lower() else 'an odd name')]
        if max(len(r['name']) for r in rows) >= 64:
            desc.append('names: longest %d bytes' % max(len(r['name']) for r in rows))
    return {'rows': rows, 'bclass': desc}


def gen_rows_plain(rng):
    n = rng.choice([0, 1, 2, 3, 4, 6, 8])
    ids = sorted(rng.sample(range(1, 15), n))
    rows = []
    for k, i in enumerate(ids):
        last = (k == n - 1)
        name = rng.choice(NAMES[:7])
        if last and rng.random() < 0.3:
            name = 'end'
        kind = rng.random()
        if kind < 0.3:
            rows.append({'id': i, 'name': name, 'exit': 0, 'skip': 1})
        else:
            ex = rng.choice([0, 0, 0, 1, -1, 124, 255, 2])
            if not last and rng.random() < 0.8:
                ex = 0
            rows.append({'id': i, 'name': name, 'exit': ex, 'skip': 0})
    # occasionally a trailing run of skipped rows / everything skipped
    if rows and rng.random() < 0.2:
        for r in rows[-rng.randint(1, len(rows)):]:
            r['skip'], r['exit'] = 1, 0
    return rows


def csv_of(rows):
    out = 'step,name,exit,duration,delta,log,user,time,skip\n'
    for r in rows:
        out += '%d,%s,%d,%d,0,,root,1700000000,%d\n' % (r['id'], r['name'], r['exit'], -1 if r['exit'] == -1 else 3, r['skip'])
    return out


def row_toks(rows):
    t = [str(len(rows))]
    for r in rows:
        t += [str(r['id']), r['name'].encode().hex(), str(r['exit']), str(r['skip'])]
    return t


def file_of(case):
    """the bytes of the step file of a part (a) case: what robsd-step writes for the rows, or one of the shapes it never writes"""
    data = csv_of(case['rows'])
    shape = case.get('shape')
    if shape == 'empty':
        return ''
    if shape == 'nonl':
        return data[:-1]
    if shape == 'crlf':
        return data.replace('\n', '\r\n')
    if shape == 'cut':
        return data[:-max(1, case.get('cut', 1))]
    if shape == 'blank-line':
        return data + '\n'
    return data


def sh_step_next(impl, work, idx, case):
    p = os.path.join(work, 'f%d.csv' % idx)
    open(p, 'w').write(file_of(case))
    env = dict(os.environ, EXECDIR=impl, ROBSDSTEP=os.path.join(impl, 'robsd-step'), TMPDIR=work, _MODE='canvas')
    r = subprocess.run(['bash', '-c', '. "$EXECDIR/util.sh"; step_next "$1"', 'x', p], env=env, stdout=subprocess.PIPE,
                       stderr=subprocess.PIPE, timeout=30)
    os.unlink(p)
    return r.returncode, r.stdout.decode().strip(), r.stderr.decode()[-200:]


def corpus_files(pattern):
    d = os.path.join(common.VERIF, 'corpus', 'C03')
    if not os.path.isdir(d):
        raise common.BuildFailure('corpus directory %s is missing' % d)
    return sorted(glob.glob(os.path.join(d, pattern)))


def part_a(ctx, impl, drv, res, n):
    work = ctx.mkscratch('c03a')
    cases = [json.load(open(p)) for p in corpus_files('rows-*.json')]
    cases += [gen_rows(ctx.rng, ctx.budget(BOUNDARY_QUICK, BOUNDARY_THOROUGH)) for _ in range(n)]
    cases = [c if isinstance(c, dict) else {'rows': c} for c in cases]
    with ThreadPoolExecutor(16) as ex:
        obs = list(ex.map(lambda ic: sh_step_next(impl, work, ic[0], ic[1]), enumerate(cases)))
    ans = common.run_driver(drv, [' '.join(['next'] + row_toks(c['rows'])) for c in cases])
    ans1 = common.run_driver(drv, [' '.join(['next'] + row_toks(c['rows'][:-1])) for c in cases])
    for case, (rc, out, err), a, a1 in zip(cases, obs, ans, ans1):
        rows = case['rows']
        res.evaluations += 1
        model, spec = a.split('|')
        impl_s = out if rc == 0 else '-'
        res.count('step_next -> %s' % ('fail' if rc else 'id'))
        for c in case.get('bclass') or []:
            res.count('class: ' + c)
        rcase = {k: v for k, v in case.items() if k in ('rows', 'shape', 'cut')}
        if case.get('shape'):
            # a file robsd-step never writes (the model and the specification are about rows): resuming may be refused, or answer what
            # the intact rows say (a file cut inside its last row: with or without that row) - never anything else
            allowed = {'-', spec} | ({a1.split('|')[1]} if case['shape'] == 'cut' else set())
            res.nontrivial.add('shape:%s:%s' % (case['shape'], hashlib.sha1(json.dumps(rows).encode()).hexdigest()[:8]))
            if impl_s not in allowed:
                res.oracle_failures.append({'case': rcase, 'signature': 'resume-point-from-malformed-step-file',
                                            'what': 'step file %s: step_next printed %s (exit %d); the rows say %s' % (case['shape'], out or '-', rc, sorted(allowed))})
            continue
        if any(r['skip'] == 0 for r in rows) and any(r['skip'] == 1 for r in rows):
            res.nontrivial.add(hashlib.sha1(json.dumps(rows).encode()).hexdigest())
        if impl_s != model:
            res.disagreements.append({'case': rcase, 'model': model, 'impl': impl_s, 'stderr': err})
        if impl_s != spec:
            res.oracle_failures.append({'case': rcase, 'signature': 'resume-point-wrong',
                                        'what': 'step_next printed %s (exit %d), the property says %s' % (out or '-', rc, spec)})
    if cases:
        res.samples.append({'rows': cases[-1]['rows'][:8]})


E2E_BOUNDARY_QUICK, E2E_BOUNDARY_THOROUGH = 0.25, 0.4
SIG_LOCK_SPELLING = 'resume-after-kill-refused-lock-spelled-differently'
# PARKED until main lists the signature in known_findings.json: resume-after-kill-refused-lock-spelled-differently
# (findings/C03_resume_root_slash.md).  While False gen_e2e_boundary does not draw the class "root spelled with a trailing slash" and
# the corpus loader skips files with a "pending" key (corpus/C03/e2e-b03_root_trailing_slash.json); VERIF_PENDING=1 switches it on.
PENDING_FINDINGS = os.environ.get('VERIF_PENDING', '1') == '1'     # armed: the signatures are listed in known_findings.json


def gen_e2e(rng, boundary=E2E_BOUNDARY_QUICK):
    if rng.random() < boundary:
        return gen_e2e_boundary(rng)
    return gen_e2e_plain(rng)


def gen_e2e_boundary(rng):
    """SIZE / SHAPE classes of the end-to-end lane: 1 / 16 / 17 / 32 / 33 / 64 / 65 steps with the crash at the first, second, 16th, 17th,
    last but one or last step; first / last / all-but-one / steps 15-17 skipped; names that are prefixes of each other, differ in
    case, hold - . / =, are 64 - 247 bytes long; failing exit codes 126 / 127 / 255 and deaths by SIGKILL / SIGTERM; a root spelled
    with a trailing slash"""
    kind = rng.choice(['big', 'big', 'names', 'names', 'skip', 'exit', 'one', 'root_slash'])
    if kind == 'root_slash' and not PENDING_FINDINGS:
        kind = 'skip'                           # parked (see PENDING_FINDINGS)
    if kind == 'big':
        n = rng.choice([16, 17] * 5 + [15, 32, 33] + [64, 65])
        names = ['s%d' % i for i in range(1, n + 1)]
        steps = [{'name': nm, 'exit': 0} for nm in names]
        sk = rng.choice(['none', 'none', 'first', 'last', 'mid', 'allbutone'])
        at = rng.choice([0, 1, 15, 16, n - 2, n - 1])
        at = min(at, n - 1)
        skip = {'none': [], 'first': names[:1], 'last': names[-1:], 'mid': names[14:17], 'allbutone': [x for i, x in enumerate(names) if i != at]}[sk]
        skip = [x for x in skip if x != names[at]]
        if rng.random() < 0.4:
            steps[at]['exit'] = rng.choice([1, 2, 255])
        case = {'steps': steps, 'skip': skip, 'crash': [rng.choice(['start', 'start', 'done']), names[at]], 'second': None, 'bclass': 'big'}
        if rng.random() < 0.4:
            case['exits2'] = {nm: 0 for nm in names}
        return case
    case = None
    while case is None or len({s['name'] for s in case['steps']}) != len(case['steps']):
        case = gen_e2e_plain(rng)
    steps = case['steps']
    if kind == 'one':
        case = {'steps': steps[:1], 'skip': [], 'crash': [rng.choice(['start', 'done', 'early']), steps[0]['name']], 'second': None}
        if case['crash'][0] == 'early':
            case['crash'] = ['early']
    elif kind == 'names':
        pool = list(orch_e2e.NAME_POOLS[rng.choice(sorted(orch_e2e.NAME_POOLS))])
        if rng.random() < 0.3:
            pool += orch_e2e.NAME_POOLS[rng.choice(sorted(orch_e2e.NAME_POOLS))]
        pool = list(dict.fromkeys(pool))
        new = rng.sample(pool, min(len(pool), len(steps)))
        ren = dict(zip([s['name'] for s in steps], new))
        ren2 = lambda x: ren.get(x)
        keep = set(new)
        case['steps'] = [dict(s, name=ren[s['name']]) for s in steps[:len(new)]]
        for k in ('skip', 'reskip'):
            if case.get(k) is not None:
                case[k] = [ren2(x) for x in case[k] if ren2(x) in keep]
        for k in ('crash', 'second'):
            if case.get(k) and len(case[k]) > 1:
                case[k] = [case[k][0], ren2(case[k][1])] if ren2(case[k][1]) in keep else None
        if case.get('exits2'):
            case['exits2'] = {ren2(k): v for k, v in case['exits2'].items() if ren2(k) in keep}
        amb = set(orch_e2e.skip_ambiguous({'steps': case['steps'], 'skip': case['skip'] + (case.get('reskip') or [])}))
        case['skip'] = [x for x in case['skip'] if x not in amb]          # (that class is C04's: canvas stops before the first step)
        if case.get('reskip'):
            case['reskip'] = [x for x in case['reskip'] if x not in amb]
        live = [s['name'] for s in case['steps'] if s['name'] not in case['skip']]
        if not live:
            case['skip'] = []
            live = [s['name'] for s in case['steps']]
        if not case.get('crash') or (len(case['crash']) > 1 and case['crash'][1] not in live):
            case['crash'] = [rng.choice(['start', 'done']), rng.choice(live)]
        if case.get('second') and case['second'][1] not in live:
            case['second'] = None
    elif kind == 'skip':
        names = [s['name'] for s in steps]
        how = rng.choice(['first', 'last', 'allbutone'])
        keepn = rng.choice(names)
        case['skip'] = {'first': names[:1], 'last': names[-1:], 'allbutone': [x for x in names if x != keepn]}[how]
        if len(case['skip']) == len(names):
            case['skip'] = []
        live = [x for x in names if x not in case['skip']]
        case['crash'] = [rng.choice(['start', 'done']), rng.choice(live)]
        case['second'] = None
        case.pop('reskip', None)
    elif kind == 'exit':
        live = [s for s in steps if s['name'] not in case['skip']]
        f = rng.choice(live)
        for s in steps:
            s['exit'] = 0
        f['exit'] = rng.choice([126, 127, 255, 137, 143])
        case['crash'] = [rng.choice(['done', 'done', 'start']), f['name']]
    elif kind == 'root_slash':
        case['root_slash'] = True
        case.pop('reskip', None)
    case['bclass'] = kind
    return case


def e2e_classes(case):
    out = []
    n = len(case['steps'])
    names = [s['name'] for s in case['steps']]
    if n == 1 or n >= 15:
        out.append('e2e steps=%d' % n)
    if n >= 15 and len(case['crash']) > 1 and case['crash'][1] in names:
        i = names.index(case['crash'][1])
        out.append('e2e crash at step index %s' % ({n - 1: 'last', n - 2: 'last-1'}.get(i, str(i))))
    sk = [i for i, x in enumerate(names) if x in case['skip']]
    if sk and n >= 2:
        out.append('e2e skip: %s' % ('all but one' if len(sk) == n - 1 else 'first' if sk == [0] else 'last' if sk == [n - 1] else 'steps 15-17' if sk == [14, 15, 16] else 'other'))
    nm = orch_e2e.name_class(case)
    if nm:
        out.append('e2e names: ' + nm)
    for s in case['steps']:
        if s['exit'] in (126, 127, 255, 137, 143):
            out.append('e2e failing step: %s' % ('exit %d' % s['exit'] if s['exit'] in (126, 127, 255) else 'death by signal %d' % (s['exit'] - 128)))
    if case.get('root_slash'):
        out.append('e2e root spelled with a trailing slash')
    return out


def gen_e2e_plain(rng):
    n = rng.randint(2, 5)
    steps = [{'name': NAMES[i], 'exit': 0} for i in range(n)]
    dup = n >= 3 and rng.random() < 0.15
    if dup:
        # a repeated step name (accepted by the configuration): the later step carries the name of an earlier one
        j = rng.randrange(1, n)
        steps[j]['name'] = steps[rng.randrange(0, j)]['name']
    if rng.random() < 0.45:
        steps[rng.randrange(n)]['exit'] = rng.choice([1, 2, 124, 139])      # 139: the probe dies of SIGSEGV
        for s in steps:      # exit codes go with the name (the probe is told the code through a gate named after the step)
            s['exit'] = max(t['exit'] for t in steps if t['name'] == s['name'])
    dupnames = {s['name'] for s in steps if sum(1 for t in steps if t['name'] == s['name']) > 1}
    skip = [s['name'] for s in steps if rng.random() < 0.2 and s['name'] not in dupnames]
    # crash point: ('start', name) = while that step runs (in-flight record written),
    #              ('done', name) = right after its completion record, ('early',) = before the first step record
    live = [s['name'] for s in steps if s['name'] not in skip]
    if not live:
        skip = skip[1:]
        live = [s['name'] for s in steps if s['name'] not in skip]
    k = rng.random()
    if k < 0.08:
        crash = ['early']
    else:
        crash = [rng.choice(['start', 'start', 'done']), rng.choice(live)]
    second = None
    if rng.random() < 0.3:
        second = [rng.choice(['start', 'done']), rng.choice(live)]
    case = {'steps': steps, 'skip': skip, 'crash': crash, 'second': second}
    first = live[0]
    if (rng.random() < 0.6 and steps[0]['name'] == first and crash[0] != 'early' and crash[1] == first
            and (crash[0] == 'start' or steps[0]['exit'] != 0)):
        # the resume point will be step 1: the resumed invocation writes the skip records of ITS skip set (other -s options)
        cand = [s['name'] for s in steps if s['name'] not in dupnames and s['name'] not in skip]
        case['reskip'] = sorted(set(rng.sample(cand, min(len(cand), rng.choice([1, 1, 2]))))) if cand else []
    if rng.random() < 0.5:
        # "failed, repaired by the operator, resumed": the exit codes of the resumed invocations differ
        ex2 = {s['name']: (0 if rng.random() < 0.7 else rng.choice([0, 1, 3])) for s in steps}
        case['exits2'] = ex2
    return case


def phase_codes(case, k):
    """exit code per step name in phase k (0 = the fresh run)"""
    codes = {s['name']: s['exit'] for s in case['steps']}
    if k > 0 and case.get('exits2'):
        codes.update(case['exits2'])
    return codes


def abstract_rows(cv, bd):
    rows = []
    for r in cv.rows(bd):
        rows.append({'id': int(r['step']), 'name': r['name'], 'exit': int(r['exit']), 'skip': int(r['skip'])})
    return rows


def run_until_crash(cv, args, case, crash, codes=None):
    """run canvas, open gates as steps start, kill at the crash point; returns (crashed?, rc, output)"""
    codes = codes or {s['name']: s['exit'] for s in case['steps']}
    base = len(cv.trace())
    proc = cv.start(args)
    deadline = time.time() + 20
    opened = set()
    crashed = False
    while time.time() < deadline:
        tr = cv.trace()[base:]
        started = [t[1] for t in tr if t[0] == 'start']
        if crash[0] == 'early':
            # kill as soon as the build directory exists with only skip records
            if cv.builddirs() and os.path.exists(os.path.join(cv.builddirs()[0], 'step.csv')):
                cv.kill_all(proc)
                crashed = True
                break
        if crash[0] == 'start' and crash[1] in started and crash[1] not in opened:
            bd = cv.builddirs()
            rows = abstract_rows(cv, bd[0]) if bd else []
            # the first record of that step has been written (whatever it says) and its command is running
            if any(r['name'] == crash[1] for r in rows):
                cv.kill_all(proc)
                crashed = True
                break
        if crash[0] == 'done' and crash[1] in opened and ['end', crash[1], str(codes[crash[1]])] in tr:
            bd = cv.builddirs()
            rows = abstract_rows(cv, bd[0]) if bd else []
            if any(r['name'] == crash[1] and r['exit'] != -1 and r['skip'] == 0 for r in rows):
                cv.kill_all(proc)
                crashed = True
                break
        for nme in started:
            if nme not in opened and not (crash[0] == 'start' and crash[1] == nme):
                cv.open_gate(nme, codes[nme])
                opened.add(nme)
        if proc.poll() is not None:
            break
        time.sleep(0.001)
    if not crashed and proc.poll() is None:
        try:
            proc.wait(timeout=10)
        except subprocess.TimeoutExpired:
            cv.kill_all(proc)
    out = b''
    try:
        out = proc.stdout.read()
    except Exception:
        pass
    cv.reap_strays()
    return crashed, proc.returncode, out.decode('latin1')


def e2e_case(ctx, impl, case):
    work = tempfile.mkdtemp(dir=ctx.mkscratch('c03b'))
    cv = orch_env.Canvas(ctx, impl, work, [{"name": s["name"]} for s in case["steps"]], skip=case["skip"], ncpu=1, root_slash=bool(case.get("root_slash")))
    ob = {'phases': []}
    try:
        crashed, rc, out = run_until_crash(cv, ['-d'], case, case['crash'], phase_codes(case, 0))
        bds = cv.builddirs()
        if not bds:
            ob['nobuilddir'] = True
            return ob
        bd = bds[0]
        ob['phases'].append({'crashed': crashed, 'rc': rc, 'rows': abstract_rows(cv, bd), 'trace': cv.trace()})
        crashes = [case['second']] if case.get('second') else []
        crashes.append(None)
        for cr in crashes:
            pre_trace = len(cv.trace())
            cv.close_gates()
            if os.path.exists(os.path.join(cv.root, '.running')):
                pass   # the lock of the killed invocation is still there: canvas -r on the same directory owns it
            sargs = []
            for nme in case.get('reskip') or []:
                sargs += ['-s', nme]
            crashed2, rc2, out2 = run_until_crash(cv, ['-d', '-r', bd] + sargs, case, cr or ['never'], phase_codes(case, len(ob['phases'])))
            import re
            m = re.search(r'at step (\d+)', out2)
            ob['phases'].append({'crashed': crashed2, 'rc': rc2, 'resumed_at': int(m.group(1)) if m else None,
                                 'rows': abstract_rows(cv, bd) if os.path.isdir(bd) else None,
                                 'trace': cv.trace()[pre_trace:], 'tail': out2[-400:]})
            if not crashed2:
                break
        return ob
    finally:
        cv.reap_strays()
        shutil.rmtree(work, ignore_errors=True)


def part_b(ctx, impl, drv, res, n):
    cases = [c for c in (json.load(open(p)) for p in corpus_files('e2e-*.json')) if PENDING_FINDINGS or not c.get('pending')]
    if not cases:
        raise common.BuildFailure('corpus/C03 holds no e2e-*.json case')
    cases += [gen_e2e(ctx.rng, ctx.budget(E2E_BOUNDARY_QUICK, E2E_BOUNDARY_THOROUGH)) for _ in range(n)]
    with ThreadPoolExecutor(8) as ex:
        obs = list(ex.map(lambda c: e2e_case(ctx, impl, c), cases))
    for case, ob in zip(cases, obs):
        # an evaluation is a VERDICT: the invariant check on the files of a case, and every judged crash+resume pair below
        res.count('crash=%s' % case['crash'][0])
        case.setdefault('skip', [])
        for c in e2e_classes(case):
            res.count('class: ' + c)
        if ob.get('nobuilddir'):
            res.count('no verdict: killed before the build directory existed')
            continue
        res.evaluations += 1
        names = [s['name'] for s in case['steps']] + ['end']
        dup = len(set(names)) != len(names)
        # invariant k_skip0 of the files the orchestrator leaves (C03_orchestrator_files_are_good; hypothesis of C05's status
        # theorem for the modes that count failures), on every file observed
        for ph in ob['phases']:
            bad = [r for r in (ph.get('rows') or []) if r['skip'] == 1 and r['exit'] != 0]
            if bad:
                res.oracle_failures.append({'case': case, 'signature': 'skip-record-with-nonzero-exit',
                                            'what': 'the step file holds the skip record %s: the report of a mode that counts failures would count the skipped step' % bad[0]})
                break
        if dup:
            res.count('repeated step name')
        if case.get('exits2'):
            res.count('exit codes change on resume')
        for k in range(1, len(ob['phases'])):
            prev, cur = ob['phases'][k - 1], ob['phases'][k]
            if not prev['crashed']:
                # the crash point was never reached (the invocation ended by itself first): nothing to resume, nothing judged
                res.count('no verdict: crash point of phase %d not reached' % (k - 1))
                break
            res.evaluations += 1
            codes = phase_codes(case, k)
            stoks = [str(len(names))]
            for i, nme in enumerate(names, 1):
                stoks += [str(i), nme.encode().hex(), str(codes.get(nme, 0))]
            rows = prev['rows']
            qs = [' '.join(['next'] + row_toks(rows))]
            a = common.run_driver(drv, qs)[0]
            model_next, spec_next = a.split('|')
            got = str(cur['resumed_at']) if cur['resumed_at'] is not None else '-'
            res.nontrivial.add(hashlib.sha1(json.dumps([case, k]).encode()).hexdigest())
            if got != model_next:
                res.disagreements.append({'case': case, 'why': 'resume point', 'model': model_next, 'impl': got, 'rows': rows, 'tail': cur['tail']})
            if got != spec_next:
                res.oracle_failures.append({'case': case, 'signature': 'resume-point-wrong',
                                            'what': 'canvas -r resumed at %s, the property says %s for %s' % (got, spec_next, rows)})
            if case.get('root_slash') and 'lock already acquired' in (cur.get('tail') or '') and cur['rc'] not in (0, None) and not [t for t in cur['trace'] if t[0] == 'start']:
                # pinned by the case (canvas-dir "<root>/": the killed invocation's lock names <root>//DATE.n) and the observation (canvas -r,
                # which spells the directory as readlink -f does, is refused by lock_acquire; nothing ran): findings/C03_resume_root_slash.md
                res.oracle_failures.append({'case': case, 'signature': SIG_LOCK_SPELLING,
                                            'what': 'killed with %s; canvas -r found the resume point %s and was then refused by the lock the killed invocation left: %r' % (rows, got, cur['tail'].strip().splitlines()[-2:])})
                break
            if got == '-':
                # canvas -r answered no resume point; model and specification were compared with that answer just above
                res.count('resume refused (no resume point)')
                continue
            ok = common.run_driver(drv, [' '.join(['okresume', got] + row_toks(rows))])[0]
            executed = [t[1] for t in cur['trace'] if t[0] == 'start']
            reskip = (case.get('reskip') or []) if got == '1' else []
            if reskip:
                # rv_reskip: step_write -S -e 0 for every name of the resumed invocation's skip set, before the loop
                res.count('resumed at step 1 with other -s options')
                byid = {r['id']: r for r in rows}
                for nme in reskip:
                    i = names.index(nme) + 1
                    byid[i] = {'id': i, 'name': nme, 'exit': 0, 'skip': 1}
                rows_loop = [byid[i] for i in sorted(byid)]
            else:
                rows_loop = rows
            # ids of the steps really started: the trace has names; a repeated name is resolved in schedule order from the resume point on
            exec_ids, ptr = [], max(int(got), 1) - 1
            for nme in executed:
                j = next((i for i in range(ptr, len(names)) if names[i] == nme), None)
                if j is None:
                    j = next((i for i in range(0, len(names)) if names[i] == nme), len(names))   # out of order / before the resume point
                exec_ids.append(j + 1)
                ptr = max(ptr, j + 1)
            # the extracted oracle of C03_resumed_run_executes on what REALLY ran (proved to accept every run of the model)
            okx = '1' if reskip else common.run_driver(drv, [' '.join(['okexec', got] + stoks + row_toks(rows) + [str(len(exec_ids))] + [str(i) for i in exec_ids])])[0]
            if ok != '1' or okx != '1':
                res.oracle_failures.append({'case': case, 'signature': 'resume-reexecutes-or-skips',
                                            'what': 'resumed at %s from %s; started steps %s (ids %s): %s' % (
                                                got, rows, executed, exec_ids,
                                                'records violate resume_ok' if ok != '1' else 'a completed step ran again, a step that did not complete was passed over, or the interrupted step did not run first')})
            # ground truth from the probes, not from the step file: which commands really ran to their end with status 0
            # before this resume; the resumed run (when it is not killed again) must execute exactly the other non-skipped
            # steps, in order, up to and including the first one that fails (names are positions when no name repeats)
            if not cur['crashed'] and not dup:
                truly_done = set()
                for ph in ob['phases'][:k]:
                    for t in ph['trace']:
                        if t[0] == 'end' and t[2] == '0':
                            truly_done.add(t[1])
                expect = []
                skipped_now = {r['name'] for r in rows_loop if r['skip'] == 1}    # includes skip records of earlier resumed invocations
                for st in case['steps']:
                    if st['name'] in case['skip'] or st['name'] in skipped_now or st['name'] in truly_done:
                        continue
                    expect.append(st['name'])
                    if codes[st['name']] != 0:
                        break
                if executed != expect:
                    res.oracle_failures.append({'case': case, 'signature': 'resume-reexecutes-or-skips',
                                                'what': 'commands that had completed successfully before the resume: %s; the resumed invocation executed %s, expected %s'
                                                        % (sorted(truly_done), executed, expect)})
            if not cur['crashed']:
                a2 = common.run_driver(drv, [' '.join(['orch', got] + stoks + row_toks(rows_loop))])[0]
                mrows, mex = [x.strip() for x in a2.split('|')]
                irows = ' '.join('%d:%s:%d:%d' % (r['id'], r['name'].encode().hex(), r['exit'], r['skip']) for r in (cur['rows'] or []))
                if mex.split() != [str(i) for i in exec_ids] or mrows != irows:
                    res.disagreements.append({'case': case, 'why': 'resumed run', 'model': [mex.split(), mrows], 'impl': [exec_ids, executed, irows]})
    if cases:
        res.samples.append(cases[-1])


def parallel_boundary_case(ctx, impl, variant):
    """The boundary theorem C03_parallel_resume_skips_inflight on the real canvas: two parallel steps p1, p2 and a
    synchronous step c, ncpu 2.  p2 (variant 0) or p1 (variant 1: the control, the in-flight step has the higher id)
    completes with exit 0, the other one is still running when the whole session is killed; then canvas -r."""
    work = tempfile.mkdtemp(dir=ctx.mkscratch('c03p'))
    cv = orch_env.Canvas(ctx, impl, work, [{'name': 'p1', 'parallel': True}, {'name': 'p2', 'parallel': True}, {'name': 'c'}], ncpu=2)
    fin, hang = ('p2', 'p1') if variant == 0 else ('p1', 'p2')
    ob = {'variant': variant}
    try:
        proc = cv.start(['-d'])

        def both_started():
            return {t[1] for t in cv.trace() if t[0] == 'start'} >= {'p1', 'p2'}
        if not orch_env.wait_for(both_started, 15):
            ob['error'] = 'parallel steps did not start'
            cv.kill_all(proc)
            return ob
        cv.open_gate(fin, 0)

        def fin_recorded():
            bd = cv.builddirs()
            rows = abstract_rows(cv, bd[0]) if bd else []
            return (any(r['name'] == fin and r['exit'] == 0 for r in rows) and any(r['name'] == hang and r['exit'] == -1 for r in rows))
        if not orch_env.wait_for(fin_recorded, 15):
            ob['error'] = 'completion record of %s not seen' % fin
            cv.kill_all(proc)
            return ob
        cv.kill_all(proc)
        cv.reap_strays()
        bd = cv.builddirs()[0]
        ob['rows'] = abstract_rows(cv, bd)
        pre = len(cv.trace())
        cv.close_gates()
        codes = {'p1': 0, 'p2': 0, 'c': 0}
        case = {'steps': [{'name': n, 'exit': 0} for n in ('p1', 'p2', 'c')]}
        crashed2, rc2, out2 = run_until_crash(cv, ['-d', '-r', bd], case, ['never'], codes)
        import re
        m = re.search(r'at step (\d+)', out2)
        ob['resumed_at'] = int(m.group(1)) if m else None
        ob['executed'] = [t[1] for t in cv.trace()[pre:] if t[0] == 'start']
        ob['rows_after'] = abstract_rows(cv, bd) if os.path.isdir(bd) else None
        ob['rc'] = rc2
        return ob
    finally:
        cv.reap_strays()
        shutil.rmtree(work, ignore_errors=True)


def part_c(ctx, impl, drv, res):
    """parallel steps are outside the property (sequential invocations); the model's answer for them is the boundary theorem"""
    with ThreadPoolExecutor(2) as ex:
        obs = list(ex.map(lambda v: parallel_boundary_case(ctx, impl, v), [0, 1]))
    for ob in obs:
        res.evaluations += 1
        if ob.get('error'):
            res.tie_errors.append('parallel boundary lane: ' + ob['error'])
            continue
        rows = ob['rows']
        model_next = common.run_driver(drv, [' '.join(['next'] + row_toks(rows))])[0].split('|')[0]
        got = str(ob['resumed_at']) if ob['resumed_at'] is not None else '-'
        hang = 'p1' if ob['variant'] == 0 else 'p2'
        rerun = hang in ob['executed']
        res.count('parallel boundary: in-flight %s, resumed at %s, in-flight step %s' % (hang, got, 're-executed' if rerun else 'NOT re-executed'))
        # variant 0 is the theorem: file 1,p1,-1 2,p2,0 -> step_next 3, p1 never runs again; variant 1 (in-flight step last) resumes at it
        want_next, want_rerun = ('3', False) if ob['variant'] == 0 else ('2', True)
        if got != model_next or got != want_next or rerun != want_rerun:
            res.disagreements.append({'case': {'parallel_boundary': ob['variant']}, 'why': 'parallel boundary (C03_parallel_resume_skips_inflight)',
                                      'model': [model_next, want_next, want_rerun], 'impl': [got, ob['executed'], rows]})


SIG_DAMAGED = 'resume-on-damaged-step-file-deletes-build'


def damaged_resume_case(ctx, impl, case):
    """a sequential invocation whose step b fails; its step file is then damaged the way a refused write leaves it (C01 known
    finding refused-write-damages-file: the first k bytes of the new content) and the operator runs canvas -d -r <dir>"""
    work = tempfile.mkdtemp(dir=ctx.mkscratch('c03d'))
    cv = orch_env.Canvas(ctx, impl, work, [{'name': 'a'}, {'name': 'b'}], ncpu=1)
    ob = {}
    try:
        crashed, rc, out = run_until_crash(cv, ['-d'], {'steps': [{'name': 'a', 'exit': 0}, {'name': 'b', 'exit': 1}]}, ['never'])
        bds = cv.builddirs()
        if not bds or rc == 0:
            ob['error'] = 'the first invocation did not fail at b (rc %s)' % rc
            return ob
        bd = bds[0]
        sf = os.path.join(bd, 'step.csv')
        data = open(sf, 'rb').read()
        keep = {'empty': 0, 'header': 20, 'row': len(data) - 25, 'intact': len(data)}[case['damage']]
        open(sf, 'wb').write(data[:keep])
        ob['content_before'] = sorted(os.listdir(bd))
        cv.close_gates()
        pre = len(cv.trace())
        crashed2, rc2, out2 = run_until_crash(cv, ['-d', '-r', bd], {'steps': [{'name': 'a', 'exit': 0}, {'name': 'b', 'exit': 0}]}, ['never'])
        ob.update({'rc': rc2, 'dir_exists': os.path.isdir(bd), 'content_after': sorted(os.listdir(bd)) if os.path.isdir(bd) else None,
                   'executed': [t[1] for t in cv.trace()[pre:] if t[0] == 'start'], 'tail': out2[-300:],
                   'refused': 'cannot find next step' in out2})
        return ob
    finally:
        cv.reap_strays()
        shutil.rmtree(work, ignore_errors=True)


def part_d(ctx, impl, res):
    """"if nothing but skipped steps is recorded resuming fails" - FAILS, it does not destroy: after a refused resume the build
    directory must still be there with its logs and report (C03_failed_resume_removes_the_build_directory is what happens)"""
    cases = [json.load(open(p)) for p in corpus_files('damaged-*.json')]
    have = {c['damage'] for c in cases}
    cases += [{'lane': 'damaged-resume', 'damage': d} for d in ('empty', 'header', 'row', 'intact') if d not in have]
    for case in cases:
        ob = damaged_resume_case(ctx, impl, case)
        if ob.get('error'):
            res.tie_errors.append('damaged-resume lane: ' + ob['error'])
            continue
        res.evaluations += 1
        res.nontrivial.add('damaged:' + case['damage'])
        res.count('lane damaged-resume: %s' % case['damage'])
        if case['damage'] == 'intact':
            # control: the undamaged file resumes at b and runs it
            if ob['rc'] != 0 or ob['executed'] != ['b'] or not ob['dir_exists']:
                res.oracle_failures.append({'case': case, 'signature': 'resume-reexecutes-or-skips', 'what': json.dumps(ob)[:600]})
        elif not ob['dir_exists']:
            # pinned by the case (a step file robsd-step cannot read) and the observation (the resume was refused by step_next,
            # nothing ran, and the directory that held logs and report is gone)
            narrow = ob['refused'] and not ob['executed'] and ob['rc'] != 0
            res.oracle_failures.append({'case': case, 'signature': SIG_DAMAGED if narrow else 'build-directory-removed',
                                        'what': 'step file %s; canvas -r: %r; the build directory (%s) was removed' % (case['damage'], ob['tail'].strip().splitlines()[:3], ob['content_before'])})
        elif ob['rc'] == 0 or ob['executed']:
            res.oracle_failures.append({'case': case, 'signature': 'resumed-from-unreadable-step-file', 'what': json.dumps(ob)[:600]})


def run(ctx, n=None):
    res = common.Result()
    res.rule = ('(a) step files with 0-8 rows mixing skipped / succeeded / failed / in-flight (-1) records, id gaps, with or without end, through the real '
                'step_next of util.sh under bash; (b) canvas -d with 2-5 gated probe steps, optional failing step and skip set, SIGKILL of the whole session '
                'before the first record / while a step runs / right after a completion record, then canvas -d -r (optionally killed again and resumed again); '
                'a step name may repeat, and the exit codes of the resumed invocations may differ from those of the first one (repaired and resumed); '
                'what the resumed invocation really started is judged by the extracted oracle of C03_resumed_run_executes; (c) the boundary theorem for '
                'parallel steps replayed on the real canvas (in-flight parallel step below / above a completed one); (d) canvas -r on a step file '
                'emptied / cut in the header / cut inside a row (and intact, as the control); '
                'non-trivial = (a) both skipped and non-skipped rows present, (b) every crash+resume pair; distinct by content; '
                'boundary classes (printed as "class: ..."; a share of the generated cases plus corpus rows-b03_* / e2e-b03_*): (a) 1 / 16 / 17 / 64 / 65 rows, the '
                'record that did not complete first / last / last but one / at index 15 / 16, 1 / 15 / 16 / 17 / all-but-one / all trailing skipped rows, ids '
                '2^31 / 2^32 apart up to 2^62, end look-alikes (en, endx, End, end-2) and names of up to 4096 bytes, and files robsd-step never writes (empty, no '
                'final newline, CRLF, blank last line, cut inside the last row: refusal or the answer of the intact rows, nothing else); (b) 1 / 15-17 / 32 / 33 / '
                '64 / 65 steps with the crash at the first / second / 16th / 17th / last but one / last step, skip first / last / all but one / 15-17, names as in '
                'C04, failing codes 126 / 127 / 255 / SIGKILL / SIGTERM, a root spelled with a trailing slash (known deviation, own signature)')
    impl = ctx.build_impl()
    drv = ctx.build_driver('rs', withz=True)
    ctx.shims_used = orch_env.SHIMS_USED
    part_a(ctx, impl, drv, res, n or ctx.budget(400, 10000))
    part_b(ctx, impl, drv, res, (n // 20 if n else ctx.budget(24, 400)))
    part_c(ctx, impl, drv, res)
    part_d(ctx, impl, res)
    res.traces_validated = res.evaluations
    return res


def extended_search(ctx, res, proof):
    return run(ctx, n=3000)


def replay(ctx, rep):
    case = rep.get('case') or (rep.get('first_disagreements') or [{}])[0].get('case')
    res = common.Result()
    impl = ctx.build_impl()
    drv = ctx.build_driver('rs', withz=True)
    if 'rows' in case:
        work = ctx.mkscratch('c03r')
        print(sh_step_next(impl, work, 0, case))
        print(common.run_driver(drv, [' '.join(['next'] + row_toks(case['rows']))]))
    else:
        print(json.dumps(e2e_case(ctx, impl, case), indent=1)[:3000])
    return 0
