"""C09 - interpolation: model vs robsd-config (interpolate_file) and vs interpolate_str in process."""
import os, re, subprocess, hashlib
from concurrent.futures import ThreadPoolExecutor
import common
from common import hexs

TRANSLATORS = ['t_interp', 't_interpsrc']
TRUSTED = ['translators t_interp.py (regex on interpolate.c for the depth limit) and t_interpsrc.py (token-for-token match of interpolate_inner, '
           'interpolate and the line loop of interpolate_file: characters, order of tests, IGNORE branch, depth bookkeeping, diagnostics)',
           'modelled, not verified: strchr/strlen, the arena and buffer under interpolate.c, read of /dev/stdin, printf("%s")',
           'the lookup callback is a pure function of the name in the model (config lookups with side effects are C08\'s subject)',
           'the C09 oracle IS the model: spec_ok_cmd runs interp_cmd and compares (InterpSpec.v); what makes it a specification is the theorem that the model '
           'computes exactly the substitution relation (C09_model_iff_relation, C09_command_exact, C09_ignore_mode), so "oracle failure" and "disagreement" are '
           'one test reported twice (the oracle entry carries the replay)']

NAMES = [b'a', b'b', b'c', b'd', b'e', b'f', b'g', b'x-y', b'A', b'0', b'a b', b'$', b'{', b'a$', b'${a', b'zz']
KINDS = {'expected \'{\'': 'brace', 'expected \'}\'': 'close', 'empty variable name': 'empty',
         'unknown variable': 'unknown', 'recursion too deep': 'deep'}


def gen_text(rng, names, maxlen=6, nul=True):
    """nul: the three snippets with a NUL byte are for TEMPLATES (stdin cuts the line there, modelled by clines); a value
    travels through argv and cannot hold one, so values are generated without them instead of discarding the case"""
    out = b''
    odd = [b'$', b'${', b'${}', b'$}', b'}', b'{', b'$$', b'${a${b}}', b'$ {a}', b'${a', b'$\n', b'${zz}', b'${zz}${a}']
    if nul:
        odd += [b'x\x00${', b'\x00', b'${a\x00}']
    for _ in range(rng.randint(0, maxlen)):
        k = rng.random()
        if k < 0.45:
            out += b'${' + rng.choice(names) + b'}'
        elif k < 0.50:
            out += rng.choice(odd)
        elif k < 0.57:
            out += b'\n'
        else:
            out += rng.choice([b'x', b'yz', b' ', b'-', b'=', b'\t', b'}', b'{'])
    return out


def gen_env(rng):
    shape = rng.random()
    env = []
    names = [n for n in NAMES if b'=' not in n]
    if shape < 0.35:      # chain of depth k
        k = rng.randint(1, 6)
        chain = [b'a', b'b', b'c', b'd', b'e', b'f', b'g'][:k]
        for i, n in enumerate(chain):
            nxt = chain[i + 1] if i + 1 < k else None
            v = (rng.choice([b'', b'<']) + b'${' + nxt + b'}' + rng.choice([b'', b'>'])) if nxt else rng.choice([b'V', b'', b'v w'])
            env.append((n, v))
    elif shape < 0.55:    # cycle of length 1..3
        k = rng.randint(1, 3)
        cyc = [b'a', b'b', b'c'][:k]
        for i, n in enumerate(cyc):
            env.append((n, rng.choice([b'', b'p']) + b'${' + cyc[(i + 1) % k] + b'}' + rng.choice([b'', b's'])))
        env.append((b'd', b'plain'))
    elif shape < 0.70:    # diamond
        env = [(b'a', b'${b}${c}'), (b'b', b'${d}'), (b'c', b'[${d}]'), (b'd', rng.choice([b'D', b'${e}', b'$']))]
        if rng.random() < 0.5:
            env.append((b'e', b'E'))
    else:
        for n in rng.sample(names, rng.randint(0, 6)):
            env.append((n, gen_text(rng, names, 3, nul=False).replace(b'\n', b' ')))
    if rng.random() < 0.15 and env:   # duplicate definition: first wins
        env.append((env[0][0], b'SECOND'))
    return env


def gen_fanout(rng, budget=20000, hang=False):
    """every value refers F times to the next one, `levels` levels deep (the depth limit allows three value levels below the
    template), the last one is a plain leaf: the result is the leaf F^(levels+1) times.  budget bounds the size of the result
    (the list model is quadratic).  Also the shape of seeded/C12-2: a LONG value referenced several times, so that the result
    outgrows every buffer sized after the template."""
    levels = rng.choice([0, 1, 1, 2, 2, 2])
    names = [b'a', b'b', b'c'][:levels + 1]
    leaf = rng.choice([b'x', b'', b'leaf', b'y' * 40, b'z' * rng.choice([600, 700, 1500, 3000])])
    room = max(1, budget // max(1, len(leaf)))
    fmax = min(1500, max(1, int(room ** (1.0 / (levels + 1)))))
    F = rng.randint(1, fmax) if fmax > 1 and rng.random() < 0.5 else fmax
    sep = rng.choice([b'', b'', b' ', b'-'])
    env = []
    for i, n in enumerate(names):
        nxt = names[i + 1] if i + 1 < len(names) else None
        env.append((n, (sep.join([b'${' + nxt + b'}'] * F)) if nxt else leaf))
    t = sep.join([b'${a}'] * F) + rng.choice([b'', b'\n', b'\ntail ${a}\n' if F * len(leaf) < 3000 else b'\n'])
    return {'env': [[k.hex(), v.hex()] for k, v in env], 'template': t.hex(), 'fanout': [F, levels + 1, len(leaf)]}


def gen_longname(rng):
    """names around the sizes at which a fixed buffer would cut them (NAME_MAX 255, PATH_MAX 4096, BUFSIZ 8192): the long
    name and a proper prefix of it are both defined with different values, or only the prefix is (the long one must then be
    an unknown variable); referenced from the template and from inside a value (seeded/C09-3: a stack buffer of PATH_MAX)"""
    n = rng.choice([254, 255, 256, 1023, 1024, 1025, 4094, 4095, 4096, 4097, 8191, 8192, 8193, 8200])
    stem = (b'n' + b'abcdefghij' * 900)[:n]
    cut = rng.choice([n - 1, n - 2, 255, 4095, 1023])
    cut = max(1, min(cut, n - 1))
    env = [(stem[:cut], b'short')]
    if rng.random() < 0.6:
        env.append((stem, b'long'))
    env.append((b'v', b'<${' + stem + b'}>'))
    t = rng.choice([b'X=${' + stem[:cut] + b'} Y=${' + stem + b'}\n', b'${v}\n', b'ok\n${' + stem + b'}\n', b'${' + stem + b'}'])
    rng.shuffle(env)
    return {'env': [[k.hex(), v.hex()] for k, v in env], 'template': t.hex(), 'longname': n}


# ---------------------------------------------------------------------------------------------------------------------
# Boundary SIZE / SHAPE classes.  Every class has a deterministic builder b_<kind>(params, limit) -> (env, template,
# class names); the generator draws the parameters from the lists below with a small probability and corpus/C09/b09_*.json
# holds one descriptor {"boundary": kind, "params": {...}} per class (a corpus file may hold a LIST of descriptors; they are
# expanded by expand_corpus, so a 64 KiB value costs one line of JSON).  Sizes are the ones at which a fixed buffer
# (NAME_MAX 255, 1 KiB = initial size of the output / line buffers, PATH_MAX 4096, 8 KiB = initial size of the input
# buffer of arena_buffer_read and BUFSIZ, 64 KiB = pipe capacity) or a power-of-two growth step would cut or misplace data.
#
# CAPS (measured on the extracted model, driver `ip`, one question; the check asks two per case):
#   * variable NAME: InterpDefs.name_scan collects the name with `acc ++ [c]`, quadratic: 4096 bytes 0.1 s, 8192 0.5 s,
#     16384 3.6 s, 32768 26 s, 65536 180 s.  Names are therefore capped at 8193 bytes (the 65535/65536 class of the brief
#     is NOT reachable for names in reasonable time; values, lines and inputs reach it).
#   * VALUE / LINE / INPUT: linear (131000 bytes 0.5 s, 1 MiB 8 s with an unlimited stack; the default 8 MiB stack
#     overflows at ~256 KiB, hence run_driver below raises the limit).  Capped at 65537 bytes in the generator plus one
#     corpus value of 131000 bytes (`-v a=<value>` is one argv string: the kernel's MAX_ARG_STRLEN is 131072).
#   * counts (variables, references, lines) up to 257; lines also 4096 and 65537 (line numbers are an int).
SZ_NAME = [1, 2, 254, 255, 256, 257, 1023, 1024, 1025, 4095, 4096, 4097, 8191, 8192, 8193]
SZ_VALUE = [0, 1, 127, 128, 129, 254, 255, 256, 1022, 1023, 1024, 1025, 2047, 2048, 2049, 4095, 4096, 4097,
            8191, 8192, 8193, 16383, 16384, 16385, 65535, 65536, 65537]
SZ_OFFSET = [0, 1022, 1023, 1024, 4094, 4095, 4096, 8190, 8191, 8192, 12287, 12288, 16383, 16384, 65535, 65536]
COUNTS = [0, 1, 2, 15, 16, 17, 31, 32, 33, 63, 64, 65, 127, 128, 129, 255, 256, 257]
BANDS = [(0, 0), (1, 2), (15, 17), (31, 33), (63, 65), (127, 129), (254, 257), (1022, 1025), (2047, 2049), (4094, 4097),
         (8190, 8193), (12287, 12289), (16383, 16385), (65535, 65537)]
SHAPES = ['empty', 'newline_only', 'no_final_newline', 'crlf', 'cr_in_name', 'nul_mid', 'nul_first', 'nul_in_name', 'nul_last',
          'dollar_last', 'dollar_eol', 'open_last', 'open_name_last', 'empty_name', 'close_only', 'dollar_dollar',
          'brace_space', 'nested_syntax', 'value_newline', 'value_equals']


def band(n):
    for lo, hi in BANDS:
        if lo <= n <= hi:
            return str(lo) if lo == hi else '%d..%d' % (lo, hi)
    return 'other (%s)' % ('< 1 KiB' if n < 1024 else '< 64 KiB' if n < 65536 else '>= 64 KiB')


def fill(n, salt=0):
    """n ordinary bytes with period 37 (prime to every power of two: data moved by a block size is noticed)"""
    a = b'abcdefghijklmnopqrstuvwxyz0123456789_'
    a = a[salt % 37:] + a[:salt % 37]
    return (a * (n // 37 + 1))[:n]


def b_name(p, limit):
    """a name of n bytes; OTHER names defined BEFORE it (a lookup that cuts or narrows the name finds them first): one of
    the same length that differs in byte diff_at only (-1 = the last byte), a proper prefix of cut bytes, one that is one
    byte longer.  define_long false: only the others exist, the reference must be an unknown variable."""
    n = max(1, p['n'])
    stem = (b'n' + fill(n))[:n]
    cls = ['name length ' + band(n)]
    others = []
    if p.get('diff_at') is not None:
        i = p['diff_at'] % n
        others.append((stem[:i] + (b'Y' if stem[i:i + 1] == b'X' else b'X') + stem[i + 1:], b'<differs at %d>' % i))
        cls.append('names differ only in the last byte' if i == n - 1 else
                   'names differ only beyond byte %s' % ('4095' if i >= 4095 else '1023' if i >= 1023 else '255') if i >= 255 else
                   'names differ only in an early byte')
    if p.get('cut') and n > 1:
        c = max(1, min(p['cut'], n - 1))
        others.append((stem[:c], b'<prefix %d>' % c))
        cls.append('name and a proper prefix of it both defined')
    if p.get('longer'):
        others.append((stem + b'z', b'<one longer>'))
        cls.append('name and a one byte longer one both defined')
    env = others + ([(stem, b'LONG')] if p.get('define_long', True) else [])
    if not p.get('define_long', True):
        cls.append('only the near-miss names defined (unknown variable)')
    if p.get('long_first'):
        env.reverse()
    where = p.get('where', 'template')
    if where == 'value':
        env.append((b'w', b'<${' + stem + b'}>'))
        t = b'${w}\n'
    else:
        # the near-miss names are referenced too unless refs_others is false (every occurrence of a long name costs the
        # model quadratic time: the big sizes reference only the name itself)
        t = b'A=${' + stem + b'}' + (b''.join(b' O=${' + o + b'}' for o, _ in others) if p.get('refs_others', True) else b'') + b'\n'
    return env, t, cls


def b_value(p, limit):
    """a value of n bytes, referenced refs times, reached through `via` intermediate values; tail: the value ends in a
    reference (`${b}` ends exactly at byte n), a bare `$`, an unterminated `${`"""
    n, refs, via, tail = p['n'], p.get('refs', 1), p.get('via', 0), p.get('tail', 'plain')
    v = fill(n, p.get('salt', 0))
    cls = ['value length ' + band(n)]
    if tail == 'ref' and n >= 4:
        v = v[:n - 4] + b'${b}'
        cls.append('value ends in a reference')
    elif tail == 'dollar' and n >= 1:
        v = v[:n - 1] + b'$'
        cls.append('value ends in a bare $')
    elif tail == 'open' and n >= 2:
        v = v[:n - 2] + b'${'
        cls.append('value ends in an unterminated ${')
    env = [(b'a', v), (b'b', b'B')]
    top = b'a'
    for i in range(min(via, max(0, limit - (4 if tail == 'ref' else 3)))):
        nm = b'c%d' % i
        env.insert(0, (nm, b'(${' + top + b'})'))
        top = nm
    if refs > 1:
        cls.append('long value referenced several times')
    t = b'<' + b'|'.join([b'${' + top + b'}'] * refs) + b'>' + (b'\n' if p.get('nl', True) else b'')
    return env, t, cls


def b_offset(p, limit):
    """a token starting exactly at byte `off` of the INPUT (8 KiB initial read buffer growing by halves, 64 KiB pipe), the
    bytes before it being one long line or 64-byte lines"""
    off, what = p['off'], p.get('what', 'ref')
    if p.get('lines'):
        pre = (fill(63) + b'\n') * (off // 64) + fill(off % 64, 5)
    else:
        pre = fill(off)
    tok = {'ref': b'${a}', 'dollar': b'$', 'open': b'${a', 'empty': b'${}', 'unknown': b'${zz}', 'ref2': b'${a}${b}'}[what]
    t = pre + tok + (b' tail ${b}\n' if p.get('post', True) else b'')
    return [(b'a', b'A'), (b'b', b'')], t, ['token at input offset ' + band(off), 'token at a block boundary: ' + what]


def b_line(p, limit):
    """one line of n bytes (without its newline) with a reference at its start / middle / very end, between two other lines"""
    n, place = p['n'], p.get('place', 'end')
    ref = b'${a}'
    if n < len(ref):
        line = fill(n)
    elif place == 'start':
        line = ref + fill(n - 4)
    elif place == 'mid':
        line = fill((n - 4) // 2) + ref + fill(n - 4 - (n - 4) // 2, 9)
    else:
        line = fill(n - 4) + ref
    t = (b'first ${a}\n' if p.get('before', True) else b'') + line + (b'\n' if p.get('nl', True) else b'') + \
        (b'last ${a}' + (b'\n' if p.get('nl', True) else b'') if p.get('after') else b'')
    return [(b'a', p.get('value', 'A').encode())], t, ['line length ' + band(n)] + ([] if p.get('nl', True) else ['no final newline'])


def b_lines(p, limit):
    """n lines, the failing one (if any) the first or the very last; LF or CRLF"""
    n, err = p['n'], p.get('err', 'none')
    eol = b'\r\n' if p.get('crlf') else b'\n'
    ls = [b'%d ${a}' % i for i in range(n)]
    if n and err == 'last':
        ls[-1] = b'$'
    elif n and err == 'first':
        ls[0] = b'${zz}'
    t = eol.join(ls) + (eol if n and p.get('nl', True) else b'')
    cls = ['number of lines ' + band(n)]
    if p.get('crlf'):
        cls.append('CRLF line ends')
    if n and not p.get('nl', True):
        cls.append('no final newline')
    if n and err != 'none':
        cls.append('malformed reference on the %s line' % err)
    return [(b'a', b'A')], t, cls


def b_shape(p, limit):
    w = p['which']
    env = [(b'a', b'A'), (b'b', b'')]
    t = {'empty': b'', 'newline_only': b'\n' * p.get('k', 3), 'no_final_newline': b'x ${a}', 'crlf': b'${a}\r\n${a} x\r\n\r\n',
         'cr_in_name': b'${a\r}\n', 'nul_mid': b'x ${a} \x00 ${zz} $\nnext ${a}\n', 'nul_first': b'\x00${\n${a}\n',
         'nul_in_name': b'ok\n${a\x00}\n', 'nul_last': b'${a}\n\x00', 'dollar_last': b'x ${a}\n$', 'dollar_eol': b'x$\n${a}\n',
         'open_last': b'${a}\n${', 'open_name_last': b'${a}\n${a', 'empty_name': b'a${}b\n', 'close_only': b'}${a}}\n',
         'dollar_dollar': b'$${a}\n', 'brace_space': b'$ {a}\n', 'nested_syntax': b'${a${b}}\n',
         'value_newline': b'<${n}>\n', 'value_equals': b'${e} ${e=f}\n'}[w]
    if w == 'value_newline':
        env.append((b'n', b'one\ntwo ${a}\n'))
    if w == 'value_equals':
        env.append((b'e', b'f=g'))       # -v e=f=g defines e, never "e=f"
    return env, t, ['shape: ' + w.replace('_', ' ')]


def b_depth(p, limit):
    """levels = limit - 2 + delta values below the template: delta 0 is the deepest chain that works, +1 the first that is
    too deep, -1 one less; the reference sits behind `pad` bytes and is repeated (the depth must be restored each time)"""
    delta, pad, rep = p.get('delta', 0), p.get('pad', 0), p.get('repeats', 1)
    levels = max(1, limit - 2 + delta)
    env = []
    for i in range(levels):
        env.append((b'd%d' % i, b'[${d%d}]' % (i + 1) if i + 1 < levels else (b'${d%d}' % i if p.get('self') else b'leaf')))
    t = fill(pad) + b' '.join([b'${d0}'] * rep) + (b'\n${d0}' if p.get('again') else b'') + b'\n'
    cls = ['nesting depth limit%+d' % (levels + 2 - limit) + (' ending in a self reference' if p.get('self') else '')]
    if rep > 1:
        cls.append('deep chain referenced %s times on one line' % band(rep))
    return env, t, cls


def b_envcount(p, limit):
    """n variables defined (-v n times: the vector of robsd-config and the variable list of the configuration grow)"""
    n, ref = p['n'], p.get('ref', 'all')
    env = [(b'v%d' % i, b'val%d;' % i) for i in range(n)]
    idx = {'first': [0], 'last': [n - 1], 'mid': [n // 2], 'missing': [n], 'all': list(range(n)), 'rev': list(range(n - 1, -1, -1))}[ref]
    t = b''.join(b'${v%d}' % max(0, i) for i in idx) + b'\n'
    return env, t, ['number of variables ' + band(n), 'variables referenced: ' + ref]


def b_refs(p, limit):
    """n references on one line"""
    n = p['n']
    env = [(b'a', b'A'), (b'b', b''), (b'c', b'${a}c')]
    names = [b'a'] if p.get('same') else [b'a', b'b', b'c']
    t = p.get('sep', '').encode().join(b'${' + names[i % len(names)] + b'}' for i in range(n)) + (b'' if p.get('nl', True) is False else b'\n')
    return env, t, ['references on one line ' + band(n)]


RELATED = {'prefix': [b'p', b'pr', b'pre', b'pref', b'prefi', b'prefix', b'prefix-', b'prefix-x'],
           'case': [b'abc', b'ABC', b'Abc', b'aBC', b'abC', b'aBc'],
           'chars': [b'a-b', b'a.b', b'a b', b'a_b', b'a,b', b'a/b', b'a{b', b'a$b', b'a:b', b'-', b'.', b' ', b'a\tb', b'a"b', b"a'b", b'a\\b'],
           'adjacent': [b'k', b'k\x01', b'k\x7f', b'k\x80', b'k\xff', b'j\xff', b'l', b'k0', b'k/'],
           'equals': [b'q', b'q=r', b'q=', b'=q']}        # names with '=': definable in process only (ignore lane)


def b_related(p, limit):
    """names that are prefixes of each other / differ in case / contain the separator characters / are byte-order
    neighbours, all defined with different values, in the given or the reverse order, each referenced once"""
    names = list(RELATED[p['set']])
    env = [(nm, b'<%d>' % i) for i, nm in enumerate(names)]
    if p.get('rev'):
        env.reverse()
    if p.get('drop') is not None and env:
        del env[p['drop'] % len(env)]                    # one of them is NOT defined: its neighbours must not answer for it
    order = names[::-1] if p.get('refrev') else names
    t = b' '.join(b'${' + nm + b'}' for nm in order) + b'\n'
    return env, t, ['related names: ' + p['set']] + (['related names: one of the set undefined'] if p.get('drop') is not None else [])


BUILDERS = {'name': b_name, 'value': b_value, 'offset': b_offset, 'line': b_line, 'lines': b_lines, 'shape': b_shape,
            'depth': b_depth, 'envcount': b_envcount, 'refs': b_refs, 'related': b_related}


def boundary_case(kind, params, limit):
    env, t, cls = BUILDERS[kind](params, limit)
    return {'env': [[k.hex(), v.hex()] for k, v in env], 'template': t.hex(), 'boundary': kind, 'params': params, 'class': cls}


def gen_boundary(rng, limit, inproc=False):
    """inproc: the case goes to the interpolate_str lane (names may hold '='; -v cannot define those)"""
    kind = rng.choice(['name', 'name', 'value', 'value', 'offset', 'line', 'lines', 'shape', 'depth', 'envcount', 'refs', 'related'])
    if kind == 'name':
        # names of >= 4095 bytes cost the model 0.1-0.5 s per question: one in four
        n = rng.choice(SZ_NAME if rng.random() < 0.25 else SZ_NAME[:9])
        p = {'n': n, 'where': rng.choice(['template', 'template', 'value'])}
        k = rng.random()
        if k < 0.45:
            p['diff_at'] = rng.choice([-1, -1, 255, 256, 1023, 1024, 4095, 4096, 0, n // 2])
        elif k < 0.7:
            p['cut'] = rng.choice([n - 1, n - 2, 255, 1023, 4095, 1])
        elif k < 0.8:
            p['longer'] = True
        else:
            p.update(diff_at=-1, cut=n - 1, longer=True)
        p['define_long'] = rng.random() < 0.7
        p['long_first'] = rng.random() < 0.3
        p['refs_others'] = n < 4000
    elif kind == 'value':
        p = {'n': rng.choice(SZ_VALUE), 'refs': rng.choice([1, 1, 2, 3]), 'via': rng.choice([0, 0, 1, 2]),
             'tail': rng.choice(['plain', 'plain', 'ref', 'dollar', 'open']), 'nl': rng.random() < 0.8, 'salt': rng.randrange(37)}
    elif kind == 'offset':
        p = {'off': rng.choice(SZ_OFFSET), 'what': rng.choice(['ref', 'ref', 'ref2', 'dollar', 'open', 'empty', 'unknown']),
             'lines': rng.random() < 0.5, 'post': rng.random() < 0.7}
    elif kind == 'line':
        p = {'n': rng.choice(SZ_VALUE), 'place': rng.choice(['start', 'mid', 'end']), 'nl': rng.random() < 0.7,
             'before': rng.random() < 0.5, 'after': rng.random() < 0.5, 'value': rng.choice(['A', '', 'long value ' * 30])}
    elif kind == 'lines':
        p = {'n': rng.choice(COUNTS + [4096]), 'err': rng.choice(['none', 'none', 'last', 'first']), 'crlf': rng.random() < 0.25,
             'nl': rng.random() < 0.7}
    elif kind == 'shape':
        p = {'which': rng.choice(SHAPES)}
    elif kind == 'depth':
        p = {'delta': rng.choice([-1, 0, 0, 1]), 'pad': rng.choice([0, 1, 1020, 4093]), 'repeats': rng.choice([1, 1, 2, 16, 17, 256]),
             'self': rng.random() < 0.2, 'again': rng.random() < 0.3}
    elif kind == 'envcount':
        p = {'n': rng.choice(COUNTS), 'ref': rng.choice(['first', 'last', 'mid', 'missing', 'all', 'all', 'rev'])}
    elif kind == 'refs':
        p = {'n': rng.choice(COUNTS + [1024]), 'same': rng.random() < 0.4, 'sep': rng.choice(['', '', ' ', '}{'])}
    else:
        p = {'set': rng.choice(['prefix', 'case', 'chars', 'adjacent'] + (['equals', 'equals'] if inproc else [])), 'rev': rng.random() < 0.5, 'refrev': rng.random() < 0.3}
        if rng.random() < 0.4:
            p['drop'] = rng.randrange(8)
    return boundary_case(kind, p, limit)


def gen_case(rng, limit=5, inproc=False):
    if rng.random() < 0.10:
        return gen_boundary(rng, limit, inproc)
    if rng.random() < 0.06:
        return gen_fanout(rng)
    if rng.random() < 0.03:
        return gen_longname(rng)
    env = gen_env(rng)
    t = gen_text(rng, [n for n, _ in env] + NAMES[:4] + [b'zz'], 8)
    if rng.random() < 0.5 and t and not t.endswith(b'\n'):
        t += b'\n'
    return {'env': [[k.hex(), v.hex()] for k, v in env], 'template': t.hex()}


def env_toks(case):
    t = [str(len(case['env']))]
    for k, v in case['env']:
        t += [k if k else '-', v if v else '-']
    return t


def classify(stderr):
    m = re.search(rb'/dev/stdin:(\d+): invalid substitution, (.*)', stderr)
    if not m:
        return (0, '-' if not stderr.strip() else 'other')
    msg = m.group(2).decode('latin1')
    for k, v in KINDS.items():
        if msg.startswith(k):
            return (int(m.group(1)), v)
    return (int(m.group(1)), 'other')


TIME_LIMIT = 5          # seconds; "terminates" for the real command (C12 uses the same limit for "promptly")


def run_cmd(impl, conf, case, timeout=TIME_LIMIT):
    args = [os.path.join(impl, 'robsd-config'), '-m', 'canvas', '-C', conf]
    for k, v in case['env']:
        args += ['-v', bytes.fromhex(k) + b'=' + bytes.fromhex(v)]
    args.append('-')
    try:
        r = subprocess.run(args, input=bytes.fromhex(case['template']), stdout=subprocess.PIPE, stderr=subprocess.PIPE, timeout=timeout)
        return (r.returncode, r.stdout, r.stderr)
    except subprocess.TimeoutExpired:
        return (-999, b'', b'timeout')


def argv_ok(case):
    """can the environment be handed over?  Through -v: no NUL, no '=' in the name, no empty name.  In process (cases with
    an `ignore` key: the harness gets hex strings) only NUL and the empty name are impossible."""
    for k, v in case['env']:
        kb, vb = bytes.fromhex(k), bytes.fromhex(v)
        if b'\0' in kb or b'\0' in vb or not kb or (b'=' in kb and 'ignore' not in case):
            return False
    return True


def run_driver(path, lines, timeout=900, workers=6):
    """common.run_driver with an unlimited stack: the extracted list functions are not tail recursive and results of
    more than ~256 KiB overflow the default 8 MiB stack (the boundary classes reach 64 KiB values referenced 3 times).
    The questions are independent: they are dealt out to `workers` driver processes (the model, not the implementation,
    is what takes the time of this check) and the answers put back in order."""
    def one(ls):
        if not ls:
            return []
        r = subprocess.run(['bash', '-c', 'ulimit -s unlimited 2>/dev/null || ulimit -s hard; exec "$0"', path],
                           input='\n'.join(ls) + '\n', stdout=subprocess.PIPE, stderr=subprocess.PIPE, text=True, timeout=timeout)
        out = r.stdout.split('\n')
        if out and out[-1] == '':
            out.pop()
        if len(out) != len(ls):
            raise RuntimeError('driver %s: %d answers for %d questions (rc=%s, stderr=%s)' % (path, len(out), len(ls), r.returncode, r.stderr[-500:]))
        return out
    if len(lines) < 4 * workers:
        return one(lines)
    with ThreadPoolExecutor(workers) as ex:
        parts = list(ex.map(one, [lines[i::workers] for i in range(workers)]))
    out = [None] * len(lines)
    for i, part in enumerate(parts):
        out[i::workers] = part
    return out


def count_classes(res, c, lane):
    """the input distribution shows every boundary class that was evaluated (generated or from the corpus)"""
    for k in c.get('class', []):
        res.count('class: ' + k)
    if c.get('boundary'):
        res.count('boundary cases, %s lane: %s' % (lane, c['boundary']))


def evaluate(ctx, cases, res, limit):
    impl = ctx.build_impl()
    drv = ctx.build_driver('ip')
    work = ctx.mkscratch('c09')
    root = os.path.join(work, 'root')
    os.makedirs(root)
    conf = os.path.join(work, 'canvas.conf')
    open(conf, 'w').write('canvas-name "t"\ncanvas-dir "%s"\nstep "s" command { "true" }\n' % root)
    with ThreadPoolExecutor(16) as ex:
        obs = list(ex.map(lambda c: run_cmd(impl, conf, c), cases))
    qs = []
    for c, (rc, out, err) in zip(cases, obs):
        qs.append(' '.join(['cmd', str(limit)] + env_toks(c) + [c['template'] or '-']))
        qs.append(' '.join(['ok', str(limit), str(rc if rc >= 0 else 999), hexs(out)] + env_toks(c) + [c['template'] or '-']))
    ans = run_driver(drv, qs)
    for i, (c, (rc, out, err)) in enumerate(zip(cases, obs)):
        res.evaluations += 1
        count_classes(res, c, 'robsd-config')
        lno, kind = classify(err)
        impl_s = '%d %s %d %s' % (rc, hexs(out), lno, kind)
        m = ans[2 * i]
        res.count('cmd exit=%d kind=%s' % (rc, kind))
        if m.startswith('EXN'):
            # the extracted model ran out of stack (very large result): no verdict from it; the implementation must still
            # terminate normally.  More than a handful of these would mean the lane compares nothing: counted, and a tie error
            res.count('beyond the extracted model (%s)' % m[4:40])
            res.extra['model_gave_up'] = res.extra.get('model_gave_up', 0) + 1
            if rc not in (0, 1):
                res.oracle_failures.append({'case': c, 'signature': 'abnormal-termination', 'what': 'robsd-config terminated with status %d' % rc, 'via': 'robsd-config'})
            continue
        if 'fanout' in c:
            e = c['fanout'][0] ** c['fanout'][1]
            res.count('fan-out %s expansions, %d level(s), result %s' % ('>= 1000' if e >= 1000 else '< 1000', c['fanout'][1],
                                                                        '> 4 KiB' if len(out) > 4096 else '<= 4 KiB'))
        if b'${' in bytes.fromhex(c['template']) and c['env']:
            res.nontrivial.add(hashlib.sha1(repr(c).encode()).hexdigest())
        if m != impl_s:
            res.disagreements.append({'case': c, 'model': m, 'impl': impl_s, 'via': 'robsd-config'})
        if ans[2 * i + 1] != '1':
            sig = 'interpolation-result'
            what = 'robsd-config - : exit %d / output differ from the substitution relation' % rc
            if rc != 0 and out:
                sig, what = 'partial-output-on-failure', 'exit %d with %d bytes on stdout' % (rc, len(out))
            if rc < 0 or rc > 1:
                sig, what = 'abnormal-termination', 'robsd-config terminated with status %d' % rc
            if rc == -999:
                sig, what = 'hang', 'robsd-config did not terminate within %d s' % TIME_LIMIT
            res.oracle_failures.append({'case': c, 'signature': sig, 'what': what, 'impl': impl_s,
                                        'stderr': err[-300:].decode('latin1'), 'via': 'robsd-config'})
        if rc != 0 and not err.strip():
            res.oracle_failures.append({'case': c, 'signature': 'failure-without-diagnostic',
                                        'what': 'exit %d and empty stderr' % rc, 'impl': impl_s, 'via': 'robsd-config'})
    return impl


def evaluate_str(ctx, impl, cases, res, limit):
    """interpolate_str in process, both flag values."""
    work = ctx.mkscratch('c09h')
    exe = os.path.join(work, 'interp_harness')
    objs = [os.path.join(impl, o) for o in ('interpolate.o', 'arena.o', 'arena-buffer.o', 'buffer.o', 'arithmetic.o', 'log.o')]
    r = common.sh(['cc', '-I' + impl, os.path.join(common.VERIF, 'harness', 'interp_harness.c')] + objs + ['-o', exe])
    if r.returncode != 0:
        raise common.BuildFailure('interp_harness: ' + r.stdout[-1500:])
    lines, qs = [], []
    for c in cases:
        lines.append(' '.join([str(c['ignore'])] + env_toks(c) + [c['template'] or '-']))
        qs.append(' '.join(['str', str(limit), str(c['ignore'])] + env_toks(c) + [c['template'] or '-']))
    p = subprocess.run([exe], input=('\n'.join(lines) + '\n').encode(), stdout=subprocess.PIPE, stderr=subprocess.PIPE, timeout=300)
    outs = p.stdout.decode().split('\n')[:-1]
    errs = re.split(rb'#case \d+\n', p.stderr)[1:]
    ans = run_driver(ctx.build_driver('ip'), qs)
    if len(outs) != len(cases):
        res.oracle_failures.append({'case': cases[len(outs)] if len(outs) < len(cases) else None, 'signature': 'abnormal-termination',
                                    'what': 'interpolate_str harness died (status %s) at case %d' % (p.returncode, len(outs)), 'via': 'interpolate_str'})
        return
    if len(errs) != len(cases) or len(ans) != len(cases):
        # the per-case marker lines on stderr / the driver's answers do not line up with the cases: nothing may be dropped silently
        res.tie_errors.append('interpolate_str lane: %d cases, %d stderr sections, %d model answers' % (len(cases), len(errs), len(ans)))
        return
    for c, o, e, m in zip(cases, outs, errs, ans):
        res.evaluations += 1
        k = '-'
        mm = re.search(rb'invalid substitution, (.*)', e)
        if mm:
            msg = mm.group(1).decode('latin1')
            k = next((v for kk, v in KINDS.items() if msg.startswith(kk)), 'other')
        impl_s = o + ' ' + k
        res.count('str ignore=%d kind=%s' % (c['ignore'], k))
        count_classes(res, c, 'interpolate_str')
        if impl_s != m:
            res.disagreements.append({'case': c, 'model': m, 'impl': impl_s, 'via': 'interpolate_str'})
            # the model is proved equal to the relation, so a differing implementation result violates the property
            res.oracle_failures.append({'case': c, 'signature': 'interpolation-result', 'what': 'interpolate_str result differs from the substitution relation',
                                        'impl': impl_s, 'via': 'interpolate_str'})


def source_limit():
    """the depth limit the translator finds in interpolate.c; raises when it finds none (callers record a tie error)"""
    import t_interp
    return int(re.search(r':= (\d+)\.', t_interp.generate(common.REPO)['Gen_Interp.v']).group(1))


def load_corpus(limit=5):
    """corpus/C09/*.json: cases WITHOUT an `ignore` key go through robsd-config, cases WITH one through the in-process
    interpolate_str lane.  A file holds one case or a list of cases; a case is either spelled out (env, template) or a
    descriptor {"boundary": kind, "params": {...}} of a boundary class, expanded by boundary_case (deterministic).
    A missing directory is an error, not an empty corpus."""
    import json, glob
    d = os.path.join(common.VERIF, 'corpus', 'C09')
    if not os.path.isdir(d):
        raise common.BuildFailure('corpus directory %s is missing' % d)
    cs = []
    for p in sorted(glob.glob(os.path.join(d, '*.json'))):
        j = json.load(open(p))
        for c in (j if isinstance(j, list) else [j]):
            if 'boundary' in c and 'env' not in c:
                if c['boundary'] not in BUILDERS:
                    raise common.BuildFailure('%s: unknown boundary class %r' % (p, c['boundary']))
                full = boundary_case(c['boundary'], c['params'], limit)
                full['corpus'] = os.path.basename(p)
                if 'ignore' in c:
                    full['ignore'] = c['ignore']
                c = full
            cs.append(c)
    if not cs:
        raise common.BuildFailure('corpus directory %s holds no case' % d)
    return cs


def inproc_copy(c, ignore):
    """the same case for the interpolate_str lane: one string, newlines become blanks as for the generated cases"""
    d = dict(c, ignore=ignore)
    d['template'] = bytes.fromhex(c['template']).replace(b'\n', b' ').hex()
    return d


def run(ctx, n=None):
    res = common.Result()
    res.rule = ('templates over {$,{,},newline,ordinary bytes} with references at start/end of line, malformed references; environments that are chains '
                'of depth 1-6, cycles of length 1-3, diamonds, random, fan-out (every value refers F times to the next, up to three levels, results up to 20 kB; '
                'long values referenced several times); through robsd-config -v k=v - (interpolate_file, 5 s limit) and in-process interpolate_str '
                'with and without IGNORE_LOOKUP_ERRORS; boundary size/shape classes (see "class: ..." in the distribution): names of 1-8193 bytes with '
                'near-miss names defined first (same length differing in one late byte, proper prefix, one byte longer), values / lines of 0-65537 bytes '
                '(one value of 131000), a token at input offsets 1 KiB-64 KiB, 0-257/4096/65537 lines with LF/CRLF/no final newline, NUL bytes, nesting at '
                'limit-1/limit/limit+1, 0-257 variables, 0-257/1024 references on a line, prefix-related / case-differing / separator-holding / '
                'byte-adjacent names; corpus/C09 first (every boundary descriptor also in process); non-trivial = template contains a reference and the environment is non-empty; distinct by content hash')
    try:
        limit = source_limit()
    except Exception as e:
        res.tie_errors.append('depth limit: %s' % e)
        limit = 5
    n = n or ctx.budget(1200, 40000)
    corpus = load_corpus(limit)
    res.count('corpus cases', len(corpus))
    bad = [c for c in corpus if not argv_ok(c)]
    if bad:
        res.tie_errors.append('corpus case cannot be passed through argv: %r' % bad[0].get('kind'))
    cases = [c for c in corpus if 'ignore' not in c] + [gen_case(ctx.rng, limit) for _ in range(n)]
    dropped = len([c for c in cases if not argv_ok(c)])
    res.count('generated cases dropped (value or name not expressible as -v argument)', dropped)
    cases = [c for c in cases if argv_ok(c)]   # a NUL in the template (stdin) cuts that line: modelled by clines
    res.samples = cases[:3]
    impl = None
    for i in range(0, len(cases), 10000):
        impl = evaluate(ctx, cases[i:i + 10000], res, limit)
    scases = [c for c in corpus if 'ignore' in c]
    # every boundary descriptor of the corpus also goes through interpolate_str, IGNORE_LOOKUP_ERRORS alternating
    scases += [inproc_copy(c, i % 2) for i, c in enumerate(c for c in corpus if c.get('boundary') and 'ignore' not in c)]
    for _ in range(n):
        scases.append(inproc_copy(gen_case(ctx.rng, limit, inproc=True), ctx.rng.randint(0, 1)))
    scases = [c for c in scases if argv_ok(c)]
    evaluate_str(ctx, impl, scases, res, limit)
    res.traces_validated = res.evaluations
    if res.extra.get('model_gave_up', 0) * 100 > max(1, res.evaluations):
        res.tie_errors.append('the extracted model gave up on %d of %d cases' % (res.extra['model_gave_up'], res.evaluations))
    res.extra['depth_limit_in_source'] = limit
    return res


def extended_search(ctx, res, proof):
    return run(ctx, n=15000)


def replay(ctx, rep):
    case = rep.get('case') or (rep.get('first_disagreements') or [{}])[0].get('case')
    res = common.Result()
    limit = source_limit()
    if 'ignore' in case:
        impl = ctx.build_impl()
        evaluate_str(ctx, impl, [case], res, limit)
    else:
        evaluate(ctx, [case], res, limit)
    print('case:', case)
    print('disagreements:', res.disagreements)
    print('oracle failures:', res.oracle_failures)
    return 1 if (res.disagreements or res.oracle_failures) else 0
