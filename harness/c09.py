"""C09 - interpolation: model vs robsd-config (interpolate_file) and vs interpolate_str in process."""
import os, re, subprocess, hashlib
from concurrent.futures import ThreadPoolExecutor
import common
from common import hexs

TRANSLATORS = ['t_interp', 't_interpsrc']
TRUSTED = ['translators t_interp.py (regex on interpolate.c for the depth limit) and t_interpsrc.py (token-for-token match of interpolate_inner, '
           'interpolate and the line loop of interpolate_file: characters, order of tests, IGNORE branch, depth bookkeeping, diagnostics)',
           'modelled, not verified: strchr/strlen, the arena and buffer under interpolate.c, read of /dev/stdin, printf("%s")',
           'the lookup callback is a pure function of the name in the model (config lookups with side effects are C08\'s subject)',
           'the C09 oracle IS the model: spec_ok_cmd runs interp_cmd and compares (InterpSpec.v); what makes it a specification is the theorem that the model '
           'computes exactly the substitution relation (C09_model_iff_relation, C09_command_exact, C09_ignore_mode), so "oracle failure" and "disagreement" are '
           'one test reported twice (the oracle entry carries the replay)']

NAMES = [b'a', b'b', b'c', b'd', b'e', b'f', b'g', b'x-y', b'A', b'0', b'a b', b'$', b'{', b'a$', b'${a', b'zz']
KINDS = {'expected \'{\'': 'brace', 'expected \'}\'': 'close', 'empty variable name': 'empty',
         'unknown variable': 'unknown', 'recursion too deep': 'deep'}


def gen_text(rng, names, maxlen=6, nul=True):
    """nul: the three snippets with a NUL byte are for TEMPLATES (stdin cuts the line there, modelled by clines); a value
    travels through argv and cannot hold one, so values are generated without them instead of discarding the case"""
    out = b''
    odd = [b'$', b'${', b'${}', b'$}', b'}', b'{', b'$$', b'${a${b}}', b'$ {a}', b'${a', b'$\n', b'${zz}', b'${zz}${a}']
    if nul:
        odd += [b'x\x00${', b'\x00', b'${a\x00}']
    for _ in range(rng.randint(0, maxlen)):
        k = rng.random()
        if k < 0.45:
            out += b'${' + rng.choice(names) + b'}'
        elif k < 0.50:
            out += rng.choice(odd)
        elif k < 0.57:
            out += b'\n'
        else:
            out += rng.choice([b'x', b'yz', b' ', b'-', b'=', b'\t', b'}', b'{'])
    return out


def gen_env(rng):
    shape = rng.random()
    env = []
    names = [n for n in NAMES if b'=' not in n]
    if shape < 0.35:      # chain of depth k
        k = rng.randint(1, 6)
        chain = [b'a', b'b', b'c', b'd', b'e', b'f', b'g'][:k]
        for i, n in enumerate(chain):
            nxt = chain[i + 1] if i + 1 < k else None
            v = (rng.choice([b'', b'<']) + b'${' + nxt + b'}' + rng.choice([b'', b'>'])) if nxt else rng.choice([b'V', b'', b'v w'])
            env.append((n, v))
    elif shape < 0.55:    # cycle of length 1..3
        k = rng.randint(1, 3)
        cyc = [b'a', b'b', b'c'][:k]
        for i, n in enumerate(cyc):
            env.append((n, rng.choice([b'', b'p']) + b'${' + cyc[(i + 1) % k] + b'}' + rng.choice([b'', b's'])))
        env.append((b'd', b'plain'))
    elif shape < 0.70:    # diamond
        env = [(b'a', b'${b}${c}'), (b'b', b'${d}'), (b'c', b'[${d}]'), (b'd', rng.choice([b'D', b'${e}', b'$']))]
        if rng.random() < 0.5:
            env.append((b'e', b'E'))
    else:
        for n in rng.sample(names, rng.randint(0, 6)):
            env.append((n, gen_text(rng, names, 3, nul=False).replace(b'\n', b' ')))
    if rng.random() < 0.15 and env:   # duplicate definition: first wins
        env.append((env[0][0], b'SECOND'))
    return env


def gen_fanout(rng, budget=20000, hang=False):
    """every value refers F times to the next one, `levels` levels deep (the depth limit allows three value levels below the
    template), the last one is a plain leaf: the result is the leaf F^(levels+1) times.  budget bounds the size of the result
    (the list model is quadratic).  Also the shape of seeded/C12-2: a LONG value referenced several times, so that the result
    outgrows every buffer sized after the template."""
    levels = rng.choice([0, 1, 1, 2, 2, 2])
    names = [b'a', b'b', b'c'][:levels + 1]
    leaf = rng.choice([b'x', b'', b'leaf', b'y' * 40, b'z' * rng.choice([600, 700, 1500, 3000])])
    room = max(1, budget // max(1, len(leaf)))
    fmax = min(1500, max(1, int(room ** (1.0 / (levels + 1)))))
    F = rng.randint(1, fmax) if fmax > 1 and rng.random() < 0.5 else fmax
    sep = rng.choice([b'', b'', b' ', b'-'])
    env = []
    for i, n in enumerate(names):
        nxt = names[i + 1] if i + 1 < len(names) else None
        env.append((n, (sep.join([b'${' + nxt + b'}'] * F)) if nxt else leaf))
    t = sep.join([b'${a}'] * F) + rng.choice([b'', b'\n', b'\ntail ${a}\n' if F * len(leaf) < 3000 else b'\n'])
    return {'env': [[k.hex(), v.hex()] for k, v in env], 'template': t.hex(), 'fanout': [F, levels + 1, len(leaf)]}


def gen_longname(rng):
    """names around the sizes at which a fixed buffer would cut them (NAME_MAX 255, PATH_MAX 4096, BUFSIZ 8192): the long
    name and a proper prefix of it are both defined with different values, or only the prefix is (the long one must then be
    an unknown variable); referenced from the template and from inside a value (seeded/C09-3: a stack buffer of PATH_MAX)"""
    n = rng.choice([254, 255, 256, 1023, 1024, 4094, 4095, 4096, 4097, 8191, 8192, 8200])
    stem = (b'n' + b'abcdefghij' * 900)[:n]
    cut = rng.choice([n - 1, n - 2, 255, 4095, 1023])
    cut = max(1, min(cut, n - 1))
    env = [(stem[:cut], b'short')]
    if rng.random() < 0.6:
        env.append((stem, b'long'))
    env.append((b'v', b'<${' + stem + b'}>'))
    t = rng.choice([b'X=${' + stem[:cut] + b'} Y=${' + stem + b'}\n', b'${v}\n', b'ok\n${' + stem + b'}\n', b'${' + stem + b'}'])
    rng.shuffle(env)
    return {'env': [[k.hex(), v.hex()] for k, v in env], 'template': t.hex(), 'longname': n}


def gen_case(rng):
    if rng.random() < 0.06:
        return gen_fanout(rng)
    if rng.random() < 0.03:
        return gen_longname(rng)
    env = gen_env(rng)
    t = gen_text(rng, [n for n, _ in env] + NAMES[:4] + [b'zz'], 8)
    if rng.random() < 0.5 and t and not t.endswith(b'\n'):
        t += b'\n'
    return {'env': [[k.hex(), v.hex()] for k, v in env], 'template': t.hex()}


def env_toks(case):
    t = [str(len(case['env']))]
    for k, v in case['env']:
        t += [k if k else '-', v if v else '-']
    return t


def classify(stderr):
    m = re.search(rb'/dev/stdin:(\d+): invalid substitution, (.*)', stderr)
    if not m:
        return (0, '-' if not stderr.strip() else 'other')
    msg = m.group(2).decode('latin1')
    for k, v in KINDS.items():
        if msg.startswith(k):
            return (int(m.group(1)), v)
    return (int(m.group(1)), 'other')


TIME_LIMIT = 5          # seconds; "terminates" for the real command (C12 uses the same limit for "promptly")


def run_cmd(impl, conf, case, timeout=TIME_LIMIT):
    args = [os.path.join(impl, 'robsd-config'), '-m', 'canvas', '-C', conf]
    for k, v in case['env']:
        args += ['-v', bytes.fromhex(k) + b'=' + bytes.fromhex(v)]
    args.append('-')
    try:
        r = subprocess.run(args, input=bytes.fromhex(case['template']), stdout=subprocess.PIPE, stderr=subprocess.PIPE, timeout=timeout)
        return (r.returncode, r.stdout, r.stderr)
    except subprocess.TimeoutExpired:
        return (-999, b'', b'timeout')


def argv_ok(case):
    for k, v in case['env']:
        kb, vb = bytes.fromhex(k), bytes.fromhex(v)
        if b'\0' in kb or b'\0' in vb or b'=' in kb or not kb:
            return False
    return True


def evaluate(ctx, cases, res, limit):
    impl = ctx.build_impl()
    drv = ctx.build_driver('ip')
    work = ctx.mkscratch('c09')
    root = os.path.join(work, 'root')
    os.makedirs(root)
    conf = os.path.join(work, 'canvas.conf')
    open(conf, 'w').write('canvas-name "t"\ncanvas-dir "%s"\nstep "s" command { "true" }\n' % root)
    with ThreadPoolExecutor(16) as ex:
        obs = list(ex.map(lambda c: run_cmd(impl, conf, c), cases))
    qs = []
    for c, (rc, out, err) in zip(cases, obs):
        qs.append(' '.join(['cmd', str(limit)] + env_toks(c) + [c['template'] or '-']))
        qs.append(' '.join(['ok', str(limit), str(rc if rc >= 0 else 999), hexs(out)] + env_toks(c) + [c['template'] or '-']))
    ans = common.run_driver(drv, qs)
    for i, (c, (rc, out, err)) in enumerate(zip(cases, obs)):
        res.evaluations += 1
        lno, kind = classify(err)
        impl_s = '%d %s %d %s' % (rc, hexs(out), lno, kind)
        m = ans[2 * i]
        res.count('cmd exit=%d kind=%s' % (rc, kind))
        if m.startswith('EXN'):
            # the extracted model ran out of stack (very large result): no verdict from it; the implementation must still
            # terminate normally.  More than a handful of these would mean the lane compares nothing: counted, and a tie error
            res.count('beyond the extracted model (%s)' % m[4:40])
            res.extra['model_gave_up'] = res.extra.get('model_gave_up', 0) + 1
            if rc not in (0, 1):
                res.oracle_failures.append({'case': c, 'signature': 'abnormal-termination', 'what': 'robsd-config terminated with status %d' % rc, 'via': 'robsd-config'})
            continue
        if 'fanout' in c:
            e = c['fanout'][0] ** c['fanout'][1]
            res.count('fan-out %s expansions, %d level(s), result %s' % ('>= 1000' if e >= 1000 else '< 1000', c['fanout'][1],
                                                                        '> 4 KiB' if len(out) > 4096 else '<= 4 KiB'))
        if b'${' in bytes.fromhex(c['template']) and c['env']:
            res.nontrivial.add(hashlib.sha1(repr(c).encode()).hexdigest())
        if m != impl_s:
            res.disagreements.append({'case': c, 'model': m, 'impl': impl_s, 'via': 'robsd-config'})
        if ans[2 * i + 1] != '1':
            sig = 'interpolation-result'
            what = 'robsd-config - : exit %d / output differ from the substitution relation' % rc
            if rc != 0 and out:
                sig, what = 'partial-output-on-failure', 'exit %d with %d bytes on stdout' % (rc, len(out))
            if rc < 0 or rc > 1:
                sig, what = 'abnormal-termination', 'robsd-config terminated with status %d' % rc
            if rc == -999:
                sig, what = 'hang', 'robsd-config did not terminate within %d s' % TIME_LIMIT
            res.oracle_failures.append({'case': c, 'signature': sig, 'what': what, 'impl': impl_s,
                                        'stderr': err[-300:].decode('latin1'), 'via': 'robsd-config'})
        if rc != 0 and not err.strip():
            res.oracle_failures.append({'case': c, 'signature': 'failure-without-diagnostic',
                                        'what': 'exit %d and empty stderr' % rc, 'impl': impl_s, 'via': 'robsd-config'})
    return impl


def evaluate_str(ctx, impl, cases, res, limit):
    """interpolate_str in process, both flag values."""
    work = ctx.mkscratch('c09h')
    exe = os.path.join(work, 'interp_harness')
    objs = [os.path.join(impl, o) for o in ('interpolate.o', 'arena.o', 'arena-buffer.o', 'buffer.o', 'arithmetic.o', 'log.o')]
    r = common.sh(['cc', '-I' + impl, os.path.join(common.VERIF, 'harness', 'interp_harness.c')] + objs + ['-o', exe])
    if r.returncode != 0:
        raise common.BuildFailure('interp_harness: ' + r.stdout[-1500:])
    lines, qs = [], []
    for c in cases:
        lines.append(' '.join([str(c['ignore'])] + env_toks(c) + [c['template'] or '-']))
        qs.append(' '.join(['str', str(limit), str(c['ignore'])] + env_toks(c) + [c['template'] or '-']))
    p = subprocess.run([exe], input=('\n'.join(lines) + '\n').encode(), stdout=subprocess.PIPE, stderr=subprocess.PIPE, timeout=300)
    outs = p.stdout.decode().split('\n')[:-1]
    errs = re.split(rb'#case \d+\n', p.stderr)[1:]
    ans = common.run_driver(ctx.build_driver('ip'), qs)
    if len(outs) != len(cases):
        res.oracle_failures.append({'case': cases[len(outs)] if len(outs) < len(cases) else None, 'signature': 'abnormal-termination',
                                    'what': 'interpolate_str harness died (status %s) at case %d' % (p.returncode, len(outs)), 'via': 'interpolate_str'})
        return
    if len(errs) != len(cases) or len(ans) != len(cases):
        # the per-case marker lines on stderr / the driver's answers do not line up with the cases: nothing may be dropped silently
        res.tie_errors.append('interpolate_str lane: %d cases, %d stderr sections, %d model answers' % (len(cases), len(errs), len(ans)))
        return
    for c, o, e, m in zip(cases, outs, errs, ans):
        res.evaluations += 1
        k = '-'
        mm = re.search(rb'invalid substitution, (.*)', e)
        if mm:
            msg = mm.group(1).decode('latin1')
            k = next((v for kk, v in KINDS.items() if msg.startswith(kk)), 'other')
        impl_s = o + ' ' + k
        res.count('str ignore=%d kind=%s' % (c['ignore'], k))
        if impl_s != m:
            res.disagreements.append({'case': c, 'model': m, 'impl': impl_s, 'via': 'interpolate_str'})
            # the model is proved equal to the relation, so a differing implementation result violates the property
            res.oracle_failures.append({'case': c, 'signature': 'interpolation-result', 'what': 'interpolate_str result differs from the substitution relation',
                                        'impl': impl_s, 'via': 'interpolate_str'})


def source_limit():
    """the depth limit the translator finds in interpolate.c; raises when it finds none (callers record a tie error)"""
    import t_interp
    return int(re.search(r':= (\d+)\.', t_interp.generate(common.REPO)['Gen_Interp.v']).group(1))


def load_corpus():
    """corpus/C09/*.json: cases WITHOUT an `ignore` key go through robsd-config, cases WITH one through the in-process
    interpolate_str lane.  A missing directory is an error, not an empty corpus."""
    import json, glob
    d = os.path.join(common.VERIF, 'corpus', 'C09')
    if not os.path.isdir(d):
        raise common.BuildFailure('corpus directory %s is missing' % d)
    cs = [json.load(open(p)) for p in sorted(glob.glob(os.path.join(d, '*.json')))]
    if not cs:
        raise common.BuildFailure('corpus directory %s holds no case' % d)
    return cs


def run(ctx, n=None):
    res = common.Result()
    res.rule = ('templates over {$,{,},newline,ordinary bytes} with references at start/end of line, malformed references; environments that are chains '
                'of depth 1-6, cycles of length 1-3, diamonds, random, fan-out (every value refers F times to the next, up to three levels, results up to 20 kB; '
                'long values referenced several times); through robsd-config -v k=v - (interpolate_file, 5 s limit) and in-process interpolate_str '
                'with and without IGNORE_LOOKUP_ERRORS; corpus/C09 first; non-trivial = template contains a reference and the environment is non-empty; distinct by content hash')
    try:
        limit = source_limit()
    except Exception as e:
        res.tie_errors.append('depth limit: %s' % e)
        limit = 5
    n = n or ctx.budget(1200, 40000)
    corpus = load_corpus()
    res.count('corpus cases', len(corpus))
    bad = [c for c in corpus if not argv_ok(c)]
    if bad:
        res.tie_errors.append('corpus case cannot be passed through argv: %r' % bad[0].get('kind'))
    cases = [c for c in corpus if 'ignore' not in c] + [gen_case(ctx.rng) for _ in range(n)]
    dropped = len([c for c in cases if not argv_ok(c)])
    res.count('generated cases dropped (value or name not expressible as -v argument)', dropped)
    cases = [c for c in cases if argv_ok(c)]   # a NUL in the template (stdin) cuts that line: modelled by clines
    res.samples = cases[:3]
    impl = None
    for i in range(0, len(cases), 10000):
        impl = evaluate(ctx, cases[i:i + 10000], res, limit)
    scases = [c for c in corpus if 'ignore' in c]
    for _ in range(n):
        c = gen_case(ctx.rng)
        c['ignore'] = ctx.rng.randint(0, 1)
        c['template'] = bytes.fromhex(c['template']).replace(b'\n', b' ').hex()
        scases.append(c)
    scases = [c for c in scases if argv_ok(c)]
    evaluate_str(ctx, impl, scases, res, limit)
    res.traces_validated = res.evaluations
    if res.extra.get('model_gave_up', 0) * 100 > max(1, res.evaluations):
        res.tie_errors.append('the extracted model gave up on %d of %d cases' % (res.extra['model_gave_up'], res.evaluations))
    res.extra['depth_limit_in_source'] = limit
    return res


def extended_search(ctx, res, proof):
    return run(ctx, n=15000)


def replay(ctx, rep):
    case = rep.get('case') or (rep.get('first_disagreements') or [{}])[0].get('case')
    res = common.Result()
    limit = source_limit()
    if 'ignore' in case:
        impl = ctx.build_impl()
        evaluate_str(ctx, impl, [case], res, limit)
    else:
        evaluate(ctx, [case], res, limit)
    print('case:', case)
    print('disagreements:', res.disagreements)
    print('oracle failures:', res.oracle_failures)
    return 1 if (res.disagreements or res.oracle_failures) else 0
