"""Translator for C19: libks/arena.c -> coq/gen/Gen_Arena.v

What is taken from the source on every run:
  * frame size multiplier           regex on   a->frame_size = <N> * (size_t)page_size;
  * maxalign, sizeof(struct arena_frame), sizeof(struct arena_cleanup), sizeof(void *),
    POISON_SIZE without and with -fsanitize=address, MAX_SOURCE_LOCATIONS
                                    compile-and-print of a program that #includes arena.c
                                    (cc for the normal build, clang -fsanitize=address for the ASan build)
  * shrink_validated              position of the arena_scope_validate call of arena_realloc_fast relative to its
                                    "if (new_size <= old_size) { ... return 1; }" block (the model's switch c_sv)
  * the three expressions the model transcribes literally must still be there
    (rounding in align_address, clipping in arena_push, rewinding in arena_scope_leave);
    the translator raises when one of them no longer matches.
The compile-and-print step trusts the C compiler's sizeof; stated in the trusted base of C19.
"""
import os, re, shutil, subprocess, tempfile

PROBE = r'''
#include "libks/arena.c"
int main(void) {
	printf("maxalign=%zu\n", (size_t)maxalign);
	printf("sizeof_frame=%zu\n", sizeof(struct arena_frame));
	printf("sizeof_cleanup=%zu\n", sizeof(struct arena_cleanup));
	printf("pointer_size=%zu\n", sizeof(void *));
	printf("poison=%zu\n", (size_t)POISON_SIZE);
	printf("max_source_locations=%d\n", (int)MAX_SOURCE_LOCATIONS);
	return 0;
}
'''

PATTERNS = {
    'align_address rounding': r'addr\.u64 = \(addr\.u64 \+ maxalign - 1\) & ~\(maxalign - 1\);',
    'align_address poison gap': r'if \(a->poison_size > 0 && addr\.u64 - old_addr\.u64 < a->poison_size\) \{ '
                                r'/\* Insufficient space for poison bytes is not fatal\. \*/ '
                                r'\(void\)KS_u64_add_overflow\(a->poison_size, addr\.u64, &addr\.u64\); \}',
    'arena_push clipping': r'frame->len = newlen > frame->size \? frame->size : newlen;',
    'arena_scope_leave rewind': r'a->frame->len = s->frame_len <= a->frame->len \? s->frame_len : 0;',
}


def squash(text):
    return re.sub(r'\s+', ' ', text)


def shrink_validated(src):
    """Does arena_realloc_fast call arena_scope_validate on the path that returns a shrunk block?
    (False for the source as it is: 'Always allow existing allocations to shrink' returns first;
    True with findings/C19_outer_shrink.diff.)  Raises when the function no longer has the shape
    the model transcribes: one 'if (new_size <= old_size) { ... return 1; }' block."""
    m = re.search(r'\narena_realloc_fast\(struct arena_scope \*s, char \*ptr, size_t old_size,\s*size_t new_size\)\s*\{(.*?)\n\}',
                  src, re.S)
    if not m:
        raise RuntimeError('t_arena: definition of arena_realloc_fast not found in arena.c')
    body = re.sub(r'/\*.*?\*/', ' ', m.group(1), flags=re.S)
    flat = squash(body)
    ifs = [x.start() for x in re.finditer(r'if \(new_size <= old_size\) \{', flat)]
    if len(ifs) != 1:
        raise RuntimeError('t_arena: arena_realloc_fast no longer has exactly one "if (new_size <= old_size) {" block')
    start = ifs[0]
    end = flat.find('}', start)
    block = flat[start:end]
    if 'return 1;' not in block:
        raise RuntimeError('t_arena: the shrinking block of arena_realloc_fast no longer returns 1')
    call = r'arena_scope_validate\(a, s, new_size\);'
    before = re.search(call, flat[:start]) is not None
    ret = block.find('return 1;')
    inside = re.search(call, block[:ret]) is not None
    return before or inside


def probe(repo, cc, flags):
    d = tempfile.mkdtemp(prefix='t_arena.')
    try:
        open(os.path.join(d, 'p.c'), 'w').write(PROBE)
        cmd = [cc] + flags + ['-w', '-I', repo, os.path.join(d, 'p.c'), os.path.join(repo, 'libks', 'arithmetic.c'),
                              '-o', os.path.join(d, 'p')]
        r = subprocess.run(cmd, stdout=subprocess.PIPE, stderr=subprocess.STDOUT, text=True, timeout=120)
        if r.returncode != 0:
            raise RuntimeError('t_arena: probe does not compile (%s): %s' % (' '.join(cmd[:3]), r.stdout[-800:]))
        env = dict(os.environ)
        env['ASAN_OPTIONS'] = 'detect_leaks=0'
        r = subprocess.run([os.path.join(d, 'p')], stdout=subprocess.PIPE, stderr=subprocess.STDOUT, text=True,
                           timeout=60, env=env)
        if r.returncode != 0:
            raise RuntimeError('t_arena: probe failed: ' + r.stdout[-800:])
        vals = {}
        for line in r.stdout.splitlines():
            m = re.match(r'^([a-z_]+)=(\d+)$', line)
            if m:
                vals[m.group(1)] = int(m.group(2))
        for k in ('maxalign', 'sizeof_frame', 'sizeof_cleanup', 'pointer_size', 'poison', 'max_source_locations'):
            if k not in vals:
                raise RuntimeError('t_arena: probe did not print ' + k)
        return vals
    finally:
        shutil.rmtree(d, ignore_errors=True)


def constants(repo, strict=True):
    src = open(os.path.join(repo, 'libks', 'arena.c')).read()
    flat = squash(src)
    m = re.search(r'a->frame_size = (\d+) \* \(size_t\)page_size;', flat)
    if not m:
        raise RuntimeError('t_arena: frame size assignment "a->frame_size = N * (size_t)page_size;" not found in arena.c')
    mult = int(m.group(1))
    if not re.search(r'static const size_t maxalign = [^;]+;', flat):
        raise RuntimeError('t_arena: definition of maxalign not found in arena.c')
    if not re.search(r'a->poison_size = POISON_SIZE;', flat):
        raise RuntimeError('t_arena: "a->poison_size = POISON_SIZE;" not found in arena.c')
    for name, pat in PATTERNS.items():
        if strict and not re.search(pat, flat):
            raise RuntimeError('t_arena: %s no longer has the transcribed form in arena.c' % name)
    normal = probe(repo, 'cc', [])
    asan = probe(repo, 'clang', ['-fsanitize=address'])
    for k in ('maxalign', 'sizeof_frame', 'sizeof_cleanup', 'pointer_size', 'max_source_locations'):
        if normal[k] != asan[k]:
            raise RuntimeError('t_arena: %s differs between the normal and the ASan build (%d, %d)' % (k, normal[k], asan[k]))
    out = dict(normal)
    out['frame_mult'] = mult
    try:
        out['shrink_validated'] = 1 if shrink_validated(src) else 0
    except RuntimeError:
        if strict:
            raise
        # unknown shape: the correspondence runs against the model of the repaired source (the property's reading);
        # generate() (strict) has already reported the broken tie
        out['shrink_validated'] = 1
    out['poison_normal'] = normal['poison']
    out['poison_asan'] = asan['poison']
    del out['poison']
    return out


def generate(repo):
    c = constants(repo)
    lines = ['(* Gen_Arena.v - generated by harness/t_arena.py from libks/arena.c on every check; do not edit. *)',
             'From Coq Require Import NArith.',
             'Local Open Scope N_scope.',
             '(* a->frame_size = frame_mult * (size_t)page_size *)',
             'Definition frame_mult : N := %d.' % c['frame_mult'],
             '(* static const size_t maxalign (value printed by a program that includes arena.c) *)',
             'Definition maxalign : N := %d.' % c['maxalign'],
             '(* sizeof(void * ) on the build platform *)',
             'Definition pointer_size : N := %d.' % c['pointer_size'],
             'Definition sizeof_frame : N := %d.' % c['sizeof_frame'],
             'Definition sizeof_cleanup : N := %d.' % c['sizeof_cleanup'],
             '(* POISON_SIZE without / with -fsanitize=address *)',
             'Definition poison_normal : N := %d.' % c['poison_normal'],
             'Definition poison_asan : N := %d.' % c['poison_asan'],
             'Definition max_source_locations : N := %d.' % c['max_source_locations'],
             '(* arena_realloc_fast calls arena_scope_validate before returning a shrunk block *)',
             'Definition shrink_validated : bool := %s.' % ('true' if c['shrink_validated'] else 'false'),
             '']
    return {'Gen_Arena.v': '\n'.join(lines)}


if __name__ == '__main__':
    import sys
    print(generate(sys.argv[1] if len(sys.argv) > 1 else '/repo')['Gen_Arena.v'])
