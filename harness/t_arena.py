"""Translator for C19: libks/arena.c -> coq/gen/Gen_Arena.v

What is taken from the source on every run:
  * frame size multiplier           regex on   a->frame_size = <N> * (size_t)page_size;
  * maxalign, sizeof(struct arena_frame), sizeof(struct arena_cleanup), sizeof(void *),
    POISON_SIZE without and with -fsanitize=address, MAX_SOURCE_LOCATIONS
                                    compile-and-print of a program that #includes arena.c
                                    (cc for the normal build, clang -fsanitize=address for the ASan build)
  * shrink_validated, grow_validated
                                    position of the arena_scope_validate call(s) of arena_realloc_fast relative to its
                                    "if (new_size <= old_size) { ... return 1; }" block: shrink_validated (c_sv) = a call
                                    before the block or inside it before the return; grow_validated (c_gv) = a call at
                                    the top level of the function before the block, or between its end and the
                                    "old_addr.s8 = ptr;" of the last-allocated-object test (fixes 4eb1227, 08bdded)
  * arena-backed containers         the realloc call sites of libks/buffer.c (buffer_reserve) and libks/vector.c
                                    (vector_reserve1): old-size and new-size expressions, initial capacity, factor and
                                    overflow guard of the doubling loop; sizeof(struct vector) by compile-and-print of a
                                    program that #includes vector.c; the statements around them, the callbacks of
                                    arena-buffer.c / arena-vector.c (ptr, old, new passed unchanged to arena_realloc)
                                    and the creation paths (buffer_alloc_impl, vector_init_impl, arena_vector_init) are
                                    pinned as text.  ArenaClientDefs.buf_reserve / vec_reserve are defined from these.
  * the three expressions the model transcribes literally must still be there
    (rounding in align_address, clipping in arena_push, rewinding in arena_scope_leave);
    the translator raises when one of them no longer matches.
The compile-and-print step trusts the C compiler's sizeof; stated in the trusted base of C19.
"""
import os, re, shutil, subprocess, tempfile

PROBE = r'''
#include "libks/arena.c"
int main(void) {
	printf("maxalign=%zu\n", (size_t)maxalign);
	printf("sizeof_frame=%zu\n", sizeof(struct arena_frame));
	printf("sizeof_cleanup=%zu\n", sizeof(struct arena_cleanup));
	printf("pointer_size=%zu\n", sizeof(void *));
	printf("poison=%zu\n", (size_t)POISON_SIZE);
	printf("max_source_locations=%d\n", (int)MAX_SOURCE_LOCATIONS);
	return 0;
}
'''

PATTERNS = {
    'align_address rounding': r'addr\.u64 = \(addr\.u64 \+ maxalign - 1\) & ~\(maxalign - 1\);',
    'align_address poison gap': r'if \(a->poison_size > 0 && addr\.u64 - old_addr\.u64 < a->poison_size\) \{ '
                                r'/\* Insufficient space for poison bytes is not fatal\. \*/ '
                                r'\(void\)KS_u64_add_overflow\(a->poison_size, addr\.u64, &addr\.u64\); \}',
    'arena_push clipping': r'frame->len = newlen > frame->size \? frame->size : newlen;',
    'arena_scope_leave rewind': r'a->frame->len = s->frame_len <= a->frame->len \? s->frame_len : 0;',
}


def squash(text):
    return re.sub(r'\s+', ' ', text)


def validate_sites(src):
    """(shrink_validated, grow_validated): where arena_realloc_fast calls arena_scope_validate.
    Historical shapes: none (before 08bdded) -> (False, False); after the shrink block (08bdded) -> (False, True);
    before it (4eb1227) -> (True, True); only inside the shrink block -> (True, False).
    Raises when the function no longer has the shape the model transcribes: one
    'if (new_size <= old_size) { ... return 1; }' block followed by the last-allocated-object test."""
    m = re.search(r'\narena_realloc_fast\(struct arena_scope \*s, char \*ptr, size_t old_size,\s*size_t new_size\)\s*\{(.*?)\n\}',
                  src, re.S)
    if not m:
        raise RuntimeError('t_arena: definition of arena_realloc_fast not found in arena.c')
    body = re.sub(r'/\*.*?\*/', ' ', m.group(1), flags=re.S)
    flat = squash(body)
    ifs = [x.start() for x in re.finditer(r'if \(new_size <= old_size\) \{', flat)]
    if len(ifs) != 1:
        raise RuntimeError('t_arena: arena_realloc_fast no longer has exactly one "if (new_size <= old_size) {" block')
    start = ifs[0]
    end = flat.find('}', start)
    block = flat[start:end]
    if block.count('{') != 1:
        raise RuntimeError('t_arena: the shrinking block of arena_realloc_fast has nested braces')
    if 'return 1;' not in block:
        raise RuntimeError('t_arena: the shrinking block of arena_realloc_fast no longer returns 1')
    anchor = flat.find('old_addr.s8 = ptr;', end)
    if anchor < 0:
        raise RuntimeError('t_arena: "old_addr.s8 = ptr;" (last-allocated-object test) not found after the shrinking block')
    call = r'arena_scope_validate\(a, s, new_size\);'

    def top_level(pos):
        return flat[:pos].count('{') == flat[:pos].count('}')
    before = [x.start() for x in re.finditer(call, flat[:start]) if top_level(x.start())]
    ret = block.find('return 1;')
    inside = re.search(call, block[:ret]) is not None
    between = [x.start() for x in re.finditer(call, flat[end:anchor]) if top_level(end + x.start())]
    others = [x.start() for x in re.finditer(r'arena_scope_validate\(', flat)]
    known = len(before) + (1 if inside else 0) + len(between)
    if len(others) != known:
        raise RuntimeError('t_arena: arena_realloc_fast calls arena_scope_validate at a place the translator does not know')
    return (bool(before) or inside), (bool(before) or bool(between))


def shrink_validated(src):
    return validate_sites(src)[0]


def grow_validated(src):
    return validate_sites(src)[1]


# ---- arena-backed containers: buffer.c / vector.c / arena-buffer.c / arena-vector.c ---------------------------
def func_body(src, name, what):
    m = re.search(r'\n%s\([^)]*\)\s*\{(.*?)\n\}' % re.escape(name), src, re.S)
    if not m:
        raise RuntimeError('t_arena: definition of %s not found in %s' % (name, what))
    return squash(re.sub(r'/\*.*?\*/', ' ', m.group(1), flags=re.S))


def size_expr(text, names, what):
    """a C size expression over the given lvalues, + * ( ) and decimal literals -> Gallina over N; anything else raises"""
    toks = re.findall(r'sizeof\(\*?[a-z]+\)|[A-Za-z_][A-Za-z_0-9]*(?:(?:->|\.)[A-Za-z_][A-Za-z_0-9]*)*|\d+|[-+*/()%]|\S', text)
    out = []
    for t in toks:
        if t in names:
            out.append(names[t])
        elif t in '+*()' or t.isdigit():
            out.append(t)
        else:
            raise RuntimeError('t_arena: %s: token %r in %r is outside the supported size expressions' % (what, t, text))
    return ' '.join(out)


def need(flat, pat, what):
    m = re.search(pat, flat)
    if not m:
        raise RuntimeError('t_arena: %s no longer has the transcribed form' % what)
    return m


VEC_PROBE = r'''
#include <stdio.h>
#include "libks/vector.c"
int main(void) { printf("sizeof_vector=%zu\n", sizeof(struct vector)); return 0; }
'''


def clients(repo):
    rd = lambda f: open(os.path.join(repo, 'libks', f)).read()
    out = {}
    # buffer.c: buffer_reserve
    b = func_body(rd('buffer.c'), 'buffer_reserve', 'buffer.c')
    need(b, r'if \(len > ULONG_MAX - bf->bf_len\) goto overflow; newlen = bf->bf_len \+ len; '
            r'if \(bf->bf_siz > 0 && bf->bf_siz >= newlen\) return 0;', 'buffer_reserve (overflow and room tests)')
    m = need(b, r'newsiz = bf->bf_siz \? bf->bf_siz : (\d+); while \(newsiz < newlen\) \{ '
                r'if \(newsiz > ULONG_MAX / (\d+)\) goto overflow; newsiz \*= (\d+); \}', 'buffer_reserve (doubling loop)')
    out['ar_buf_init_cap'], out['ar_buf_dbl_guard'], out['ar_buf_dbl_factor'] = (int(x) for x in m.groups())
    m = need(b, r'ptr = bf->bf_callbacks\.realloc\(bf->bf_ptr, ([^,]+), ([^,]+), bf->bf_callbacks\.arg\); '
                r'if \(ptr == NULL\) return 1; bf->bf_ptr = ptr; bf->bf_siz = newsiz; return 0;',
             'buffer_reserve (realloc callback call and bookkeeping)')
    out['ar_buf_old_src'], out['ar_buf_new_src'] = m.group(1).strip(), m.group(2).strip()
    out['ar_buf_old'] = size_expr(m.group(1), {'bf->bf_siz': 'siz', 'bf->bf_len': 'len'}, 'buffer.c realloc old size')
    out['ar_buf_new'] = size_expr(m.group(2), {'newsiz': 'newsiz'}, 'buffer.c realloc new size')
    ba = func_body(rd('buffer.c'), 'buffer_alloc_impl', 'buffer.c')
    need(ba, r'bf = callbacks->alloc\(sizeof\(\*bf\), callbacks->arg\); if \(bf == NULL\) return NULL; '
             r'memset\(bf, 0, sizeof\(\*bf\)\); bf->bf_callbacks = \*callbacks; if \(buffer_reserve\(bf, init_size\)\)',
         'buffer_alloc_impl')
    need(func_body(rd('buffer.c'), 'buffer_puts', 'buffer.c'),
         r'if \(str == NULL \|\| len == 0\) return 0; if \(buffer_reserve\(bf, len\)\) return 1; '
         r'memcpy\(&bf->bf_ptr\[bf->bf_len\], str, len\); bf->bf_len \+= len; return 0;', 'buffer_puts')
    # vector.c: vector_reserve1
    vsrc = rd('vector.c')
    v = func_body(vsrc, 'vector_reserve1', 'vector.c')
    need(v, r'if \(vc->p\.len > ULONG_MAX - len\) goto overflow; if \(vc->p\.len \+ len <= vc->vc_siz\) return VECTOR_SUCCESS;',
         'vector_reserve1 (overflow and room tests)')
    m = need(v, r'oldlen = ([^;]+);', 'vector_reserve1 (oldlen)')
    out['ar_vec_old_src'] = m.group(1).strip()
    out['ar_vec_old'] = size_expr(m.group(1), {'sizeof(*vc)': 'hdr', 'vc->p.len': 'len', 'vc->vc_stride': 'stride',
                                               'vc->vc_siz': 'siz'}, 'vector.c oldlen')
    m = need(v, r'newsiz = vc->vc_siz \? vc->vc_siz : (\d+); while \(newsiz < vc->p\.len \+ len\) \{ '
                r'if \(newsiz > ULONG_MAX / (\d+)\) goto overflow; newsiz \*= (\d+); \}', 'vector_reserve1 (doubling loop)')
    out['ar_vec_init_cap'], out['ar_vec_dbl_guard'], out['ar_vec_dbl_factor'] = (int(x) for x in m.groups())
    need(v, r'totlen = newsiz; if \(totlen > ULONG_MAX / vc->vc_stride\) goto overflow; totlen \*= vc->vc_stride; '
            r'if \(totlen > ULONG_MAX - sizeof\(\*vc\)\) goto overflow; totlen \+= sizeof\(\*vc\);',
         'vector_reserve1 (total length)')
    out['ar_vec_new'] = 'newsiz * stride + hdr'
    need(v, r'newvc = vc->vc_callbacks\.realloc\(vc, oldlen, totlen, vc->vc_callbacks\.arg\); '
            r'if \(newvc == NULL\) return VECTOR_ERROR; newvc->vc_siz = newsiz; \*vv = newvc; return VECTOR_REALLOCATED;',
         'vector_reserve1 (realloc callback call and bookkeeping)')
    need(func_body(vsrc, 'vector_init_impl', 'vector.c'),
         r'vc = callbacks->calloc\(1, sizeof\(\*vc\), callbacks->arg\); if \(vc == NULL\) return 1; '
         r'vc->vc_callbacks = \*callbacks; vc->vc_stride = stride; \*vv = &vc\[1\]; return 0;', 'vector_init_impl')
    va = func_body(vsrc, 'vector_alloc', 'vector.c')
    need(va, r'switch \(vector_reserve1\(&vc, 1\)\)', 'vector_alloc (reserve of one element)')
    need(va, r'return vc->p\.len\+\+;', 'vector_alloc (length increment)')
    need(func_body(vsrc, 'vector_reserve', 'vector.c'), r'switch \(vector_reserve1\(&vc, n\)\)', 'vector_reserve')
    # the arena callbacks hand (ptr, old, new) to arena_realloc unchanged
    ab = rd('arena-buffer.c')
    need(func_body(ab, 'callback_realloc', 'arena-buffer.c'),
         r'^ ?struct arena_scope \*s = arg; return arena_realloc\(s, ptr, old_size, new_size\); ?$', 'arena-buffer.c callback_realloc')
    need(func_body(ab, 'callback_alloc', 'arena-buffer.c'),
         r'^ ?struct arena_scope \*s = arg; return arena_malloc\(s, size\); ?$', 'arena-buffer.c callback_alloc')
    if not re.search(r'callback_realloc\(void \*ptr, size_t old_size, size_t new_size, void \*arg\)', squash(ab)):
        raise RuntimeError('t_arena: arena-buffer.c callback_realloc no longer takes (ptr, old_size, new_size, arg)')
    av = rd('arena-vector.c')
    need(func_body(av, 'callback_realloc', 'arena-vector.c'),
         r'^ ?struct arena_scope \*s = arg; return arena_realloc\(s, ptr, oldsize, newsize\); ?$', 'arena-vector.c callback_realloc')
    need(func_body(av, 'callback_calloc', 'arena-vector.c'),
         r'^ ?struct arena_scope \*s = arg; return arena_calloc\(s, nmemb, size\); ?$', 'arena-vector.c callback_calloc')
    if not re.search(r'callback_realloc\(void \*ptr, size_t oldsize, size_t newsize, void \*arg\)', squash(av)):
        raise RuntimeError('t_arena: arena-vector.c callback_realloc no longer takes (ptr, oldsize, newsize, arg)')
    need(func_body(av, 'arena_vector_init', 'arena-vector.c'),
         r'\.realloc = callback_realloc, .*\}\); if \(n > 0\) vector_reserve\(vv, n\);', 'arena_vector_init')
    out['ar_vec_hdr'] = sizeof_vector(repo)
    return out


def sizeof_vector(repo):
    """sizeof(struct vector), printed by a program that #includes libks/vector.c"""
    d = tempfile.mkdtemp(prefix='t_arena.')
    try:
        open(os.path.join(d, 'v.c'), 'w').write(VEC_PROBE)
        cmd = ['cc', '-w', '-I', repo, os.path.join(d, 'v.c'), os.path.join(repo, 'libks', 'arithmetic.c'), '-o', os.path.join(d, 'v')]
        r = subprocess.run(cmd, stdout=subprocess.PIPE, stderr=subprocess.STDOUT, text=True, timeout=120)
        if r.returncode != 0:
            raise RuntimeError('t_arena: vector probe does not compile: ' + r.stdout[-800:])
        r = subprocess.run([os.path.join(d, 'v')], stdout=subprocess.PIPE, stderr=subprocess.STDOUT, text=True, timeout=60)
        m = re.match(r'^sizeof_vector=(\d+)$', r.stdout.strip())
        if r.returncode != 0 or not m:
            raise RuntimeError('t_arena: vector probe failed: ' + r.stdout[-400:])
        return int(m.group(1))
    finally:
        shutil.rmtree(d, ignore_errors=True)


def probe(repo, cc, flags):
    d = tempfile.mkdtemp(prefix='t_arena.')
    try:
        open(os.path.join(d, 'p.c'), 'w').write(PROBE)
        cmd = [cc] + flags + ['-w', '-I', repo, os.path.join(d, 'p.c'), os.path.join(repo, 'libks', 'arithmetic.c'),
                              '-o', os.path.join(d, 'p')]
        r = subprocess.run(cmd, stdout=subprocess.PIPE, stderr=subprocess.STDOUT, text=True, timeout=120)
        if r.returncode != 0:
            raise RuntimeError('t_arena: probe does not compile (%s): %s' % (' '.join(cmd[:3]), r.stdout[-800:]))
        env = dict(os.environ)
        env['ASAN_OPTIONS'] = 'detect_leaks=0'
        r = subprocess.run([os.path.join(d, 'p')], stdout=subprocess.PIPE, stderr=subprocess.STDOUT, text=True,
                           timeout=60, env=env)
        if r.returncode != 0:
            raise RuntimeError('t_arena: probe failed: ' + r.stdout[-800:])
        vals = {}
        for line in r.stdout.splitlines():
            m = re.match(r'^([a-z_]+)=(\d+)$', line)
            if m:
                vals[m.group(1)] = int(m.group(2))
        for k in ('maxalign', 'sizeof_frame', 'sizeof_cleanup', 'pointer_size', 'poison', 'max_source_locations'):
            if k not in vals:
                raise RuntimeError('t_arena: probe did not print ' + k)
        return vals
    finally:
        shutil.rmtree(d, ignore_errors=True)


def constants(repo, strict=True):
    src = open(os.path.join(repo, 'libks', 'arena.c')).read()
    flat = squash(src)
    m = re.search(r'a->frame_size = (\d+) \* \(size_t\)page_size;', flat)
    if not m:
        raise RuntimeError('t_arena: frame size assignment "a->frame_size = N * (size_t)page_size;" not found in arena.c')
    mult = int(m.group(1))
    if not re.search(r'static const size_t maxalign = [^;]+;', flat):
        raise RuntimeError('t_arena: definition of maxalign not found in arena.c')
    if not re.search(r'a->poison_size = POISON_SIZE;', flat):
        raise RuntimeError('t_arena: "a->poison_size = POISON_SIZE;" not found in arena.c')
    for name, pat in PATTERNS.items():
        if strict and not re.search(pat, flat):
            raise RuntimeError('t_arena: %s no longer has the transcribed form in arena.c' % name)
    normal = probe(repo, 'cc', [])
    asan = probe(repo, 'clang', ['-fsanitize=address'])
    for k in ('maxalign', 'sizeof_frame', 'sizeof_cleanup', 'pointer_size', 'max_source_locations'):
        if normal[k] != asan[k]:
            raise RuntimeError('t_arena: %s differs between the normal and the ASan build (%d, %d)' % (k, normal[k], asan[k]))
    out = dict(normal)
    out['frame_mult'] = mult
    try:
        sv, gv = validate_sites(src)
        out['shrink_validated'], out['grow_validated'] = int(sv), int(gv)
    except RuntimeError:
        if strict:
            raise
        # unknown shape: the correspondence runs against the model of the repaired source (the property's reading);
        # generate() (strict) has already reported the broken tie
        out['shrink_validated'], out['grow_validated'] = 1, 1
    out['poison_normal'] = normal['poison']
    out['poison_asan'] = asan['poison']
    del out['poison']
    return out


def nocomment(text):
    return text.replace('(*', '( *').replace('*)', '* )')


def generate(repo):
    c = constants(repo)
    k = clients(repo)
    lines = ['(* Gen_Arena.v - generated by harness/t_arena.py from libks/arena.c on every check; do not edit. *)',
             'From Coq Require Import NArith.',
             'Local Open Scope N_scope.',
             '(* a->frame_size = frame_mult * (size_t)page_size *)',
             'Definition frame_mult : N := %d.' % c['frame_mult'],
             '(* static const size_t maxalign (value printed by a program that includes arena.c) *)',
             'Definition maxalign : N := %d.' % c['maxalign'],
             '(* sizeof(void * ) on the build platform *)',
             'Definition pointer_size : N := %d.' % c['pointer_size'],
             'Definition sizeof_frame : N := %d.' % c['sizeof_frame'],
             'Definition sizeof_cleanup : N := %d.' % c['sizeof_cleanup'],
             '(* POISON_SIZE without / with -fsanitize=address *)',
             'Definition poison_normal : N := %d.' % c['poison_normal'],
             'Definition poison_asan : N := %d.' % c['poison_asan'],
             'Definition max_source_locations : N := %d.' % c['max_source_locations'],
             '(* arena_realloc_fast calls arena_scope_validate before returning a shrunk block *)',
             'Definition shrink_validated : bool := %s.' % ('true' if c['shrink_validated'] else 'false'),
             '(* arena_realloc_fast calls arena_scope_validate before growing a block in place *)',
             'Definition grow_validated : bool := %s.' % ('true' if c['grow_validated'] else 'false'),
             '',
             '(* ---- arena-backed containers: what buffer.c / vector.c pass to their realloc callback, which',
             '   arena-buffer.c / arena-vector.c hand unchanged to arena_realloc(s, ptr, old, new) ---- *)',
             '(* buffer_reserve: newsiz = bf->bf_siz ? bf->bf_siz : CAP; while (newsiz < newlen) { if (newsiz > ULONG_MAX / GUARD) goto overflow; newsiz *= FACTOR; } *)',
             'Definition ar_buf_init_cap : N := %d.' % k['ar_buf_init_cap'],
             'Definition ar_buf_dbl_guard : N := %d.' % k['ar_buf_dbl_guard'],
             'Definition ar_buf_dbl_factor : N := %d.' % k['ar_buf_dbl_factor'],
             '(* bf->bf_callbacks.realloc(bf->bf_ptr, %s, %s, bf->bf_callbacks.arg) *)' % (nocomment(k['ar_buf_old_src']), nocomment(k['ar_buf_new_src'])),
             'Definition ar_buf_old (siz len : N) : N := %s.' % k['ar_buf_old'],
             'Definition ar_buf_new (newsiz : N) : N := %s.' % k['ar_buf_new'],
             '(* sizeof(struct vector), printed by a program that includes vector.c *)',
             'Definition ar_vec_hdr : N := %d.' % k['ar_vec_hdr'],
             'Definition ar_vec_init_cap : N := %d.' % k['ar_vec_init_cap'],
             'Definition ar_vec_dbl_guard : N := %d.' % k['ar_vec_dbl_guard'],
             'Definition ar_vec_dbl_factor : N := %d.' % k['ar_vec_dbl_factor'],
             '(* oldlen = %s *)' % nocomment(k['ar_vec_old_src']),
             'Definition ar_vec_old (hdr siz len stride : N) : N := %s.' % k['ar_vec_old'],
             '(* totlen = newsiz; totlen *= vc->vc_stride; totlen += sizeof( *vc) *)',
             'Definition ar_vec_new (hdr newsiz stride : N) : N := %s.' % k['ar_vec_new'],
             '']
    return {'Gen_Arena.v': '\n'.join(lines)}


if __name__ == '__main__':
    import sys
    print(generate(sys.argv[1] if len(sys.argv) > 1 else '/repo')['Gen_Arena.v'])
