/* ks_map.c - C20: drives libks/map.c in-process (included by ks_harness.c when
 * built with -DKS_WITH_MAP) and prints every observable result, the shape of
 * the hash table after every operation and its full bucket structure at the
 * end.
 *
 *   map <kind> <nops> <op>...        kind s = string keys (MAP(const char, *, int64_t)),
 *                                         i = int keys (MAP(int, , int64_t), key given as 4 bytes, little endian)
 *       ops: ins:<hexkey>:<value>  find:<hexkey>  rm:<hexkey>  itstart  itnext  itdel
 *       results: P:<handle>:<value> | N | U | E:<handle>:<hexkey>:<value>
 *       each followed by @<num_buckets>/<num_items>/<noexpand>/<ineff_expands>/<nonideal_items>/<ideal_chain_maxlen>
 *       or @- when the map has no table (it is empty)
 *       last token: S:<bucket index>=<expand_mult>:<handle>,<handle>...;...   (non-trivial buckets only)
 *
 * A handle is the number of the insert that returned the pointer: pointers
 * returned by insert, find and iterate are translated through a table, so that
 * "find returns the address insert handed out" is visible as equal handles.
 */
#include "libks/map.c"

struct handle {
	const void	*ptr;
	long		 id;
};

static struct handle	*handles;
static size_t		 nhandles, maxhandles;

static void
handle_add(const void *ptr, long id)
{
	if (nhandles == maxhandles) {
		maxhandles = maxhandles ? 2 * maxhandles : 256;
		handles = realloc(handles, maxhandles * sizeof(*handles));
	}
	handles[nhandles].ptr = ptr;
	handles[nhandles].id = id;
	nhandles++;
}

static long
handle_of(const void *ptr)
{
	size_t i;

	for (i = nhandles; i > 0; i--)
		if (handles[i - 1].ptr == ptr)
			return handles[i - 1].id;
	return -1;
}

static void
print_shape(void *mp)
{
	struct map *m = mp;

	if (m->head == NULL) {
		printf("@-");
		return;
	}
	printf("@%u/%u/%u/%u/%u/%u", m->table->num_buckets, m->table->num_items,
	    m->table->noexpand, m->table->ineff_expands, m->table->nonideal_items,
	    m->table->ideal_chain_maxlen);
}

static void
print_structure(void *mp)
{
	struct map *m = mp;
	unsigned int i;

	printf(" S:");
	if (m->head == NULL)
		return;
	for (i = 0; i < m->table->num_buckets; i++) {
		const struct UT_hash_bucket *b = &m->table->buckets[i];
		const struct map_element *el;
		int first = 1;

		if (b->hh_head == NULL && b->expand_mult == 0)
			continue;
		printf("%u=%u:", i, b->expand_mult);
		for (el = b->hh_head; el != NULL; el = el->hh_next) {
			printf("%s%ld", first ? "" : ",", handle_of(element_get_val((struct map_element *)el)));
			first = 0;
		}
		printf(";");
	}
}

/*
 * Keys are looked up and removed through pointers of every alignment (the
 * callers pass names that sit inside parsed lines): copy the key to an address
 * with (address % 8) == (i % 8).
 */
static unsigned char unaligned_area[1 << 16];
static unsigned char *
unaligned_copy(const unsigned char *k, size_t klen, size_t i)
{
	unsigned char *dst = unaligned_area + 8 + (i % 8);

	if (klen + 32 > sizeof(unaligned_area))
		return (unsigned char *)k;
	memcpy(dst, k, klen + 1);
	return dst;
}

static int
key_int(const unsigned char *k, size_t len)
{
	int v = 0;

	memcpy(&v, k, len < sizeof(v) ? len : sizeof(v));
	return v;
}

#define MAP_SEQ(DECL, KEYOF, KEYHEX) do {					\
	DECL m;									\
	MAP_ITERATOR(m) it;							\
	long counter = 0;							\
	size_t i;								\
	memset(&it, 0, sizeof(it));						\
	if (MAP_INIT(m)) { printf("INITFAIL"); break; }				\
	for (i = 0; i < nops; i++) {						\
		const char *op = ops[i];					\
		unsigned char *k = NULL;					\
		unsigned char *kbase = NULL;					\
		size_t klen = 0;						\
		int64_t *val;							\
		if (i > 0) putchar(' ');					\
		if (is(op, "ins")) {						\
			const char *c2;						\
			k = arghex(op, &klen); k[klen] = '\0';			\
			c2 = strrchr(op, ':');					\
			val = MAP_INSERT_VALUE(m, KEYOF(k, klen), (int64_t)strtoll(c2 + 1, NULL, 10)); \
			if (val == NULL) printf("N");				\
			else { handle_add(val, counter); printf("P:%ld:%" PRId64, counter, *val); counter++; } \
		} else if (is(op, "find")) {					\
			kbase = arghex(op, &klen); kbase[klen] = '\0';		\
			k = unaligned_copy(kbase, klen, i);			\
			val = MAP_FIND(m, KEYOF(k, klen));			\
			if (val == NULL) printf("N");				\
			else printf("P:%ld:%" PRId64, handle_of(val), *val);	\
		} else if (is(op, "rm")) {					\
			kbase = arghex(op, &klen); kbase[klen] = '\0';		\
			k = unaligned_copy(kbase, klen, i);			\
			MAP_REMOVE(m, KEYOF(k, klen));				\
			printf("U");						\
		} else if (is(op, "itstart")) {					\
			memset(&it, 0, sizeof(it));				\
			printf("U");						\
		} else if (is(op, "itnext") || is(op, "itdel")) {		\
			if (MAP_ITERATE(m, &it)) {				\
				printf("E:%ld:", handle_of(it.val));		\
				KEYHEX(it.key);					\
				printf(":%" PRId64, *it.val);			\
				if (is(op, "itdel"))				\
					MAP_REMOVE(m, it.key);			\
			} else {						\
				printf("N");					\
			}							\
		} else {							\
			printf("BAD");						\
		}								\
		print_shape(m);							\
		if (kbase != NULL) { free(kbase); k = NULL; }			\
		free(k);							\
	}									\
	print_structure(m);							\
	MAP_FREE(m);								\
} while (0)

#define KEYOF_STR(k, klen) ((const char *)(k))
#define KEYOF_INT(k, klen) key_int((k), (klen))
#define KEYHEX_STR(key) puthex((const unsigned char *)(key), strlen(key))
#define KEYHEX_INT(key) do { int _kv = (key); puthex((const unsigned char *)&_kv, sizeof(_kv)); } while (0)

static void
map_seq(char **toks, size_t ntoks)
{
	char **ops = toks + 2;
	size_t nops = ntoks - 2;

	nhandles = 0;
	if (toks[0][0] == 's')
		MAP_SEQ(MAP(const char, *, int64_t), KEYOF_STR, KEYHEX_STR);
	else
		MAP_SEQ(MAP(int, , int64_t), KEYOF_INT, KEYHEX_INT);
}
