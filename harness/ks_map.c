/* ks_map.c - C20: drives libks/map.c in-process (included by ks_harness.c when
 * built with -DKS_WITH_MAP) and prints every observable result, the shape of
 * the hash table after every operation, the allocator calls map.c made during
 * the operation, its full bucket structure at the end, what MAP_FREE frees and
 * which element blocks are still allocated afterwards.
 *
 *   map <kind> <fails> <nops> <op>...  kind s = string keys (MAP(const char, *, int64_t)),
 *                                          i = int keys (MAP(int, , int64_t), key given as 4 bytes, little endian)
 *                                          l = int64_t keys (MAP(int64_t, , int64_t), key given as 8 bytes): values
 *                                              2^31 / 2^32 apart, beyond 32 bits
 *                                          k = fixed-size keys by value (MAP(struct ks_k16, , int64_t), 16 bytes that
 *                                              may hold NUL bytes anywhere)
 *                                          p = the same 16 bytes behind a pointer (MAP(struct ks_k16, *, int64_t):
 *                                              MAP_KEY_PTR without MAP_KEY_STR)
 *                                          the model sees the key BYTES; short keys are zero-padded to the key size
 *                                      fails = "-" or a comma separated list of calloc indices (0 = the first calloc
 *                                          after MAP_INIT) that return NULL: allocation-failure injection
 *       ops: ins:<hexkey>:<value>  find:<hexkey>  rm:<hexkey>  itstart  itnext  itdel
 *       results: P:<handle>:<value> | N | U | E:<handle>:<hexkey>:<value>
 *       each followed by @<num_buckets>/<num_items>/<noexpand>/<ineff_expands>/<nonideal_items>/<ideal_chain_maxlen>
 *       or @- when the map has no table (it is empty),
 *       then #<allocator calls of the operation>: c:<blk> calloc, x:<blk> calloc that returned NULL, f:<blk> free;
 *       <blk> = E<handle> element | T struct UT_hash_table | B<n> array of n buckets
 *       then: S:<bucket index>=<expand_mult>:<handle>,<handle>...;...   (non-trivial buckets only)
 *             F:<allocator calls of MAP_FREE>   L:<handles of element blocks never freed>
 *
 * A handle is the number of the element allocation (calloc in map_alloc_element)
 * whose block the pointer points into: pointers returned by insert, find and
 * iterate are translated through the block table, so that "find returns the
 * address insert handed out" and "no operation moves an element" are visible
 * as equal handles.  calloc and free are interposed inside map.c only.
 */
#define KS_MAXBLK (1 << 16)
struct ks_blk {
	void	*ptr;
	char	 kind;		/* E T B M */
	long	 n;		/* handle / number of buckets */
	int	 live;
};
static struct ks_blk	 ks_blks[KS_MAXBLK];
static size_t		 ks_nblks;
static long		 ks_nelt;		/* element allocations so far */
static long		 ks_ncalloc;		/* callocs attempted since MAP_INIT */
static long		 ks_fail_at[256];
static size_t		 ks_nfail;
static int		 ks_logging;
static char		 ks_log[1 << 20];	/* MAP_FREE of 8193 elements must fit */
static size_t		 ks_loglen;

static void
ks_logf(const char *tag, char kind, long n)
{
	if (!ks_logging || kind == 'M' || ks_loglen + 64 > sizeof(ks_log))
		return;
	ks_loglen += (size_t)snprintf(ks_log + ks_loglen, sizeof(ks_log) - ks_loglen, "%s%s:%c",
	    ks_loglen ? "," : "", tag, kind);
	if (kind != 'T')
		ks_loglen += (size_t)snprintf(ks_log + ks_loglen, sizeof(ks_log) - ks_loglen, "%ld", n);
}

static void *
ks_calloc(size_t nmemb, size_t size, const char *fn)
{
	char kind;
	long n = 0;
	size_t i;
	void *p;

	if (strcmp(fn, "map_alloc_element") == 0) {
		kind = 'E';
		n = ks_nelt;
	} else if (strcmp(fn, "map_init") == 0) {
		kind = 'M';
	} else if (nmemb == 1) {
		kind = 'T';
	} else {
		kind = 'B';
		n = (long)nmemb;
	}
	if (ks_logging) {
		long idx = ks_ncalloc++;
		for (i = 0; i < ks_nfail; i++) {
			if (ks_fail_at[i] == idx) {
				ks_logf("x", kind, n);
				return NULL;
			}
		}
	}
	p = calloc(nmemb, size);
	if (p == NULL || ks_nblks == KS_MAXBLK)
		abort();
	ks_blks[ks_nblks].ptr = p;
	ks_blks[ks_nblks].kind = kind;
	ks_blks[ks_nblks].n = n;
	ks_blks[ks_nblks].live = 1;
	ks_nblks++;
	if (kind == 'E')
		ks_nelt++;
	ks_logf("c", kind, n);
	return p;
}

static void
ks_free(void *p, const char *fn)
{
	size_t i;

	(void)fn;
	if (p == NULL)
		return;
	for (i = ks_nblks; i > 0; i--) {
		if (ks_blks[i - 1].ptr == p && ks_blks[i - 1].live) {
			ks_blks[i - 1].live = 0;
			ks_logf("f", ks_blks[i - 1].kind, ks_blks[i - 1].n);
			free(p);
			return;
		}
	}
	/* not a block map.c allocated (or freed twice): make it visible */
	if (ks_logging && ks_loglen + 16 < sizeof(ks_log))
		ks_loglen += (size_t)snprintf(ks_log + ks_loglen, sizeof(ks_log) - ks_loglen, "%sf:?", ks_loglen ? "," : "");
}

#define calloc(n, s) ks_calloc((n), (s), __func__)
#define free(p) ks_free((p), __func__)
#include "libks/map.c"
#undef calloc
#undef free

/* the handle of the element block a value pointer points into */
static long
handle_of(const void *val)
{
	const char *el = (const char *)val - sizeof(struct map_element);
	size_t i;

	for (i = ks_nblks; i > 0; i--)
		if (ks_blks[i - 1].kind == 'E' && ks_blks[i - 1].ptr == (const void *)el)
			return ks_blks[i - 1].live ? ks_blks[i - 1].n : -2;
	return -1;
}

static void
print_events(const char *pfx)
{
	ks_log[ks_loglen] = '\0';
	printf("%s%s", pfx, ks_log);
	ks_loglen = 0;
}

static void
print_shape(void *mp)
{
	struct map *m = mp;

	if (m->head == NULL) {
		printf("@-");
		return;
	}
	printf("@%u/%u/%u/%u/%u/%u", m->table->num_buckets, m->table->num_items,
	    m->table->noexpand, m->table->ineff_expands, m->table->nonideal_items,
	    m->table->ideal_chain_maxlen);
}

static void
print_structure(void *mp)
{
	struct map *m = mp;
	unsigned int i;

	printf(" S:");
	if (m->head == NULL)
		return;
	for (i = 0; i < m->table->num_buckets; i++) {
		const struct UT_hash_bucket *b = &m->table->buckets[i];
		const struct map_element *el;
		int first = 1;

		if (b->hh_head == NULL && b->expand_mult == 0)
			continue;
		printf("%u=%u:", i, b->expand_mult);
		for (el = b->hh_head; el != NULL; el = el->hh_next) {
			printf("%s%ld", first ? "" : ",", handle_of(element_get_val((struct map_element *)el)));
			first = 0;
		}
		printf(";");
	}
}

/*
 * Keys are inserted, looked up and removed through pointers of every alignment
 * (the callers pass names that sit inside parsed lines): copy the key to an
 * address with (address % 8) == (i % 8); i = index of the operation.  Keys of
 * up to 128 KiB fit.
 */
static unsigned char unaligned_area[(1 << 17) + 64] __attribute__((aligned(16)));
static unsigned char *
unaligned_copy(const unsigned char *k, size_t klen, size_t i)
{
	unsigned char *dst = unaligned_area + 8 + (i % 8);

	if (klen + 32 > sizeof(unaligned_area))
		return (unsigned char *)k;
	memcpy(dst, k, klen + 1);
	return dst;
}

static int
key_int(const unsigned char *k, size_t len)
{
	int v = 0;

	memcpy(&v, k, len < sizeof(v) ? len : sizeof(v));
	return v;
}

static int64_t
key_i64(const unsigned char *k, size_t len)
{
	int64_t v = 0;

	memcpy(&v, k, len < sizeof(v) ? len : sizeof(v));
	return v;
}

struct ks_k16 {
	unsigned char	b[16];
};

static struct ks_k16
key_k16(const unsigned char *k, size_t len)
{
	struct ks_k16 v;

	memset(&v, 0, sizeof(v));
	memcpy(&v, k, len < sizeof(v) ? len : sizeof(v));
	return v;
}

/* pointer keys: the 16 bytes stay where the (unaligned) copy put them */
static struct ks_k16 *
key_p16(unsigned char *k, size_t len)
{
	if (len < sizeof(struct ks_k16))
		memset(k + len, 0, sizeof(struct ks_k16) - len);
	return (struct ks_k16 *)(void *)k;
}

#define MAP_SEQ(DECL, KEYOF, KEYHEX) do {					\
	DECL m;									\
	MAP_ITERATOR(m) it;							\
	size_t i;								\
	memset(&it, 0, sizeof(it));						\
	ks_logging = 0;								\
	if (MAP_INIT(m)) { printf("INITFAIL"); break; }				\
	ks_logging = 1; ks_ncalloc = 0; ks_loglen = 0;				\
	for (i = 0; i < nops; i++) {						\
		const char *op = ops[i];					\
		unsigned char *k = NULL;					\
		unsigned char *kbase = NULL;					\
		size_t klen = 0;						\
		int64_t *val;							\
		if (i > 0) putchar(' ');					\
		if (is(op, "ins")) {						\
			const char *c2;						\
			kbase = arghex(op, &klen); kbase[klen] = '\0';		\
			k = unaligned_copy(kbase, klen, i + 3);			\
			c2 = strrchr(op, ':');					\
			val = MAP_INSERT_VALUE(m, KEYOF(k, klen), (int64_t)strtoll(c2 + 1, NULL, 10)); \
			if (val == NULL) printf("N");				\
			else printf("P:%ld:%" PRId64, handle_of(val), *val);	\
		} else if (is(op, "find")) {					\
			kbase = arghex(op, &klen); kbase[klen] = '\0';		\
			k = unaligned_copy(kbase, klen, i);			\
			val = MAP_FIND(m, KEYOF(k, klen));			\
			if (val == NULL) printf("N");				\
			else printf("P:%ld:%" PRId64, handle_of(val), *val);	\
		} else if (is(op, "rm")) {					\
			kbase = arghex(op, &klen); kbase[klen] = '\0';		\
			k = unaligned_copy(kbase, klen, i);			\
			MAP_REMOVE(m, KEYOF(k, klen));				\
			printf("U");						\
		} else if (is(op, "itstart")) {					\
			memset(&it, 0, sizeof(it));				\
			printf("U");						\
		} else if (is(op, "itnext") || is(op, "itdel")) {		\
			if (MAP_ITERATE(m, &it)) {				\
				printf("E:%ld:", handle_of(it.val));		\
				KEYHEX(it.key);					\
				printf(":%" PRId64, *it.val);			\
				if (is(op, "itdel"))				\
					MAP_REMOVE(m, it.key);			\
			} else {						\
				printf("N");					\
			}							\
		} else {							\
			printf("BAD");						\
		}								\
		print_shape(m);							\
		print_events("#");						\
		if (kbase != NULL) { free(kbase); k = NULL; }			\
		free(k);							\
	}									\
	print_structure(m);							\
	MAP_FREE(m);								\
	print_events(" F:");							\
	ks_logging = 0;								\
	print_leaks();								\
} while (0)

#define KEYOF_STR(k, klen) ((const char *)(k))
#define KEYOF_INT(k, klen) key_int((k), (klen))
#define KEYHEX_STR(key) puthex((const unsigned char *)(key), strlen(key))
#define KEYHEX_INT(key) do { int _kv = (key); puthex((const unsigned char *)&_kv, sizeof(_kv)); } while (0)
#define KEYOF_I64(k, klen) key_i64((k), (klen))
#define KEYHEX_I64(key) do { int64_t _kv = (key); puthex((const unsigned char *)&_kv, sizeof(_kv)); } while (0)
#define KEYOF_K16(k, klen) key_k16((k), (klen))
#define KEYHEX_K16(key) do { struct ks_k16 _kv = (key); puthex(_kv.b, sizeof(_kv.b)); } while (0)
#define KEYOF_P16(k, klen) key_p16((k), (klen))
#define KEYHEX_P16(key) puthex((key)->b, sizeof((key)->b))

/* element blocks still allocated after MAP_FREE: leaked by map.c; released here */
static void
print_leaks(void)
{
	size_t i;
	int first = 1;

	printf(" L:");
	for (i = 0; i < ks_nblks; i++) {
		if (ks_blks[i].live && ks_blks[i].kind != 'M') {
			printf("%s%c%ld", first ? "" : ",", ks_blks[i].kind, ks_blks[i].n);
			first = 0;
		}
		if (ks_blks[i].live) {
			free(ks_blks[i].ptr);
			ks_blks[i].live = 0;
		}
	}
}

static void
map_seq(char **toks, size_t ntoks)
{
	char **ops = toks + 3;
	size_t nops = ntoks - 3;
	const char *f = toks[1];

	ks_nblks = 0;
	ks_nelt = 0;
	ks_nfail = 0;
	while (*f != '\0' && *f != '-' && ks_nfail < sizeof(ks_fail_at) / sizeof(ks_fail_at[0])) {
		char *end;
		ks_fail_at[ks_nfail++] = strtol(f, &end, 10);
		f = *end == ',' ? end + 1 : end;
	}
	if (toks[0][0] == 's')
		MAP_SEQ(MAP(const char, *, int64_t), KEYOF_STR, KEYHEX_STR);
	else if (toks[0][0] == 'l')
		MAP_SEQ(MAP(int64_t, , int64_t), KEYOF_I64, KEYHEX_I64);
	else if (toks[0][0] == 'k')
		MAP_SEQ(MAP(struct ks_k16, , int64_t), KEYOF_K16, KEYHEX_K16);
	else if (toks[0][0] == 'p')
		MAP_SEQ(MAP(struct ks_k16, *, int64_t), KEYOF_P16, KEYHEX_P16);
	else
		MAP_SEQ(MAP(int, , int64_t), KEYOF_INT, KEYHEX_INT);
}
