/*
 * C14 leaf harness: includes regress-html.c of the implementation under test
 * (-I <impl>) to reach its static leaf functions and prints what they return
 * on a grid; harness/c14.py compares the lines with the extracted model.
 *
 *   html_leaf rate <maxtotal>      -> "r <total> <fail> <text>" for 0 <= fail <= total <= maxtotal
 *                                      plus a few large totals
 *   html_leaf delta                -> "d <a> <b> <N|F|S>" on a boundary grid
 *   html_leaf status               -> "s <index> <name> <failure>" for every enum value
 *   html_leaf duration             -> "u <seconds> <text>"
 *   html_leaf cmp                  -> "c inv|run <ta> <tb> <sign>", "c suite <fa> <fb> <na> <nb> <sign>"
 */
#include "regress-html.c"

#include <stdlib.h>

static int
sign(int x)
{
	return x < 0 ? -1 : x > 0 ? 1 : 0;
}

int
main(int argc, char *argv[])
{
	struct arena *a = arena_alloc();

	if (argc < 2)
		return 2;
	if (strcmp(argv[1], "rate") == 0) {
		int max = argc > 2 ? atoi(argv[2]) : 100;
		/* 100, 200, 1000: 99/100, 199/200, 999/1000 lie above the quick grid; 65536: n/65536 (the end-to-end lane
		 * stops at 1000 suites, the list model is quadratic in them); 21474836 / 21474837: (total - fail) * 100
		 * crosses INT_MAX between them when it is computed in int */
		int big[] = { 100, 200, 1000, 4096, 65535, 65536, 99999, 1000000, 16777216, 16777217, 21474836, 21474837,
		    33554433, 2147483647 };
		int t, f;
		size_t k;

		for (t = 0; t <= max; t++) {
			for (f = 0; f <= t; f++) {
				struct regress_invocation ri = { .total = t, .fail = f };

				arena_scope(a, s);
				printf("r %d %d %s\n", t, f, render_rate(&ri, &s));
			}
		}
		for (k = 0; k < sizeof(big) / sizeof(big[0]); k++) {
			int fs[] = { 0, 1, 2, big[k] / 100, big[k] / 100 + 1, big[k] / 3, big[k] / 3 + 1, big[k] / 2,
			    big[k] - big[k] / 100, big[k] - 2, big[k] - 1, big[k] };
			size_t j;

			for (j = 0; j < sizeof(fs) / sizeof(fs[0]); j++) {
				struct regress_invocation ri = { .total = big[k], .fail = fs[j] };

				arena_scope(a, s);
				printf("r %d %d %s\n", big[k], fs[j], render_rate(&ri, &s));
			}
		}
	} else if (strcmp(argv[1], "delta") == 0) {
		int64_t v[] = { -100000, -1201, -601, -600, -599, -1, 0, 1, 599, 600, 601, 1199, 1200, 1201, 3600, 100000, 86400 };
		size_t i, j, n = sizeof(v) / sizeof(v[0]);

		for (i = 0; i < n; i++) {
			for (j = 0; j < n; j++) {
				enum duration_delta d = duration_delta(v[i], v[j]);

				printf("d %lld %lld %s\n", (long long)v[i], (long long)v[j],
				    d == NONE ? "N" : d == FASTER ? "F" : "S");
			}
		}
		{
			/* non-negative only (a - b cannot overflow): 2^31 and 2^32 apart, 600 / 601 beyond */
			const int64_t p31 = 2147483648ll, p32 = 4294967296ll, mx = 9223372036854775807ll;
			int64_t w[] = { 0, 5, 600, 601, 605, 606, p31 - 1, p31, p31 + 5, p31 + 600, p31 + 601, p31 + 605,
			    p31 + 606, p32 - 1, p32, p32 + 5, p32 + 600, p32 + 601, p32 + 605, p32 + 606, 2 * p32, 2 * p32 + 5,
			    mx - 601, mx - 600, mx - 1, mx };
			size_t m = sizeof(w) / sizeof(w[0]);

			for (i = 0; i < m; i++) {
				for (j = 0; j < m; j++) {
					enum duration_delta d = duration_delta(w[i], w[j]);

					printf("d %lld %lld %s\n", (long long)w[i], (long long)w[j],
					    d == NONE ? "N" : d == FASTER ? "F" : "S");
				}
			}
		}
	} else if (strcmp(argv[1], "status") == 0) {
		int i;

		for (i = 0; i < 8; i++) {
			const char *str = run_status_str((enum run_status)i);

			if (strcmp(str, "N/A") == 0)
				break;
			printf("s %d %s %d\n", i, str, is_run_status_failure((enum run_status)i));
		}
	} else if (strcmp(argv[1], "duration") == 0) {
		int64_t v[] = { 0, 1, 59, 60, 61, 3599, 3600, 3601, 3660, 86399, 86400, 360000, -1, -60, -3600, -3661,
		    7730941132800ll, 7730941136459ll, 9223372036854775807ll,
		    /* 2^31, 2^32 seconds; 3600 * 2^31 -+ 1 (hours reach INT_MAX + 1), 3600 * 2^32 (hours wrap to 0 in int),
		     * 60 * 2^32 */
		    2147483647ll, 2147483648ll, 4294967295ll, 4294967296ll, 4294967296ll + 3661, 7730941132799ll,
		    7730941132800ll + 60, 15461882265600ll, 15461882265600ll + 3599, 257698037760ll };
		size_t i;

		for (i = 0; i < sizeof(v) / sizeof(v[0]); i++) {
			struct regress_invocation ri = { .duration = { .seconds = v[i], .delta = NONE } };

			arena_scope(a, s);
			printf("u %lld %s\n", (long long)v[i], render_duration(&ri, &s));
		}
	} else if (strcmp(argv[1], "cmp") == 0) {
		/* 2^31 and 2^32 apart (equal, or in the other order, once narrowed to 32 bits), the ends of int64_t */
		int64_t t[] = { -5, 0, 1, 2, 1000000000000ll, 2147483647ll, 2147483648ll, 2147483649ll, 4294967295ll,
		    4294967296ll, 4294967297ll, 4294967298ll, 8589934593ll, -2147483648ll, -4294967295ll,
		    9223372036854775807ll, (-9223372036854775807ll - 1) };
		size_t nt = sizeof(t) / sizeof(t[0]);
		/* prefixes of each other, case, byte order ('-' < '.' < '/' < '0', 'Z' < 'a', 0x7f < 0x80 as unsigned
		 * char), and two pairs that agree in their first 255 / 256 bytes */
		static char l255a[300], l255b[300], l256a[300], l256b[300];
		const char *names[] = { "a", "a/b", "a/c", "b", "../a", "", "a/b/c", "\xc3\xa9", "A",
		    "a/b-c", "a-b/c", "a/b.c", "a/b0", "a/b ", "a/", "A/b", "a/B", "Z/z", "a/\x7f", "a/\x80", "a/\xff",
		    "../", "..", l255a, l255b, l256a, l256b };
		size_t nn = sizeof(names) / sizeof(names[0]);
		int fails[] = { 0, 1, 2 };
		size_t i, j, k, l;

		memset(l255a, 'n', 256); memset(l255b, 'n', 256); l255a[1] = l255b[1] = '/';
		l255a[255] = 'x'; l255b[255] = 'y';
		memset(l256a, 'n', 257); memset(l256b, 'n', 257); l256a[1] = l256b[1] = '/';
		l256a[256] = 'x'; l256b[256] = 'y';

		for (i = 0; i < nt; i++) {
			for (j = 0; j < nt; j++) {
				struct regress_invocation x = { .time = t[i] }, y = { .time = t[j] };
				struct run rx = { .time = t[i] }, ry = { .time = t[j] };

				printf("c inv %lld %lld %d\n", (long long)t[i], (long long)t[j],
				    sign(regress_invocation_cmp(&x, &y)));
				printf("c run %lld %lld %d\n", (long long)t[i], (long long)t[j],
				    sign(run_cmp(&rx, &ry)));
			}
		}
		for (i = 0; i < 3; i++) {
			for (j = 0; j < 3; j++) {
				for (k = 0; k < nn; k++) {
					for (l = 0; l < nn; l++) {
						struct suite x = { .name = names[k], .fail = fails[i] };
						struct suite y = { .name = names[l], .fail = fails[j] };
						struct suite *px = &x, *py = &y;
						size_t m;

						printf("c suite %d %d ", fails[i], fails[j]);
						for (m = 0; names[k][m]; m++)
							printf("%02x", (unsigned char)names[k][m]);
						printf("- ");
						for (m = 0; names[l][m]; m++)
							printf("%02x", (unsigned char)names[l][m]);
						printf("- %d\n", sign(suite_cmp(&px, &py)));
					}
				}
			}
		}
	} else {
		return 2;
	}
	arena_free(a);
	return 0;
}
