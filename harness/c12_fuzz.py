"""C12, coverage-guided lane: libFuzzer (clang 14, -fsanitize=fuzzer,address,undefined) on a scratch copy of the repository.

Targets (name: binary, what it reaches)
  config-<mode>  the repository's fuzz-config.c (FUZZER_LLVM entry of libks/fuzzer.h, built by the repository's own `make fuzz` rule),
                 run once per mode with --mode=<mode>: config_alloc + config_parse
  step           the repository's fuzz-step.c: steps_parse
  stepread       harness/c12_fuzz_stepread.c: robsd-step -R (steps_parse, row selection, interpolate_file + step_interpolate_lookup)
  interp         harness/c12_fuzz_interp.c: interpolate_str / interpolate_buffer / interpolate_file with a variable table from the input
  regresslog     harness/c12_fuzz_regresslog.c: regress_log_parse / _peek / _trim
  conf           harness/c12_fuzz_conf.c: config_parse AND what robsd-config -, robsd-step -L, robsd-hook, robsd-ls do behind it, five modes
  report         harness/c12_fuzz_report.c: report_generate on a build directory (inside the scratch directory) whose step.csv, log,
                 comment and tags are the input, five modes
Every target: seed corpus written from the grammar-derived seeds of c12.py / c09.py / c13.py / conf_gen.py (and, unless
C12_FUZZ_SEEDS=grammar, the stored cases of corpus/C12 and corpus/C09), a dictionary generated from the sources of the scratch copy,
-timeout=5 (THE time limit of the property), -rss_limit_mb=2048, -seed derived from VERIF_SEED, -max_total_time per tier.
An artefact (crash-, timeout-, oom-, leak-) is an oracle failure with signature fuzz-<target>-<kind>; the bytes are stored in the
replay case.  A timeout / out-of-memory artefact whose input is a reference fan-out (cost computed by fanout_cost below from the
input alone) is the recorded finding interpolation-fanout-not-prompt."""
import glob, json, os, re, shutil, subprocess, time, zlib
from concurrent.futures import ThreadPoolExecutor
import common

TIME_LIMIT = 5
RSS_LIMIT_MB = 2048
SEP = b'\x1e\x1e'
MODES = ['robsd', 'robsd-cross', 'robsd-ports', 'robsd-regress', 'canvas']
FANOUT_SIG = 'interpolation-fanout-not-prompt'
# cost (variable look-ups + bytes written, see fanout_cost) from which a timeout / out-of-memory artefact is the recorded fan-out
# finding.  Measured on the instrumented build, one idle core: interp F=120 on three levels = cost 1.04 * 10^7 in 5.5 s (1.9 * 10^6 per
# second), conf F=120 = 1.39 * 10^7 in 4.5 s, stepread F=120 = 3.5 * 10^6 in 3.3 s (1.05 * 10^6 per second): the time limit is reached
# at a cost of 5 * 10^6 .. 10^7.  5 * 10^5 leaves a factor of 10-20 for a loaded machine; below it a timeout is an unexplained hang.
FUZZ_FANOUT_MIN = 5 * 10 ** 5
SAN_FLAGS = '-fsanitize=fuzzer-no-link,address,undefined -fno-sanitize-recover=all -g -O1 -DFUZZER_LLVM'
LINK_FLAGS = '-fsanitize=fuzzer,address,undefined'
HERE = os.path.join(common.VERIF, 'harness')

# name, family (signature), binary, extra args, dictionary, -max_len, wave (thorough tier: targets of one wave run together)
TARGETS = [dict(name='config-' + m, family='config', bin='fuzz-config', args=['--mode=' + m], dic='conf', max_len=4096, mode=m, wave=1) for m in MODES] + [
    dict(name='step', family='step', bin='fuzz-step', args=[], dic='step', max_len=4096, wave=1),
    dict(name='stepread', family='stepread', bin='c12_fuzz_stepread', args=[], dic='step', max_len=8192, wave=0),
    dict(name='interp', family='interp', bin='c12_fuzz_interp', args=[], dic='interp', max_len=8192, wave=0),
    dict(name='regresslog', family='regresslog', bin='c12_fuzz_regresslog', args=[], dic='regresslog', max_len=8192, wave=0),
    dict(name='conf', family='conf', bin='c12_fuzz_conf', args=[], dic='conf', max_len=8192, wave=0),
    dict(name='report', family='report', bin='c12_fuzz_report', args=[], dic='report', max_len=8192, wave=0),
]
# own targets: the helper of the repository's Makefile whose object list they are linked with (minus that helper's main file)
OWN = {'c12_fuzz_stepread': ('fuzz-step', ['fuzz-step.c', 'tmp.c'], False),
       'c12_fuzz_interp': ('fuzz-step', ['fuzz-step.c', 'tmp.c'], False),
       'c12_fuzz_regresslog': ('robsd-regress-log', ['robsd-regress-log.c'], False),
       'c12_fuzz_conf': ('robsd-config', ['robsd-config.c'], True),
       'c12_fuzz_report': ('robsd-report', ['robsd-report.c'], True)}


def target(name):
    for t in TARGETS:
        if t['name'] == name:
            return t
    raise KeyError(name)


# ---- build ------------------------------------------------------------------------------------------------------------------
def makefile_srcs(impl, prog):
    """the source list SRCS_<prog> of the repository's Makefile, ${COMPATS} / ${SRCS_config} expanded"""
    text = open(os.path.join(impl, 'Makefile')).read()
    var = {}
    for m in re.finditer(r'^([A-Za-z_][A-Za-z0-9_.-]*)\+?=[ \t]*(.*)$', text, re.M):
        var.setdefault(m.group(1), []).extend(m.group(2).split())
    out = []

    def expand(words, depth=0):
        for w in words:
            m = re.fullmatch(r'\$\{([A-Za-z0-9_.-]+)\}', w)
            if m and depth < 5:
                expand(var.get(m.group(1), []), depth + 1)
            elif w.endswith('.c'):
                out.append(w)
    expand(var.get('SRCS_' + prog, []))
    if not out:
        raise common.BuildFailure('fuzz lane: the Makefile of the repository defines no SRCS_%s' % prog)
    return out


def build(ctx, bins=None):
    """scratch copy of the working tree built with coverage instrumentation + ASan + UBSan (bin/build-impl), then the
    repository's own fuzz rule (make fuzz, FUZZER_LLVM entry point), then the targets of harness/c12_fuzz_*.c linked with the
    objects of that build.  Nothing is built inside the repository."""
    impl = ctx.build_impl(SAN_FLAGS, cc='clang', ldflags='-fsanitize=address,undefined')
    cflags = '-Wno-error -MD -MP -DROBSD_VERIF ' + SAN_FLAGS
    for shim in ('c12_fuzz_glob', 'c12_fuzz_tmpfd'):
        r = common.sh(['clang'] + cflags.replace('-MD -MP', '').split() + ['-c', os.path.join(HERE, shim + '.c'), '-o', os.path.join(impl, shim + '.o')])
        if r.returncode != 0:
            raise common.BuildFailure('fuzz lane: %s.c does not compile:\n%s' % (shim, r.stdout[-1500:]))
    want = set(bins) if bins else None
    if want is None or want & {'fuzz-config', 'fuzz-step'}:
        r = common.sh(['make', '-j16', 'fuzz', 'CC=clang', 'CFLAGS=' + cflags, 'LDFLAGS=c12_fuzz_glob.o c12_fuzz_tmpfd.o %s -ldl' % LINK_FLAGS], cwd=impl)
        if r.returncode != 0 or not all(os.path.exists(os.path.join(impl, b)) for b in ('fuzz-config', 'fuzz-step')):
            raise common.BuildFailure('fuzz lane: `make fuzz` of the repository fails with libFuzzer flags:\n' + r.stdout[-1500:])

    def one(item):
        name, (prog, drop, withglob) = item
        objs = [os.path.join(impl, os.path.basename(s)[:-2] + '.o') for s in makefile_srcs(impl, prog) if os.path.basename(s) not in drop]
        missing = [o for o in objs if not os.path.exists(o)]
        if missing:
            return name, 'objects missing from the scratch build: %s' % ' '.join(os.path.basename(o) for o in missing)
        cmd = (['clang'] + cflags.replace('-MD -MP', '').split() + ['-I' + impl, '-I' + HERE, os.path.join(HERE, name + '.c')] + objs
               + ([os.path.join(impl, 'c12_fuzz_glob.o'), '-ldl'] if withglob else []) + LINK_FLAGS.split() + ['-o', os.path.join(impl, name)])
        r = common.sh(cmd)
        return name, (None if r.returncode == 0 else r.stdout[-1500:])
    items = [(k, v) for k, v in OWN.items() if want is None or k in want]
    with ThreadPoolExecutor(8) as ex:
        for name, err in ex.map(one, items):
            if err:
                raise common.BuildFailure('fuzz lane: %s does not build:\n%s' % (name, err))
    return impl


# ---- dictionaries -------------------------------------------------------------------------------------------------------------
BOUNDARY_INTS = [b'0', b'1', b'-1', b'2147483647', b'2147483648', b'2147483649', b'4294967295', b'4294967296', b'9223372036854775807',
                 b'9223372036854775808', b'-9223372036854775808', b'-9223372036854775809', b'99999999999999999999999']


def dict_words(impl):
    """the words of the grammars, read from the sources of the scratch copy"""
    rd = lambda f: open(os.path.join(impl, f), errors='replace').read()
    words = {}
    conf = set()
    for m in re.finditer(r'OP\(\s*[A-Z_0-9]+,\s*"([^"]+)"', rd('conf-token.h')):
        conf.add(m.group(1))
    names = set()
    for f in sorted(glob.glob(os.path.join(impl, 'conf*.c'))):
        for m in re.finditer(r'\{\s*"([A-Za-z0-9*._-]+)",\s*(?:STRING|INTEGER|LIST|DIRECTORY|BOOLEAN)\b', open(f, errors='replace').read()):
            names.add(m.group(1))
    if len(conf) < 10 or len(names) < 30:
        raise common.BuildFailure('fuzz lane: the keyword tables (conf-token.h, conf*.c grammars) are not found: %d keywords, %d variables' % (len(conf), len(names)))
    fields = re.findall(r'^\t\{ "([a-z]+)",\t(?:INTEGER|STRING),', rd('step.c'), re.M)
    if len(fields) < 9:
        raise common.BuildFailure('fuzz lane: the field table of step.c is not found')
    rl = set(re.findall(r'"([A-Z_=>]{4,})"', rd('regress-log.c')))
    if len(rl) < 6:
        raise common.BuildFailure('fuzz lane: the keywords of regress-log.c are not found')
    punct = ['${', '}', '$', '"', '{', '\n', '#', '\\', SEP.decode('latin1')]
    words['conf'] = sorted(conf) + sorted(names) + ['${%s}' % n for n in sorted(names)] + punct + ['yes', 'no', ' "', '" ', '{ "', '" }', '"\n',
                     'regress-x-env', '${regress-x-targets}', '${rdomain}', '${step-name}', '${target}', '${x}'] + [w.decode() for w in BOUNDARY_INTS]
    words['step'] = fields + ['${%s}' % f for f in fields] + [',', '\n', ',,', '"', '${', '}', SEP.decode('latin1'), ','.join(fields) + '\n'] + [w.decode() for w in BOUNDARY_INTS]
    words['interp'] = ['${', '}', '$', '${a}', '${b}', '${c}', 'a=', 'b=', 'c=', '=', '\n', SEP.decode('latin1'), SEP.decode('latin1') + 'a=${b}', '${}', '${a${b}}']
    words['regresslog'] = sorted(rl) + ['==== ', ' ====', '===> ', '+ ', '\n', '\r\n', ' ', '==== t ====\n', '*** Error 1']
    words['report'] = words['step'] + sorted(rl) + ['==== ', ' ====', '===> ', '+ ', 'end', 'env', 'cvs', 'kernel', 'patch', 'dmesg', '001-env.log', '.log', 'Subject: ']
    return words


def write_dict(path, words):
    seen, lines = set(), []
    for w in words:
        b = w.encode('latin1') if isinstance(w, str) else w
        if not b or b in seen:
            continue
        seen.add(b)
        lines.append('"' + ''.join(chr(c) if 32 <= c < 127 and c not in (34, 92) else '\\x%02x' % c for c in b) + '"')
    open(path, 'w').write('\n'.join(lines) + '\n')
    return len(lines)


# ---- fan-out predicate ------------------------------------------------------------------------------------------------------------
def fanout_cost(templates, env, cap=10 ** 15):
    """interpolate.c on paper: cost of expanding each template under env (dict name -> value), depth limit 5 as in interpolate()
    (template = depth 1, a value referred to at depth 4 may not refer further).  cost = number of variable look-ups + bytes
    written, computed by memoisation over (name, depth) without expanding anything.  A malformed reference ends the expansion
    of that string (the implementation stops with an error there), an unknown name costs one look-up."""
    memo = {}

    def cost(s, depth):
        if depth >= 5:
            return 0
        s = s.split(b'\0')[0]
        total, i = 0, 0
        while True:
            p = s.find(b'$', i)
            if p < 0:
                return min(cap, total + len(s) - i)
            total += p - i
            if s[p + 1:p + 2] != b'{':
                return min(cap, total)
            e = s.find(b'}', p + 2)
            if e < 0 or e == p + 2:
                return min(cap, total)
            name = s[p + 2:e]
            total += 1
            if name in env:
                key = (name, depth + 1)
                if key not in memo:
                    memo[key] = 0          # a cycle ends at the depth limit anyway; this only guards the recursion of this function
                    memo[key] = cost(env[name], depth + 1)
                total += memo[key]
            if total >= cap:
                return cap
            i = e + 1
    return max([cost(t, 1) for t in templates] or [0])


def split_input(data, n):
    parts = data.split(SEP)
    return (parts + [b''] * n)[:n] if len(parts) <= n else parts[:n - 1] + [SEP.join(parts[n - 1:])]


def fanout_of(t, data):
    """the fan-out cost of a fuzz input of target t (0 where the target interpolates nothing taken from its input)"""
    fam = t['family']
    if fam == 'interp':
        parts = data[1:].split(SEP)
        env = {}
        for p in parts[1:][:39]:
            p = p.split(b'\0')[0]
            if b'=' in p:
                k, v = p.split(b'=', 1)
                env.setdefault(k, v)
        return fanout_cost([l for l in parts[0].split(b'\n')] + [parts[0]], env) * 3
    if fam == 'stepread':
        parts = split_input(data[1:], 3)
        rows = parts[1].split(b'\n')
        head = rows[0].split(b',') if rows else []
        worst = 0
        for r in rows[1:]:
            env = dict(zip(head, r.split(b',')))
            worst = max(worst, fanout_cost(parts[0].split(b'\n'), env))
        return worst
    if fam in ('conf', 'config'):
        if fam == 'conf':
            parts = split_input(data[2:], 2)
            text, tmpl = parts[0], parts[1]
        else:
            text, tmpl = data, b''
        env = {b'x': b'${robsddir}', b'target': b'amd64', b'step-name': b'a', b'step-exit': b'0'}
        for m in re.finditer(rb'([A-Za-z0-9_.-]+)[ \t\r\n]*"([^"]*)"', text):
            env.setdefault(m.group(1), m.group(2))
        strings = re.findall(rb'"([^"]*)"', text)
        # a list variable renders as its words joined: count it as the concatenation
        for m in re.finditer(rb'([A-Za-z0-9_.-]+)[ \t\r\n]*\{([^}]*)\}', text):
            env.setdefault(m.group(1), b' '.join(re.findall(rb'"([^"]*)"', m.group(2))))
        return fanout_cost(strings + tmpl.split(b'\n'), env) * (4 if fam == 'conf' else 1)
    return 0


# ---- seeds ----------------------------------------------------------------------------------------------------------------------
def make_world(work):
    """the directories the generated configurations name (conf_gen.ROOTS)"""
    w = os.path.join(work, 'world')
    for d in ('root', 'rroot', 'eroot', 'nroot', 'd1', 'd2', 'root/sub', 'exec', 'root/2024-01-01.1/tmp', 'rroot/2024-01-02.1/tmp'):
        os.makedirs(os.path.join(w, d), exist_ok=True)
    open(os.path.join(w, 'rroot', '.running'), 'w').write('%s/rroot/2024-01-02.1\nsecond line\n' % w)
    open(os.path.join(w, 'root', '.running'), 'w').write('%s/root/2024-01-01.1\n' % w)
    open(os.path.join(w, 'eroot', '.running'), 'w').write('')
    open(os.path.join(w, 'nroot', '.running'), 'w').write('no newline here')
    for f in ('f1', 'root/p-one.diff', 'root/p-two.diff', 'root/q.txt'):
        open(os.path.join(w, f), 'w').write('x\n')
    return w


def seeds_for(t, rng, world, stored):
    """the seed inputs of target t: grammar-derived (always) + the stored cases of corpus/C12, corpus/C09 (if stored)"""
    import c12, c09, c13, conf_gen
    W = world.encode()
    root = os.path.join(world, 'root')
    fam = t['family']
    out = []
    corpus = c12.load_corpus() if stored else []
    if fam in ('config', 'conf'):
        g = conf_gen.Gen(rng)
        modes = [t['mode']] if fam == 'config' else MODES
        for mode in modes:
            mb = bytes([MODES.index(mode)])
            confs = [c12.seeds_config(root, mode)]
            tmpls = [c12.ROW_TEMPLATES[mode] + b'${robsddir} ${keep} ${hook} ${skip}\n${builddir} ${ncpu} ${arch} ${trace}\n']
            for _ in range(6 if fam == 'config' else 4):
                ents, st = g.entries(mode, popt=rng.choice([0.1, 0.35, 0.7]))
                confs.append(g.render(ents).replace(conf_gen.R, W))
                tmpls.append(g.template(mode, st, rdn=rng.choice([0, 1, 3])))
            for c in corpus:
                if c['lane'] in ('config', 'list', 'ls', 'hook') and c.get('mode') == mode:
                    confs.append(bytes.fromhex(c['config']).replace(b'@R@', root.encode()))
                    tmpls.append(bytes.fromhex(c['template']))
                if c['lane'] == 'reentry' and c.get('mode') == mode:
                    confs.append(bytes.fromhex(c['text']).replace(conf_gen.R, W))
                    tmpls.append(bytes.fromhex(c['stdin']).replace(conf_gen.R, W))
                if c['lane'] == 'fanout' and c['via'] == 'conf' and mode == 'robsd' and c['F'] ** c['levels'] <= 10 ** 5:
                    argv, stdin, _, files = c12.fanout_inputs(c, root, '', world, 0)
                    confs.append(open(files[0], 'rb').read())
                    tmpls.append(stdin)
                    os.unlink(files[0])
            if fam == 'config':
                out += confs
            else:
                for i, (cf, tm) in enumerate(zip(confs, tmpls)):
                    out.append(mb + bytes([[0, 1, 2, 1, 4, 8, 3][i % 7]]) + cf + SEP + tm)
    elif fam == 'step':
        out += [c12.GOOD_STEPFILE, c12.GOOD_STEPS, b'step,name,exit,duration,delta,log,user,time,skip\n', b'']
        out += [bytes.fromhex(c['file']) for c in corpus if c['lane'] == 'step']
    elif fam == 'stepread':
        for sel in (1, 255, 3, 0, 99):
            for tm in (b'${step} ${name} ${exit}\n', b'${log}${user}\n', b'${name}:${duration}\n${delta} ${time} ${skip}\n'):
                out.append(bytes([sel]) + tm + SEP + c12.GOOD_STEPFILE + (SEP + b'two' if sel == 0 else b''))
        # fields referring to fields (small fan-out, exact in the blind lane)
        out.append(b'\x01${name}${name}\n' + SEP + b'step,name,exit,duration,delta,log,user,time,skip\n1,${log}${log},0,5,0,${user},root,1700000000,0\n')
        for c in corpus:
            if c['lane'] == 'step':
                sel = int(c['sel'][1]) & 0xff if c['sel'][0] == '-i' else 0
                out.append(bytes([sel]) + bytes.fromhex(c['template']) + SEP + bytes.fromhex(c['file']) + (SEP + c['sel'][1].encode() if sel == 0 else b''))
    elif fam == 'interp':
        cases = [c09.gen_case(rng) for _ in range(40)]
        if stored:
            cases += [c for c in c09.load_corpus()]
        for c in cases:
            env = [(bytes.fromhex(k), bytes.fromhex(v)) for k, v in c['env']]
            if any(b'=' in k or SEP in k or SEP in v for k, v in env) or len(env) > 38:
                continue
            out.append(bytes([1 if c.get('ignore') else 0]) + bytes.fromhex(c['template']) + b''.join(SEP + k + b'=' + v for k, v in env))
    elif fam == 'regresslog':
        for i in range(30):
            out.append(bytes([rng.randint(1, 31) | (0x80 if i % 5 == 0 else 0)]) + c13.gen_log(rng, long_ok=False))
        out.append(b'\x0f+ make\ncc -c x.c\n==== t ====\nFAILED\n*** Error 1\n')
    elif fam == 'report':
        log = b'+ make\ncc -c x.c\n==== t ====\nFAILED\n*** Error 1\n'
        for i, mode in enumerate(MODES):
            out.append(bytes([i]) + SEP.join([c12.GOOD_STEPS, log, b'a comment\n', b'tag1 tag2\n']))
        out.append(b'\x03' + SEP.join([c12.GOOD_STEPS.replace(b'3,kernel,1,65,0,', b'3,kernel,1,65,100,') + b'4,end,0,71,-90,,root,1700000003,0\n',
                                       b'==== a ====\nSKIPPED\n==== b ====\nEXPECTED_FAIL\n==== c ====\nUNEXPECTED_PASS\n', b'', b'']))
        # the step file seed of the step lane (INT64_MAX as a duration, negative duration and delta, a row without a log)
        for i in (0, 3):
            out.append(bytes([i]) + SEP.join([c12.GOOD_STEPFILE, log, b'', b'']))
        for c in corpus:
            if c['lane'] == 'report':
                out.append(bytes([MODES.index(c['mode'])]) + SEP.join(bytes.fromhex(c[k]) for k in ('steps', 'log', 'comment', 'tags')))
    # a seed that is itself a large fan-out would only re-report the recorded finding before any mutation happens
    return [s for s in out if len(s) <= t['max_len'] and fanout_of(t, s) < FUZZ_FANOUT_MIN // 5]


SHM = {}


def report_root(work, tag):
    """the directory tree c12_fuzz_report.c works in (one per process)"""
    import c12
    # on a memory file system when there is one: the target rewrites four small files per execution
    root = os.path.join(SHM.get('dir') or work, 'reportroot-' + tag)
    bd = os.path.join(root, '2024-01-02.1')
    os.makedirs(os.path.join(bd, 'tmp'))
    prev = os.path.join(root, '2024-01-01.1')
    os.makedirs(os.path.join(prev, 'tmp'))
    open(os.path.join(prev, 'step.csv'), 'wb').write(c12.GOOD_STEPS)
    for nme in ('001-env.log', '002-cvs.log', '003-kernel.log'):
        open(os.path.join(prev, nme), 'wb').write(b'+ make\nok\n')
    open(os.path.join(root, '.running'), 'w').write(bd + '\n')
    for mode in MODES:
        open(os.path.join(root, 'conf-' + mode), 'wb').write(c12.seeds_config(root, mode))
    open(os.path.join(bd, 'step.csv'), 'wb').write(b'')
    open(os.path.join(bd, '001-env.log'), 'wb').write(b'')
    os.link(os.path.join(bd, '001-env.log'), os.path.join(bd, '002-cvs.log'))
    os.link(os.path.join(bd, '001-env.log'), os.path.join(bd, '003-kernel.log'))
    return root


# ---- running ----------------------------------------------------------------------------------------------------------------------
def proc_env(work, t, tag, sanlog, leaks=None):
    leaks = LEAKS_FAIL if leaks is None else leaks
    env = dict(os.environ, TMPDIR=os.path.join(work, 'tmp'), EXECDIR='/nonexistent/libexec',
               ASAN_OPTIONS='abort_on_error=0:detect_leaks=%d:log_path=%s:symbolize=1' % (1 if leaks else 0, sanlog),
               UBSAN_OPTIONS='print_stacktrace=1:log_path=%s' % sanlog)
    if t['family'] == 'report':
        env['C12_FUZZ_ROOT'] = report_root(work, tag)
    return env


def derive_seed(base, name, worker, restart):
    s = (base * 1000003 + zlib.crc32(name.encode()) + worker * 7919 + restart * 104729) % (2 ** 31 - 1)
    return s or 1


STAT = re.compile(r'^#(\d+)\s+(?:DONE|INITED|NEW|REDUCE|pulse|RELOAD)\s+cov: (\d+) ft: (\d+) corp: (\d+)/', re.M)
KINDS = ('crash', 'timeout', 'oom', 'leak')


LEAKS_FAIL = os.environ.get('C12_FUZZ_LEAKS', '0') == '1'


def classify_log(impl, kind, text):
    """kind of a crash artefact from the sanitizer / libFuzzer output: <class>[-<function of the first frame inside the repository>]
    (for a leak: the first frame of the allocation stack outside libks)"""
    cls = kind
    if kind == 'crash':
        m = re.search(r'ERROR: AddressSanitizer: ([A-Za-z-]+)', text)
        u = re.search(r'runtime error: ([^\n]*)', text)
        if u:
            msg = u.group(1)
            cls = 'ubsan-' + ('signed-integer-overflow' if 'signed integer overflow' in msg else 'negation-overflow' if 'negation of' in msg
                              else 'shift' if 'shift' in msg else 'null-pointer' if 'null pointer' in msg else 'out-of-bounds' if 'out of bounds' in msg
                              else 'misaligned' if 'misaligned' in msg else 'division' if 'division' in msg else 'unsigned-offset' if 'offset' in msg else 'other')
        elif m:
            cls = 'asan-' + m.group(1).lower()
        elif 'fuzz target exited' in text:
            cls = 'exit'
        elif 'deadly signal' in text:
            cls = 'deadly-signal'
    func = None
    for m in re.finditer(r'^\s*#\d+ 0x[0-9a-f]+ in (\S+) (\S+)', text, re.M):
        f, path = m.group(1), m.group(2)
        base = os.path.basename(path.split(':')[0])
        if path.startswith(impl) and not base.startswith(('c12_fuzz_', 'fuzz-')) and base != 'fuzzer.h':
            if kind == 'leak' and path.startswith(os.path.join(impl, 'libks')):
                continue
            func = f
            break
    if func and kind in ('crash', 'leak'):
        cls += '-' + re.sub(r'[^A-Za-z0-9_]', '_', func)
    return cls


def base_cmd(impl, t, seed, extra=(), leaks=None):
    leaks = LEAKS_FAIL if leaks is None else leaks
    return ([os.path.join(impl, t['bin'])] + t['args'] + ['-timeout=%d' % TIME_LIMIT, '-rss_limit_mb=%d' % RSS_LIMIT_MB, '-malloc_limit_mb=%d' % RSS_LIMIT_MB,
            '-seed=%d' % seed, '-close_fd_mask=3', '-print_final_stats=1', '-detect_leaks=%d' % (1 if leaks else 0)] + list(extra))


def run_once(cmd, env, cwd, logpath, wall):
    with open(logpath, 'wb') as lf:
        p = subprocess.Popen(cmd, stdin=subprocess.DEVNULL, stdout=lf, stderr=lf, env=env, cwd=cwd)
        try:
            rc = p.wait(timeout=wall)
        except subprocess.TimeoutExpired:
            p.kill()
            p.wait()
            rc = -998
    return rc, open(logpath, errors='replace').read()


def read_sanlogs(sanlog):
    text = ''
    for p in sorted(glob.glob(sanlog + '.*')):
        text += open(p, errors='replace').read()
        os.unlink(p)
    return text


def worker(impl, work, t, widx, base_seed, seconds, dicts):
    """one libFuzzer process after the other on the shared corpus directory of the target until the time is used up: an artefact ends a
    process, the next one continues with the corpus found so far and the next seed"""
    tdir = os.path.join(work, t['name'])
    cdir = os.path.join(tdir, 'corpus')
    adir = os.path.join(tdir, 'art%d' % widx)
    cwd = os.path.join(tdir, 'cwd%d' % widx)
    for d in (adir, cwd):
        os.makedirs(d, exist_ok=True)
    sanlog = os.path.join(tdir, 'san%d' % widx)
    stats = {'execs': 0, 'cov': 0, 'ft': 0, 'corpus': 0, 'runs': 0, 'artefacts': [], 'problems': []}
    deadline = time.time() + seconds
    restart = 0
    while True:
        left = deadline - time.time()
        if left < (2 if restart else 0.5) or restart > 400:
            break
        env = proc_env(work, t, '%s-%d-%d' % (t['name'], widx, restart), sanlog)
        seed = derive_seed(base_seed, t['name'], widx, restart)
        cmd = base_cmd(impl, t, seed, ['-max_total_time=%d' % max(1, int(left)), '-max_len=%d' % t['max_len'], '-dict=' + dicts[t['dic']],
                                       '-artifact_prefix=' + adir + '/', '-reload=1', cdir])
        rc, log = run_once(cmd, env, cwd, os.path.join(tdir, 'log%d-%d' % (widx, restart)), left + 3 * TIME_LIMIT + 20)
        if 'C12_FUZZ_ROOT' in env:
            shutil.rmtree(env['C12_FUZZ_ROOT'], ignore_errors=True)
        san = read_sanlogs(sanlog)
        stats['runs'] += 1
        m = re.search(r'stat::number_of_executed_units:\s*(\d+)', log)
        last = None
        for last in STAT.finditer(log):
            pass
        if m:
            stats['execs'] += int(m.group(1))
        elif last:
            stats['execs'] += int(last.group(1))
        if last:
            stats['cov'] = max(stats['cov'], int(last.group(2)))
            stats['ft'] = max(stats['ft'], int(last.group(3)))
            stats['corpus'] = max(stats['corpus'], int(last.group(4)))
        found = [p for p in sorted(os.listdir(adir)) if p.startswith(tuple(k + '-' for k in KINDS))]
        for p in found:
            kind = p.split('-')[0]
            data = open(os.path.join(adir, p), 'rb').read()
            os.unlink(os.path.join(adir, p))
            stats['artefacts'].append({'kind': kind, 'class': classify_log(impl, kind, log + san), 'input': data, 'seed': seed,
                                       'report': (san + '\n' + log[-3000:])[-6000:]})
        if rc == -998:
            stats['problems'].append('libFuzzer process of %s did not end %d s after its time budget' % (t['name'], 3 * TIME_LIMIT + 20))
        elif rc != 0 and not found:
            stats['problems'].append('libFuzzer process of %s ended with status %s without an artefact: %s' % (t['name'], rc, log[-400:]))
            break
        if not found:
            break
        restart += 1
    return stats


def leak_pass(impl, work, t):
    """the corpus of the target once more with LeakSanitizer on: an OBSERVATION (the helpers are one-shot processes; a leak is not a
    memory error of the property) unless C12_FUZZ_LEAKS=1 made leaks artefacts of the fuzzing itself"""
    tdir = os.path.join(work, t['name'])
    sanlog = os.path.join(tdir, 'sanleak')
    adir = os.path.join(tdir, 'artleak')
    os.makedirs(adir, exist_ok=True)
    env = proc_env(work, t, t['name'] + '-leak', sanlog, leaks=True)
    cmd = base_cmd(impl, t, 1, ['-runs=0', '-artifact_prefix=' + adir + '/', os.path.join(tdir, 'corpus')], leaks=True)
    rc, log = run_once(cmd, env, tdir, os.path.join(tdir, 'logleak'), 60)
    if 'C12_FUZZ_ROOT' in env:
        shutil.rmtree(env['C12_FUZZ_ROOT'], ignore_errors=True)
    text = log + read_sanlogs(sanlog)
    shutil.rmtree(adir, ignore_errors=True)
    m = re.search(r'SUMMARY: AddressSanitizer: (\d+) byte\(s\) leaked in (\d+) allocation', text)
    if not m:
        return 'none'
    return '%s bytes in %s allocation(s), allocated under %s' % (m.group(1), m.group(2), classify_log(impl, 'leak', text)[5:] or '?')


def run_single(impl, work, t, data, tag='single', extra=()):
    """one input on the instrumented build: (kind or None, class, report)"""
    tdir = os.path.join(work, t['name'] + '-' + tag)
    adir = os.path.join(tdir, 'art')
    os.makedirs(adir, exist_ok=True)
    os.makedirs(os.path.join(work, 'tmp'), exist_ok=True)
    sanlog = os.path.join(tdir, 'san')
    inp = os.path.join(tdir, 'input')
    open(inp, 'wb').write(data)
    env = proc_env(work, t, t['name'] + '-' + tag + '-%d' % int(time.time() * 1000), sanlog)
    rc, log = run_once(base_cmd(impl, t, 1, ['-artifact_prefix=' + adir + '/'] + list(extra) + [inp]), env, tdir, os.path.join(tdir, 'log'), 4 * TIME_LIMIT + 30)
    if 'C12_FUZZ_ROOT' in env:
        shutil.rmtree(env['C12_FUZZ_ROOT'], ignore_errors=True)
    san = read_sanlogs(sanlog)
    kind = None
    for p in sorted(os.listdir(adir)):
        if p.startswith(tuple(k + '-' for k in KINDS)):
            kind = kind or p.split('-')[0]
        os.unlink(os.path.join(adir, p))
    if kind is None and rc == -998:
        kind = 'timeout'
    if kind is None and rc != 0:
        # a single-input run reports without writing an artefact
        text = log + san
        kind = ('timeout' if 'libFuzzer: timeout' in text else 'oom' if 'libFuzzer: out-of-memory' in text
                else 'leak' if 'LeakSanitizer: detected memory leaks' in text and 'runtime error' not in text else 'crash')
    return kind, (classify_log(impl, kind, log + san) if kind else None), (san + '\n' + log[-3000:])[-6000:]


def minimise(impl, work, t, art, seconds, tag=''):
    """libFuzzer's -minimize_crash=1 for a bounded time; the result is kept only if it still fails in the same class"""
    tdir = os.path.join(work, t['name'] + '-min' + tag)
    os.makedirs(tdir, exist_ok=True)
    os.makedirs(os.path.join(work, 'tmp'), exist_ok=True)
    inp = os.path.join(tdir, 'in')
    outp = os.path.join(tdir, 'out')
    open(inp, 'wb').write(art['input'])
    if os.path.exists(outp):
        os.unlink(outp)
    sanlog = os.path.join(tdir, 'san')
    env = proc_env(work, t, t['name'] + '-min-%d' % int(time.time() * 1000), sanlog)
    cmd = base_cmd(impl, t, 1, ['-minimize_crash=1', '-exact_artifact_path=' + outp, '-max_total_time=%d' % seconds, '-artifact_prefix=' + tdir + '/', inp])
    run_once(cmd, env, tdir, os.path.join(tdir, 'log'), seconds + 3 * TIME_LIMIT + 20)
    if 'C12_FUZZ_ROOT' in env:
        shutil.rmtree(env['C12_FUZZ_ROOT'], ignore_errors=True)
    read_sanlogs(sanlog)
    for p in glob.glob(os.path.join(tdir, 'minimized-from-*')) + glob.glob(os.path.join(tdir, 'crash-*')):
        os.unlink(p)
    if not os.path.exists(outp):
        return None
    small = open(outp, 'rb').read()
    if len(small) >= len(art['input']):
        return None
    kind, cls, rep = run_single(impl, work, t, small, tag='mincheck' + tag)
    if kind == art['kind'] and cls == art['class']:
        return small, rep
    return None


def signature_of(t, art):
    """fuzz-<target>-<kind>; a timeout / out-of-memory artefact on a reference fan-out is the recorded finding"""
    if art['kind'] in ('timeout', 'oom'):
        cost = fanout_of(t, art['input'])
        if cost >= FUZZ_FANOUT_MIN:
            return FANOUT_SIG, cost
        return 'fuzz-%s-%s' % (t['family'], art['kind']), cost
    return 'fuzz-%s-%s' % (t['family'], art['class']), 0


def use_shm(ctx):
    """a scratch directory on /dev/shm (removed with the other scratch directories of the run) for the report target's build directory"""
    import tempfile
    if 'dir' not in SHM and os.path.isdir('/dev/shm') and os.access('/dev/shm', os.W_OK):
        try:
            d = tempfile.mkdtemp(prefix='verif.C12fz.', dir='/dev/shm')
            ctx.scratch.append(d)
            SHM['dir'] = d
        except OSError:
            pass


def lane_fuzz(ctx, impl_unused, work_unused, res, rng, n):
    """the lane (signature of the lanes of c12.py)"""
    t0 = time.time()
    per = ctx.budget(10, 120)
    if os.environ.get('C12_FUZZ_SECONDS'):
        per = int(os.environ['C12_FUZZ_SECONDS'])
    stored = os.environ.get('C12_FUZZ_SEEDS', 'all') != 'grammar'
    only = [x for x in os.environ.get('C12_FUZZ_TARGETS', '').split(',') if x]
    targets = [t for t in TARGETS if not only or t['name'] in only or t['family'] in only]
    impl = build(ctx)
    work = ctx.mkscratch('c12fz')
    os.makedirs(os.path.join(work, 'tmp'))
    use_shm(ctx)
    world = make_world(work)
    words = dict_words(impl)
    dicts = {}
    for k, w in words.items():
        dicts[k] = os.path.join(work, k + '.dict')
        res.count('fuzz dictionary %s: %d words' % (k, write_dict(dicts[k], w)))
    nseeds = {}
    for t in targets:
        cdir = os.path.join(work, t['name'], 'corpus')
        os.makedirs(cdir)
        seeds = seeds_for(t, rng, world, stored)
        for i, s in enumerate(seeds):
            open(os.path.join(cdir, 'seed%04d' % i), 'wb').write(s)
        nseeds[t['name']] = len(seeds)
        if not seeds:
            res.tie_errors.append('fuzz lane: no seed for target %s' % t['name'])
    build_s = time.time() - t0
    base_seed = ctx.seed
    if ctx.tier == 'thorough' and not only:
        waves = [[t for t in targets if t['wave'] == 0], [t for t in targets if t['wave'] == 1]]
        nw = {0: 3, 1: 2}
    else:
        waves = [targets]
        nw = {0: 1, 1: 1}
        if only and ctx.tier == 'thorough':
            nw = {0: max(1, 15 // len(targets)), 1: max(1, 15 // len(targets))}
    results = {}
    for wave in waves:
        jobs = [(t, w) for t in wave for w in range(nw[t['wave']])]
        if not jobs:
            continue
        with ThreadPoolExecutor(len(jobs)) as ex:
            outs = list(ex.map(lambda tw: worker(impl, work, tw[0], tw[1], base_seed, per, dicts), jobs))
        for (t, w), st in zip(jobs, outs):
            r = results.setdefault(t['name'], {'execs': 0, 'cov': 0, 'ft': 0, 'corpus': 0, 'runs': 0, 'workers': 0, 'artefacts': [], 'problems': []})
            r['execs'] += st['execs']
            r['runs'] += st['runs']
            r['workers'] += 1
            for k in ('cov', 'ft', 'corpus'):
                r[k] = max(r[k], st[k])
            r['artefacts'] += st['artefacts']
            r['problems'] += st['problems']
    leaks = {}
    if not LEAKS_FAIL:
        with ThreadPoolExecutor(len(targets)) as ex:
            leaks = dict(zip([t['name'] for t in targets], ex.map(lambda t: leak_pass(impl, work, t), targets)))
    # stored inputs of this lane (corpus/C12, lane "fuzz") run first, one process each: they are NOT put into the seed directories
    # (an input that fails would end every fuzzing process at start-up)
    if stored:
        import c12
        fz = [c for c in c12.load_corpus() if c['lane'] == 'fuzz' and any(t['name'] == c['target'] for t in targets)]
        if fz:
            with ThreadPoolExecutor(min(16, len(fz))) as ex:
                outs = list(ex.map(lambda ic: run_single(impl, work, target(ic[1]['target']), bytes.fromhex(ic[1]['input']), tag='corpus%d' % ic[0]), enumerate(fz)))
            for c, (kind, cls, report) in zip(fz, outs):
                res.evaluations += 1
                res.count('fuzz corpus %s: %s' % (c['corpus'], ('%s %s' % (kind, cls)) if kind else 'no artefact'))
                if kind:
                    results.setdefault(c['target'], {'execs': 0, 'cov': 0, 'ft': 0, 'corpus': 0, 'runs': 0, 'workers': 0, 'artefacts': [], 'problems': []})
                    results[c['target']]['artefacts'].append({'kind': kind, 'class': cls, 'input': bytes.fromhex(c['input']), 'seed': 0, 'report': report, 'stored': c['corpus']})
    fuzz_s = time.time() - t0 - build_s
    # verdicts
    evidence = {}
    best = {}
    for t in targets:
        r = results.get(t['name'])
        if r is None:
            continue
        res.evaluations += nseeds[t['name']]
        res.count('fuzz %s: executions' % t['name'], r['execs'])
        res.count('fuzz %s: coverage (edges)' % t['name'], r['cov'])
        res.count('fuzz %s: corpus units' % t['name'], r['corpus'])
        evidence[t['name']] = {'executions': r['execs'], 'cov': r['cov'], 'ft': r['ft'], 'corpus': r['corpus'], 'seeds': nseeds[t['name']],
                               'processes': r['runs'], 'workers': r['workers'], 'seconds': per, 'max_len': t['max_len'], 'artefacts': len(r['artefacts']),
                               'leak_pass': leaks.get(t['name'], 'leaks are artefacts in this run')}
        if leaks.get(t['name'], 'none') != 'none':
            res.count('fuzz %s: observation, LeakSanitizer on the final corpus: %s' % (t['name'], leaks[t['name']]))
        for p in r['problems']:
            res.tie_errors.append('fuzz lane: ' + p)
        if (r['execs'] < 50 + nseeds[t['name']] or r['cov'] < 20) and not r['artefacts']:
            res.tie_errors.append('fuzz lane: target %s did nothing that counts (%d executions, coverage %d)' % (t['name'], r['execs'], r['cov']))
        for art in r['artefacts']:
            sig, cost = signature_of(t, art)
            res.count('fuzz %s artefact: %s' % (t['name'], sig))
            k = (sig, '')
            if k not in best or (not best[k][1].get('stored') and (art.get('stored') or len(art['input']) < len(best[k][1]['input']))):
                best[k] = (t, art, cost)
    mins = ctx.budget(8, 30)
    order = sorted(best.items(), key=lambda kv: kv[0])
    todo = [(i, t, art) for i, ((sig, _), (t, art, cost)) in enumerate(order)
            if art['kind'] in ('crash', 'leak') and not art.get('stored') and not common.match_known('C12', sig)][:12]
    smalls = {}
    if todo:
        with ThreadPoolExecutor(len(todo)) as ex:
            for (i, t, art), small in zip(todo, ex.map(lambda x: minimise(impl, work, x[1], x[2], mins, tag=str(x[0])), todo)):
                smalls[i] = small
    for i, ((sig, _), (t, art, cost)) in enumerate(order):
        data, report, minimised = art['input'], art['report'], False
        if smalls.get(i) is not None:
            data, report, minimised = smalls[i][0], smalls[i][1], True
        case = {'lane': 'fuzz', 'target': t['name'], 'kind': art['kind'], 'class': art['class'], 'input': data.hex(), 'libfuzzer_seed': art['seed'],
                'minimised': minimised}
        if art.get('stored'):
            case['corpus'] = art['stored']
        what = 'libFuzzer target %s: %s artefact (%d bytes%s)' % (t['name'], art['kind'], len(data), ', minimised' if minimised else '')
        if sig == FANOUT_SIG:
            what += ': reference fan-out of cost %d (look-ups + bytes) >= %d' % (cost, FUZZ_FANOUT_MIN)
        elif art['kind'] in ('timeout', 'oom'):
            what += ': not finished within %d s / %d MB, fan-out cost of the input only %d' % (TIME_LIMIT, RSS_LIMIT_MB, cost)
        else:
            m = re.search(r'(runtime error: [^\n]*|ERROR: AddressSanitizer: [^\n]*|ERROR: libFuzzer: [^\n]*)', report)
            what += ': ' + (m.group(1)[:300] if m else art['class'])
        res.oracle_failures.append({'case': case, 'signature': sig, 'what': what, 'lane': 'fuzz', 'report': report[-2500:]})
    res.extra['fuzz'] = {'targets': evidence, 'build_seconds': round(build_s, 1), 'fuzz_seconds': round(fuzz_s, 1), 'total_seconds': round(time.time() - t0, 1),
                         'seconds_per_target': per, 'timeout': TIME_LIMIT, 'rss_limit_mb': RSS_LIMIT_MB, 'seed': base_seed,
                         'seeds': 'grammar-derived + stored corpus' if stored else 'grammar-derived only',
                         'engine': 'libFuzzer (clang 14) -fsanitize=fuzzer,address,undefined'}
    shutil.rmtree(work, ignore_errors=True)
    if SHM.get('dir'):
        shutil.rmtree(SHM.pop('dir'), ignore_errors=True)


def replay(ctx, case):
    """the stored input once more on the instrumented sanitizer build of the tree as it is now"""
    t = target(case['target'])
    impl = build(ctx, bins=[t['bin']])
    work = ctx.mkscratch('c12fzr')
    os.makedirs(os.path.join(work, 'tmp'))
    use_shm(ctx)
    data = bytes.fromhex(case['input'])
    t1 = time.time()
    kind, cls, report = run_single(impl, work, t, data, tag='replay')
    print('libFuzzer target %s %s, input of %d bytes: %s after %.1f s' % (t['name'], ' '.join(t['args']), len(data), ('%s (%s)' % (kind, cls)) if kind else 'no artefact',
                                                                     time.time() - t1))
    if kind:
        sig, cost = signature_of(t, {'kind': kind, 'class': cls, 'input': data})
        print('oracle: %s%s' % (sig, (' - fan-out cost %d' % cost) if kind in ('timeout', 'oom') else ''))
        print(report[-2500:])
        print('VIOLATION reproduced')
        return 1
    print('no violation')
    return 0
