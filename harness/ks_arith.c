/* ks_arith.c - C20: runs the compiled checked-arithmetic functions of libks.
 *
 * Built by harness/c20.py against the scratch build of the repository:
 *   cc -I<impl> ks_arith.c <impl>/libks/arithmetic.c
 * (and once more with clang's trapping UBSan to make signed overflow inside
 * the fallbacks observable).
 *
 * stdin, one case per line:   <path> <ty> <op> <a> <b>
 *   path: f = portable fallback KS_<ty>_<op>_overflow0,
 *         b = KS_<ty>_<op>_overflow as arithmetic.h defines it for this compiler
 *   ty: i32 i64 u32 u64 size;  op: add sub mul;  a, b decimal
 * A line starting with "q" is answered by "HB <add> <sub> <mul>": does this compiler
 * have __builtin_{add,sub,mul}_overflow (the branch the entry points take).
 * stdout, one line per case:  "T" (SIGFPE/SIGILL/SIGSEGV/SIGABRT raised by the call)
 *                           | "<ret> S <stored value>" | "<ret> N" (nothing stored)
 * Whether something was stored is decided by calling twice with two different
 * initial contents of the result object.
 */
#include <errno.h>
#include <inttypes.h>
#include <setjmp.h>
#include <signal.h>
#include <stdint.h>
#include <stdio.h>
#include <stdlib.h>
#include <string.h>

#include "libks/arithmetic.h"

/* the test arithmetic.h applies (it #undefs its has_builtin at the end): evaluated by the preprocessor */
#if defined(__has_builtin)
#define KS_HB(x) __has_builtin(x)
#else
#define KS_HB(x) 0
#endif
#if KS_HB(__builtin_add_overflow)
#define KS_HB_ADD 1
#else
#define KS_HB_ADD 0
#endif
#if KS_HB(__builtin_sub_overflow)
#define KS_HB_SUB 1
#else
#define KS_HB_SUB 0
#endif
#if KS_HB(__builtin_mul_overflow)
#define KS_HB_MUL 1
#else
#define KS_HB_MUL 0
#endif

static sigjmp_buf trap_env;

static void
on_trap(int sig)
{
	siglongjmp(trap_env, sig);
}

#define SENT1 0x5a5a5a5a5a5a5a5aULL
#define SENT2 0x3c3c3c3c3c3c3c3cULL

#define RUN(T, FMT, CAST, fn) do {					\
	volatile T c1 = (T)SENT1, c2 = (T)SENT2;			\
	volatile int r1 = -7, r2 = -7;					\
	if (sigsetjmp(trap_env, 1) != 0) {				\
		puts("T");						\
		return;							\
	}								\
	r1 = fn((T)a, (T)b, (T *)&c1);					\
	r2 = fn((T)a, (T)b, (T *)&c2);					\
	if (r1 != r2)							\
		printf("NONDET %d %d\n", r1, r2);			\
	else if (c1 == (T)SENT1 && c2 == (T)SENT2)			\
		printf("%d N\n", r1);					\
	else if (c1 != c2)						\
		printf("NONDET-STORE %d\n", r1);			\
	else								\
		printf("%d S " FMT "\n", r1, (CAST)c1);			\
	return;								\
} while (0)

#define DISPATCH(name, T, FMT, CAST) do {				\
	if (strcmp(ty, #name) == 0) {					\
		if (path == 'f') {					\
			if (op == 'a') RUN(T, FMT, CAST, KS_##name##_add_overflow0);	\
			if (op == 's') RUN(T, FMT, CAST, KS_##name##_sub_overflow0);	\
			if (op == 'm') RUN(T, FMT, CAST, KS_##name##_mul_overflow0);	\
		} else {						\
			if (op == 'a') RUN(T, FMT, CAST, KS_##name##_add_overflow);	\
			if (op == 's') RUN(T, FMT, CAST, KS_##name##_sub_overflow);	\
			if (op == 'm') RUN(T, FMT, CAST, KS_##name##_mul_overflow);	\
		}							\
	}								\
} while (0)

static void
one(char path, const char *ty, char op, uint64_t a, uint64_t b)
{
	DISPATCH(i32, int32_t, "%" PRId64, int64_t);
	DISPATCH(i64, int64_t, "%" PRId64, int64_t);
	DISPATCH(u32, uint32_t, "%" PRIu64, uint64_t);
	DISPATCH(u64, uint64_t, "%" PRIu64, uint64_t);
	DISPATCH(size, size_t, "%" PRIu64, uint64_t);
	puts("BAD");
}

static uint64_t
parse(const char *s)
{
	if (s[0] == '-')
		return (uint64_t)strtoll(s, NULL, 10);
	return (uint64_t)strtoull(s, NULL, 10);
}

int
main(void)
{
	char line[256], path[8], ty[8], op[8], sa[64], sb[64];
	struct sigaction sa_trap;

	memset(&sa_trap, 0, sizeof(sa_trap));
	sa_trap.sa_handler = on_trap;
	sigemptyset(&sa_trap.sa_mask);
	sigaction(SIGFPE, &sa_trap, NULL);
	sigaction(SIGILL, &sa_trap, NULL);
	sigaction(SIGSEGV, &sa_trap, NULL);
	sigaction(SIGABRT, &sa_trap, NULL);
	sigaction(SIGTRAP, &sa_trap, NULL);

	while (fgets(line, sizeof(line), stdin) != NULL) {
		if (line[0] == 'q') {
			/* which branch of the entry points this compiler selects: add sub mul */
			printf("HB %d %d %d\n", KS_HB_ADD, KS_HB_SUB, KS_HB_MUL);
			continue;
		}
		if (sscanf(line, "%7s %7s %7s %63s %63s", path, ty, op, sa, sb) != 5) {
			puts("BAD");
			continue;
		}
		one(path[0], ty, op[0], parse(sa), parse(sb));
	}
	return 0;
}
