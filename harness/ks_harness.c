/* ks_harness.c - C20: drives libks/vector.c and libks/buffer.c (and map.c, see
 * ks_map.c) in-process and prints every observable result.
 *
 * Built by harness/c20.py from the scratch build of the repository; the
 * sources are #included so that the private headers (capacity) can be read:
 *   cc -I<impl> ks_harness.c
 *
 * stdin: one sequence per line (formats below); stdout: one line per sequence,
 * one token per operation "<result>@<capacity after the operation>".
 *
 *   vec <stride> <alloc> <nops> <op>...   stride 8, 24 or 4096 (first word of an element is its value), 1 (the
 *                                         element is one unsigned byte: values 0..255) or 3 (three bytes, little
 *                                         endian, no padding: values 0..2^24-1)
 *       <alloc>: "-" = the default callbacks of vector_init (calloc/realloc/free of libc);
 *                "s" or "s:<size>,<size>..." = STRICT callbacks through vector_init_impl: realloc hands out a
 *                fresh block filled with 0xa5, copies exactly <oldsize> bytes (what arena_realloc's slow path
 *                does), poisons and frees the old block; requests of exactly the listed byte sizes fail
 *                (allocation-failure injection).  A callback told an old size larger than the block it
 *                allocated marks the capacity token with "!".
 *       ops: push:<x> calloc reserve:<n> pop clear first last sort len dump
 *       results: E | I:<index>:<value> | N | U | Z:<n> | L:<v,v,...>
 *       first token of the answer: H:<sizeof(struct vector)>
 *   buf <init_size> <alloc> <nops> <op>...   (<alloc> as above, through buffer_alloc_impl)
 *       ops: puts:<hex> putc:<byte> printf:<hex> printd:<int64> printi:<int> printp:<precision>:<hex> huge:<n>
 *            str reset pop:<n> cmp:<hex> len dump lines gline
 *            (printf = "%s"; printd = "%" PRId64 "/%s" with "x"; printi = "%d"; printp = "%.*s" with an int
 *            precision and the bytes followed by a NUL - the bytes may hold a NUL themselves)
 *       results: Z:<n> | B:<hex> | N | U | LN:<hex>,<hex>,... | G:<hex>   ("-" = empty string)
 *       gline = ONE buffer_getline call on an iterator that lives as long as the sequence (zeroed at its start)
 *       first token: A:<capacity after buffer_alloc> or A:NULL
 *   vec and buf answers end with the token J:<i> (the first operation during which a LISTED size was refused;
 *   -1 = inside buffer_alloc) or J:- (no injected refusal happened)
 */
#include <inttypes.h>
#include <stdint.h>
#include <stdio.h>
#include <stdlib.h>
#include <string.h>

#include "libks/arithmetic.c"
#define callback_realloc vector_callback_realloc
#define callback_free vector_callback_free
#include "libks/vector.c"
#undef callback_realloc
#undef callback_free
#define callback_alloc buffer_callback_alloc
#define callback_realloc buffer_callback_realloc
#define callback_free buffer_callback_free
#include "libks/buffer.c"
#undef callback_alloc
#undef callback_realloc
#undef callback_free

/* ---- strict allocator callbacks: every block carries its true size in front ---- */
#define KS_HDR 16
static size_t	ks_fail_sizes[64];
static size_t	ks_nfail_sizes;
static int	ks_oldsize_violation;
/* index of the operation during which a LISTED size was refused for the first time (-2 = never, -1 = by
 * buffer_alloc, before the first operation): from there on the sequence is under injected allocation failure */
static long	ks_cur_op;
static long	ks_first_injected;

static void
ks_parse_alloc(const char *spec)
{
	ks_nfail_sizes = 0;
	ks_oldsize_violation = 0;
	ks_cur_op = -1;
	ks_first_injected = -2;
	if (spec[0] != 's' || spec[1] != ':')
		return;
	spec += 2;
	while (*spec != '\0' && ks_nfail_sizes < sizeof(ks_fail_sizes) / sizeof(ks_fail_sizes[0])) {
		char *end;
		ks_fail_sizes[ks_nfail_sizes++] = (size_t)strtoull(spec, &end, 10);
		spec = *end == ',' ? end + 1 : end;
	}
}

static int
ks_size_fails(size_t sz)
{
	size_t i;

	if (sz > ((size_t)1 << 50))
		return 1;
	for (i = 0; i < ks_nfail_sizes; i++)
		if (ks_fail_sizes[i] == sz) {
			if (ks_first_injected == -2)
				ks_first_injected = ks_cur_op;
			return 1;
		}
	return 0;
}

static void *
strict_block(size_t sz, int fill)
{
	unsigned char *p = malloc(KS_HDR + sz);

	if (p == NULL)
		abort();
	memcpy(p, &sz, sizeof(sz));
	memset(p + KS_HDR, fill, sz);
	return p + KS_HDR;
}

static size_t
strict_size(const void *ptr)
{
	size_t sz;

	memcpy(&sz, (const unsigned char *)ptr - KS_HDR, sizeof(sz));
	return sz;
}

static void
strict_release(void *ptr)
{
	if (ptr == NULL)
		return;
	memset(ptr, 0xee, strict_size(ptr));
	free((unsigned char *)ptr - KS_HDR);
}

static void *
strict_calloc(size_t nmemb, size_t size, void *arg)
{
	(void)arg;
	if (ks_size_fails(nmemb * size))
		return NULL;
	return strict_block(nmemb * size, 0);
}

static void *
strict_alloc(size_t size, void *arg)
{
	(void)arg;
	if (ks_size_fails(size))
		return NULL;
	return strict_block(size, 0xa5);
}

static void *
strict_realloc(void *ptr, size_t oldsize, size_t newsize, void *arg)
{
	void *p;

	(void)arg;
	if (ks_size_fails(newsize))
		return NULL;
	p = strict_block(newsize, 0xa5);
	if (ptr != NULL) {
		size_t have = strict_size(ptr);

		if (oldsize > have) {
			ks_oldsize_violation = 1;
			oldsize = have;
		}
		memcpy(p, ptr, oldsize < newsize ? oldsize : newsize);
		strict_release(ptr);
	} else if (oldsize != 0) {
		ks_oldsize_violation = 1;
	}
	return p;
}

static void
strict_free(void *ptr, size_t size, void *arg)
{
	(void)arg;
	if (ptr != NULL && size > strict_size(ptr))
		ks_oldsize_violation = 1;
	strict_release(ptr);
}

static int ks_strict;

struct big {
	int64_t	val;
	int64_t	pad[2];
};

struct huge {
	int64_t	val;
	char	pad[4096 - sizeof(int64_t)];
};

struct one {
	uint8_t	val;
};

struct three {
	uint8_t	b[3];
};

static int64_t
get_three(const struct three *p)
{
	return (int64_t)p->b[0] | ((int64_t)p->b[1] << 8) | ((int64_t)p->b[2] << 16);
}

static void
set_three(struct three *p, int64_t x)
{
	p->b[0] = (uint8_t)(x & 0xff);
	p->b[1] = (uint8_t)((x >> 8) & 0xff);
	p->b[2] = (uint8_t)((x >> 16) & 0xff);
}

static int
cmp_huge(const struct huge *a, const struct huge *b)
{
	return a->val < b->val ? -1 : a->val > b->val;
}

static int
cmp_one(const struct one *a, const struct one *b)
{
	return a->val < b->val ? -1 : a->val > b->val;
}

static int
cmp_three(const struct three *a, const struct three *b)
{
	int64_t x = get_three(a), y = get_three(b);

	return x < y ? -1 : x > y;
}

static int
cmp_i64(const int64_t *a, const int64_t *b)
{
	return *a < *b ? -1 : *a > *b;
}

static int
cmp_big(const struct big *a, const struct big *b)
{
	return a->val < b->val ? -1 : a->val > b->val;
}

static int64_t
argi(const char *tok)
{
	const char *c = strchr(tok, ':');
	return c == NULL ? 0 : (int64_t)strtoll(c + 1, NULL, 10);
}

static uint64_t
argu(const char *tok)
{
	const char *c = strchr(tok, ':');
	return c == NULL ? 0 : (uint64_t)strtoull(c + 1, NULL, 10);
}

static int
is(const char *tok, const char *name)
{
	size_t n = strlen(name);
	return strncmp(tok, name, n) == 0 && (tok[n] == '\0' || tok[n] == ':');
}

/* hex argument after the colon -> malloc'ed bytes */
static unsigned char *
arghex(const char *tok, size_t *len)
{
	const char *c = strchr(tok, ':');
	unsigned char *out;
	size_t i, n;

	*len = 0;
	out = malloc(strlen(tok) + 1);
	if (c == NULL || c[1] == '-' || c[1] == '\0')
		return out;
	c++;
	n = strcspn(c, ":") / 2;
	for (i = 0; i < n; i++) {
		unsigned int b;
		sscanf(c + 2 * i, "%2x", &b);
		out[i] = (unsigned char)b;
	}
	*len = n;
	return out;
}

static void
puthex(const unsigned char *p, size_t n)
{
	size_t i;

	if (n == 0) {
		putchar('-');
		return;
	}
	for (i = 0; i < n; i++)
		printf("%02x", p[i]);
}

#define VEC_SEQ(T, GETV, SETV, CMP) do {					\
	VECTOR(T) v;								\
	if (ks_strict ? vector_init_impl((void **)&v, sizeof(*v), &(struct vector_callbacks){	\
	    .calloc = strict_calloc, .realloc = strict_realloc, .free = strict_free })		\
	    : VECTOR_INIT(v)) { printf("INITFAIL"); break; }			\
	printf("H:%zu", sizeof(struct vector));					\
	for (i = 0; i < nops; i++) {						\
		const char *op = ops[i];					\
		T *p;								\
		ks_cur_op = (long)i;						\
		putchar(' ');							\
		if (is(op, "push")) {						\
			p = VECTOR_ALLOC(v);					\
			if (p == NULL) printf("E");				\
			else { memset(p, 0x5a, sizeof(*p)); SETV(p, argi(op));	\
			    printf("I:%td:%" PRId64, p - v, GETV(p)); }	\
		} else if (is(op, "calloc")) {					\
			p = VECTOR_CALLOC(v);					\
			if (p == NULL) printf("E");				\
			else {							\
				size_t k; int dirty = 0;			\
				for (k = 0; k < sizeof(*p); k++)		\
					if (((unsigned char *)p)[k] != 0) dirty = 1;	\
				printf("I:%td:%" PRId64, p - v, dirty ? (int64_t)-999 : GETV(p)); \
			}							\
		} else if (is(op, "reserve")) {					\
			printf("Z:%d", VECTOR_RESERVE(v, argu(op)));		\
		} else if (is(op, "pop")) {					\
			p = VECTOR_POP(v);					\
			if (p == NULL) printf("N");				\
			else printf("I:%td:%" PRId64, p - v, GETV(p));		\
		} else if (is(op, "clear")) {					\
			VECTOR_CLEAR(v); printf("U");				\
		} else if (is(op, "first")) {					\
			p = VECTOR_FIRST(v);					\
			if (p == NULL) printf("N");				\
			else printf("I:%td:%" PRId64, p - v, GETV(p));		\
		} else if (is(op, "last")) {					\
			p = VECTOR_LAST(v);					\
			if (p == NULL) printf("N");				\
			else printf("I:%td:%" PRId64, p - v, GETV(p));		\
		} else if (is(op, "sort")) {					\
			VECTOR_SORT(v, CMP); printf("U");			\
		} else if (is(op, "len")) {					\
			printf("Z:%zu", VECTOR_LENGTH(v));			\
		} else if (is(op, "dump")) {					\
			size_t k;						\
			printf("L:");						\
			for (k = 0; k < VECTOR_LENGTH(v); k++)			\
				printf("%s%" PRId64, k ? "," : "", GETV(&v[k]));\
		} else {							\
			printf("BAD");						\
		}								\
		printf("@%zu%s", ptov(v)->vc_siz, ks_oldsize_violation ? "!" : "");	\
	}									\
	VECTOR_FREE(v);								\
} while (0)

#define GET_I64(p) (*(p))
#define SET_I64(p, x) (*(p) = (x))
#define GET_BIG(p) ((p)->val)
#define SET_BIG(p, x) ((p)->val = (x))
#define GET_ONE(p) ((int64_t)(p)->val)
#define SET_ONE(p, x) ((p)->val = (uint8_t)(x))
#define GET_THREE(p) get_three(p)
#define SET_THREE(p, x) set_three((p), (x))

static void
vec_seq(size_t stride, char **ops, size_t nops)
{
	size_t i;

	if (stride == 8)
		VEC_SEQ(int64_t, GET_I64, SET_I64, cmp_i64);
	else if (stride == 24)
		VEC_SEQ(struct big, GET_BIG, SET_BIG, cmp_big);
	else if (stride == 4096)
		VEC_SEQ(struct huge, GET_BIG, SET_BIG, cmp_huge);
	else if (stride == 1)
		VEC_SEQ(struct one, GET_ONE, SET_ONE, cmp_one);
	else if (stride == 3)
		VEC_SEQ(struct three, GET_THREE, SET_THREE, cmp_three);
	else
		printf("BADSTRIDE");
}

static void
buf_seq(size_t init_size, char **ops, size_t nops)
{
	struct buffer *bf;
	struct buffer_getline git;
	size_t i;

	memset(&git, 0, sizeof(git));
	bf = ks_strict ? buffer_alloc_impl(init_size, &(struct buffer_callbacks){
	    .alloc = strict_alloc, .realloc = strict_realloc, .free = strict_free }) : buffer_alloc(init_size);
	if (bf == NULL) {
		printf("A:NULL");
		return;
	}
	printf("A:%zu", buffer_get_size(bf));
	for (i = 0; i < nops; i++) {
		const char *op = ops[i];
		unsigned char *arg;
		size_t len;

		ks_cur_op = (long)i;
		putchar(' ');
		if (is(op, "puts")) {
			arg = arghex(op, &len);
			printf("Z:%d", buffer_puts(bf, (const char *)arg, len));
			free(arg);
		} else if (is(op, "putc")) {
			printf("Z:%d", buffer_putc(bf, (char)argi(op)));
		} else if (is(op, "printf")) {
			/* the formatted output is the argument: "%s" of a C string, split
			 * around a decimal number when it contains one so that a second
			 * conversion takes part */
			arg = arghex(op, &len);
			arg[len] = '\0';
			printf("Z:%d", buffer_printf(bf, "%s", (const char *)arg));
			free(arg);
		} else if (is(op, "printd")) {
			printf("Z:%d", buffer_printf(bf, "%" PRId64 "/%s", argi(op), "x"));
		} else if (is(op, "printi")) {
			printf("Z:%d", buffer_printf(bf, "%d", (int)argi(op)));
		} else if (is(op, "printp")) {
			/* printp:<precision>:<hex>: "%.*s" stops at the precision or at the first NUL */
			const char *c2 = strchr(op, ':');
			c2 = c2 != NULL ? strchr(c2 + 1, ':') : NULL;
			arg = arghex(c2 != NULL ? c2 : ":", &len);
			arg[len] = '\0';
			printf("Z:%d", buffer_printf(bf, "%.*s", (int)argi(op), (const char *)arg));
			free(arg);
		} else if (is(op, "huge")) {
			static const char one = 'x';
			uint64_t n = argu(op);
			/* only lengths that buffer_reserve must refuse (or zero) get here */
			if (n != 0 && n <= (UINT64_C(1) << 63))
				printf("REFUSED");
			else
				printf("Z:%d", buffer_puts(bf, &one, n));
		} else if (is(op, "str")) {
			char *s = buffer_str(bf);
			if (s == NULL) printf("N");
			else { printf("B:"); puthex((unsigned char *)s, strlen(s)); if (ks_strict) strict_release(s); else free(s); }
		} else if (is(op, "reset")) {
			buffer_reset(bf); printf("U");
		} else if (is(op, "pop")) {
			printf("Z:%zu", buffer_pop(bf, argu(op)));
		} else if (is(op, "cmp")) {
			struct buffer *other = buffer_alloc(1);
			int r;
			arg = arghex(op, &len);
			buffer_puts(other, (const char *)arg, len);
			r = buffer_cmp(bf, other);
			printf("Z:%d", r < 0 ? -1 : r > 0);
			buffer_free(other);
			free(arg);
		} else if (is(op, "len")) {
			printf("Z:%zu", buffer_get_len(bf));
		} else if (is(op, "dump")) {
			printf("B:");
			puthex((const unsigned char *)buffer_get_ptr(bf), buffer_get_len(bf));
		} else if (is(op, "gline")) {
			const char *line = buffer_getline(bf, &git);
			if (line == NULL) printf("N");
			else { printf("G:"); puthex((const unsigned char *)line, strlen(line)); }
		} else if (is(op, "lines")) {
			struct buffer_getline it;
			const char *line;
			int first = 1;
			memset(&it, 0, sizeof(it));
			printf("LN:");
			while ((line = buffer_getline(bf, &it)) != NULL) {
				if (!first) putchar(',');
				first = 0;
				puthex((const unsigned char *)line, strlen(line));
			}
		} else {
			printf("BAD");
		}
		printf("@%zu%s", buffer_get_size(bf), ks_oldsize_violation ? "!" : "");
	}
	if (git.bf != NULL)
		buffer_getline_free(&git);
	buffer_free(bf);
}

#ifdef KS_WITH_MAP
static void map_seq(char **toks, size_t ntoks);
#endif

int
main(void)
{
	char *line = NULL;
	size_t cap = 0;
	ssize_t n;

	while ((n = getline(&line, &cap, stdin)) > 0) {
		char **toks;
		size_t ntoks = 0, maxtoks = (size_t)n / 2 + 2;
		char *save = NULL, *t;

		toks = calloc(maxtoks, sizeof(*toks));
		for (t = strtok_r(line, " \n", &save); t != NULL; t = strtok_r(NULL, " \n", &save))
			toks[ntoks++] = t;
		if (ntoks >= 4 && (strcmp(toks[0], "vec") == 0 || strcmp(toks[0], "buf") == 0)) {
			ks_strict = toks[2][0] == 's';
			ks_parse_alloc(toks[2]);
			if (toks[0][0] == 'v')
				vec_seq((size_t)strtoull(toks[1], NULL, 10), toks + 4, ntoks - 4);
			else
				buf_seq((size_t)strtoull(toks[1], NULL, 10), toks + 4, ntoks - 4);
			/* last token: the operation that first met an injected refusal */
			if (ks_first_injected == -2)
				printf(" J:-");
			else
				printf(" J:%ld", ks_first_injected);
		}
#ifdef KS_WITH_MAP
		else if (ntoks >= 3 && strcmp(toks[0], "map") == 0)
			map_seq(toks + 1, ntoks - 1);
#endif
		else
			printf("BAD");
		putchar('\n');
		free(toks);
	}
	free(line);
	return 0;
}

#ifdef KS_WITH_MAP
#include "ks_map.c"
#endif
