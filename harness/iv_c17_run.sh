#!/bin/bash
# Runs the real name generators of <repo>/util.sh under bash (there is no ksh).
# usage: iv_c17_run.sh <repo> bid <root>
#        iv_c17_run.sh <repo> binit <dir>
#        iv_c17_run.sh <repo> logseq <builddir> (<step> <name>)...
#        iv_c17_run.sh <repo> newinv <root>                    build_id; build_init as the entry scripts do
#        iv_c17_run.sh <repo> lockacq <root> <builddir>        lock_acquire
#        iv_c17_run.sh <repo> logenv <builddir> (A <step> <name> | P <kind> <path> | X <path>)...
#   logseq: for every attempt prints the generated log name and then writes the
#   attempt number into that file the way step_exec does (tee truncates).
REPO=$1; op=$2; shift 2
. "${REPO}/util.sh"
case "${op}" in
bid)
	build_id "$1"
	;;
binit)
	build_init "$1"
	echo "rc=$?"
	;;
logseq)
	b=$1; shift
	i=0
	while [ $# -gt 0 ]; do
		id="$(log_id -b "$b" -n "$2" -s "$1")"
		printf '%s\n' "${id}"
		i=$((i + 1))
		printf 'attempt %d\n' "$i" | tee "$b/${id}" >/dev/null
		shift 2
	done
	;;
newinv)
	id="$(build_id "$1")"
	printf '%s\n' "${id}"
	build_init "$1/${id}"
	echo "rc=$?"
	;;
lockacq)
	_PROG=iv; lock_acquire "$1" "$2" >/dev/null 2>&1
	echo "rc=$?"
	;;
logenv)
	b=$1; shift
	i=0
	while [ $# -gt 0 ]; do
		case "$1" in
		A)	id="$(log_id -b "$b" -n "$3" -s "$2")"
			printf '%s\n' "${id}"
			i=$((i + 1))
			printf 'attempt %d\n' "$i" | tee "$b/${id}" >/dev/null
			shift 3;;
		P)	case "$2" in
			D)	mkdir -p "$b/$3";;
			*)	mkdir -p "$(dirname "$b/$3")"
				# created unless something is at that path already (NameNewDefs.lstep LAdd)
				[ -e "$b/$3" ] || [ -L "$b/$3" ] || printf 'put\n' >"$b/$3";;
			esac
			shift 3;;
		X)	rm -rf "${b:?}/$2"
			shift 2;;
		*)	exit 2;;
		esac
	done
	;;
esac
