#!/bin/bash
# Runs the real name generators of <repo>/util.sh under bash (there is no ksh).
# usage: iv_c17_run.sh <repo> bid <root>
#        iv_c17_run.sh <repo> binit <dir>
#        iv_c17_run.sh <repo> logseq <builddir> (<step> <name>)...
#   logseq: for every attempt prints the generated log name and then writes the
#   attempt number into that file the way step_exec does (tee truncates).
REPO=$1; op=$2; shift 2
. "${REPO}/util.sh"
case "${op}" in
bid)
	build_id "$1"
	;;
binit)
	build_init "$1"
	echo "rc=$?"
	;;
logseq)
	b=$1; shift
	i=0
	while [ $# -gt 0 ]; do
		id="$(log_id -b "$b" -n "$2" -s "$1")"
		printf '%s\n' "${id}"
		i=$((i + 1))
		printf 'attempt %d\n' "$i" | tee "$b/${id}" >/dev/null
		shift 2
	done
	;;
esac
