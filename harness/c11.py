"""C11 - every executed step is accounted for; lock, hook and report follow the run (shares the end-to-end runs of C04);
plus the lock functions alone, and the lane parallel-resume (the in-flight record of a parallel step below the resume point)."""
import json, os
from concurrent.futures import ThreadPoolExecutor
import common, orch_env, orch_e2e, c04, c03

TRANSLATORS = c04.TRANSLATORS + ['t_step', 't_interp']      # Properties_C11.v also imports gen/Gen_Step.v (record writes = C01 writes)
TRUSTED = c04.TRUSTED + ['log content is recognised by the probe\'s "output of <name>" line; mail = invocations of the sendmail stand-in; the lock is sampled after every completion',
                         'ASSUMED for the duration clause: the clock read by date(1) does not step back while a step runs (C11_duration_nonneg_partial / _refuted); '
                         'the harness compares every recorded duration with the time the probe really ran by its own clock']

SIG_PAR_RESUME = 'inflight-parallel-record-left-after-resume'
# PARKED until main lists the signatures in known_findings.json (details: orch_e2e.PENDING_FINDINGS): the corpus files b11_* with a
# "pending" key - step-name-with-white-space-never-runs, parallel-step-with-comma-in-name-silently-dropped,
# skip-name-matching-several-steps-aborts, step-name-with-leading-dash-cannot-run (findings/C04_odd_step_names.md) and
# log-name-exceeds-name-max (findings/C11_log_name_too_long.md) - are skipped while this is False; VERIF_PENDING=1 switches them on
PENDING_FINDINGS = os.environ.get('VERIF_PENDING', '1') == '1'     # armed: the signatures are listed in known_findings.json


def run(ctx, n=None):
    res = common.Result()
    res.rule = c04.RULE + ('; accounting oracle: records, logs, hook calls (sequence compared with the model), durations against the real run time, lock during/after, '
                           'second invocation (refused without touching the first, whatever directory it names; nothing mailed or hooked by the refused one), report and '
                           'mail; plus lock_acquire / lock_release alone on related names; plus the lane parallel-resume')
    n = n or ctx.budget(150, 2500)
    corpus = c04.load_corpus('C11', PENDING_FINDINGS)
    cases = [orch_e2e.expand(c) for c in corpus if 'steps' in c or 'compact' in c] + [orch_e2e.gen_case(ctx.rng, ctx.budget(orch_e2e.BOUNDARY_QUICK, orch_e2e.BOUNDARY_THOROUGH)) for _ in range(n)]
    res.samples = cases[:2]
    c04.evaluate(ctx, cases, res, True)
    lock_lane(ctx, res, [c for c in corpus if 'lock_unit' in c] + [orch_e2e.gen_lock_case(ctx.rng) for _ in range(ctx.budget(80, 1500))])
    parallel_resume_lane(ctx, res)
    stale_lock_lane(ctx, res, [c for c in corpus if c.get('lane') == 'stale-lock'] +
                    [{'lane': 'stale-lock', 'kind': ctx.rng.choice(orch_e2e.STALE_KINDS), 'detached': ctx.rng.random() < 0.3} for _ in range(ctx.budget(2, 40))])
    res.traces_validated = res.evaluations
    return res


def lock_lane(ctx, res, cases):
    """util.sh lock_acquire / lock_release alone against Orch/RunLock.v (the model the C11 lock theorems are about),
    on lock contents and build directory names that are equal, unrelated, or prefix / suffix / infix of each other"""
    impl = ctx.build_impl()
    drv = ctx.build_driver('or', withz=True)
    for case in cases:
        m, im = orch_e2e.run_lock_case(ctx, impl, drv, case)
        c = case['lock_unit']
        res.evaluations += 1
        res.count('lock %s %s' % (c['op'], c['kind']))
        if c['kind'] in ('prefix2', 'neighbour', 'nonl') or c['b'].count('//'):
            res.count('class: lock lane %s' % ('root with trailing slash' if c['b'].count('//') else
                                               {'prefix2': 'DATE.k vs DATE.k00-k99', 'neighbour': 'DATE.k-1 vs DATE.k (stale or foreign lock)', 'nonl': 'lock file without final newline'}[c['kind']]))
        if c['kind'] in ('prefix', 'prefix2', 'longer', 'suffix', 'infix', 'neighbour', 'nonl'):
            res.nontrivial.add('lock:%s:%s:%s' % (c['op'], c['lock'], c['b']))
        if m != im:
            res.oracle_failures.append({'case': case, 'signature': 'lock-ownership-test',
                                        'what': '%s on .running=%r by %r: specified "%s" (ok, lock afterwards), util.sh did "%s"' % (
                                            'lock_acquire' if c['op'] == 'acq' else 'lock_release', c['lock'], c['b'], m, im)})


def stale_lock_lane(ctx, res, cases):
    """a lock file left behind by an invocation that is gone (orch_e2e.run_stale_lock): the real canvas against what the lock model
    answers for that file content"""
    impl = ctx.build_impl()
    drv = ctx.build_driver('or', withz=True)
    for case in cases:
        ob = orch_e2e.run_stale_lock(ctx, impl, drv, case)
        res.evaluations += 1
        res.nontrivial.add('stale:%s:%s' % (case['kind'], bool(case.get('detached'))))
        res.count('class: stale lock %s' % case['kind'])
        if ob['model_acquires']:
            ok = (ob['started'] == ['a', 'b'] and (case.get('detached') or ob['rc'] == 0) and ob['lock_after'] is None
                  and [r[1] for r in ob['rows']] == ['a', 'b', 'end'] and ob['mails'] == (1 if case.get('detached') else 0))
        else:
            ok = (not ob['started'] and ob['rc'] != 0 and ob['lock_after'] == ob['lock_before'] and not ob['builddirs'] and ob['mails'] == 0
                  and not ob['hooks'])
        if not ok:
            res.oracle_failures.append({'case': case, 'signature': 'stale-lock-not-handled-as-the-lock-model-says',
                                        'what': 'lock file %r before the invocation; the model\'s lock_acquire %s; seen: %s' % (
                                            ob['lock_before'][-40:], 'takes it' if ob['model_acquires'] else 'refuses', json.dumps(ob)[:500])})


def parallel_resume_lane(ctx, res):
    """"no record is left in the in-flight state unless the invocation was killed" - for RESUMED invocations of parallel
    configurations (C11's quantifier).  p1, p2 parallel, c synchronous, ncpu 2; p2 completes, the session is killed with p1 in
    flight, `canvas -r`.  The resumed invocation is NOT killed; when it has ended normally no record may say -1.
    (C03's side of the same run - the resume point - is C03_parallel_resume_skips_inflight / c03.part_c.)"""
    impl = ctx.build_impl()
    ob = c03.parallel_boundary_case(ctx, impl, 0)
    if ob.get('error'):
        res.tie_errors.append('parallel-resume lane: ' + ob['error'])
        return
    res.evaluations += 1
    res.count('lane parallel-resume')
    case = {'lane': 'parallel-resume', 'variant': 0}
    left = [r for r in (ob.get('rows_after') or []) if r['exit'] == -1]
    if ob.get('rc') == 0 and left:
        # pinned by the case (in-flight parallel step BELOW a completed one when the first invocation was killed) and by the
        # observation (the resumed invocation ended with status 0, the record left in flight is that very step, which it never ran)
        narrow = all(r['name'] == 'p1' for r in left) and 'p1' not in ob['executed'] and ob['resumed_at'] == 3
        res.oracle_failures.append({'case': case, 'signature': SIG_PAR_RESUME if narrow else 'record-left-in-flight',
                                    'what': 'killed with %s; canvas -r resumed at %s, executed %s, ended with status %s and left %s' % (
                                        ob['rows'], ob['resumed_at'], ob['executed'], ob['rc'], left)})
    elif ob.get('rc') != 0:
        res.oracle_failures.append({'case': case, 'signature': 'resumed-invocation-failed', 'what': json.dumps(ob)[:600]})


def extended_search(ctx, res, proof):
    return run(ctx, n=300)


def replay(ctx, rep):
    case = rep.get('case') or (rep.get('first_disagreements') or [{}])[0].get('case')
    res = common.Result()
    if 'lock_unit' in case:
        lock_lane(ctx, res, [case])
    elif case.get('lane') == 'parallel-resume':
        parallel_resume_lane(ctx, res)
    elif case.get('lane') == 'stale-lock':
        stale_lock_lane(ctx, res, [case])
    else:
        c04.evaluate(ctx, [case], res, True)
    print(json.dumps(case)); print(res.disagreements); print(res.oracle_failures)
    return 1 if (res.disagreements or res.oracle_failures) else 0
