"""C11 - every executed step is accounted for; lock, hook and report follow the run (shares the end-to-end runs of C04)."""
import json
import common, orch_env, orch_e2e, c04

TRANSLATORS = []
TRUSTED = c04.TRUSTED + ['log content is recognised by the probe\'s "output of <name>" line; mail = invocations of the sendmail stand-in; the lock is sampled after every completion']


def run(ctx, n=None):
    res = common.Result()
    res.rule = c04.RULE + '; accounting oracle: records, logs, hook calls, lock during/after, second invocation, report and mail'
    n = n or ctx.budget(150, 2500)
    cases = c04.load_corpus('C11') + [orch_e2e.gen_case(ctx.rng) for _ in range(n)]
    res.samples = cases[:2]
    c04.evaluate(ctx, cases, res, True)
    res.traces_validated = res.evaluations
    return res


def extended_search(ctx, res, proof):
    return run(ctx, n=300)


def replay(ctx, rep):
    case = rep.get('case') or (rep.get('first_disagreements') or [{}])[0].get('case')
    res = common.Result()
    c04.evaluate(ctx, [case], res, True)
    print(json.dumps(case)); print(res.disagreements); print(res.oracle_failures)
    return 1 if (res.disagreements or res.oracle_failures) else 0
