"""C11 - every executed step is accounted for; lock, hook and report follow the run (shares the end-to-end runs of C04)."""
import json
import common, orch_env, orch_e2e, c04

TRANSLATORS = c04.TRANSLATORS
TRUSTED = c04.TRUSTED + ['log content is recognised by the probe\'s "output of <name>" line; mail = invocations of the sendmail stand-in; the lock is sampled after every completion']


def run(ctx, n=None):
    res = common.Result()
    res.rule = c04.RULE + '; accounting oracle: records, logs, hook calls (sequence compared with the model), lock during/after, second invocation, report and mail; plus lock_acquire / lock_release alone on related names'
    n = n or ctx.budget(150, 2500)
    corpus = c04.load_corpus('C11')
    cases = [c for c in corpus if 'steps' in c] + [orch_e2e.gen_case(ctx.rng) for _ in range(n)]
    res.samples = cases[:2]
    c04.evaluate(ctx, cases, res, True)
    lock_lane(ctx, res, [c for c in corpus if 'lock_unit' in c] + [orch_e2e.gen_lock_case(ctx.rng) for _ in range(ctx.budget(80, 1500))])
    res.traces_validated = res.evaluations
    return res


def lock_lane(ctx, res, cases):
    """util.sh lock_acquire / lock_release alone against Orch/RunLock.v (the model the C11 lock theorems are about),
    on lock contents and build directory names that are equal, unrelated, or prefix / suffix / infix of each other"""
    impl = ctx.build_impl()
    drv = ctx.build_driver('or', withz=True)
    for case in cases:
        m, im = orch_e2e.run_lock_case(ctx, impl, drv, case)
        c = case['lock_unit']
        res.evaluations += 1
        res.count('lock %s %s' % (c['op'], c['kind']))
        if c['kind'] in ('prefix', 'longer', 'suffix', 'infix'):
            res.nontrivial.add('lock:%s:%s:%s' % (c['op'], c['lock'], c['b']))
        if m != im:
            res.oracle_failures.append({'case': case, 'signature': 'lock-ownership-test',
                                        'what': '%s on .running=%r by %r: specified "%s" (ok, lock afterwards), util.sh did "%s"' % (
                                            'lock_acquire' if c['op'] == 'acq' else 'lock_release', c['lock'], c['b'], m, im)})


def extended_search(ctx, res, proof):
    return run(ctx, n=300)


def replay(ctx, rep):
    case = rep.get('case') or (rep.get('first_disagreements') or [{}])[0].get('case')
    res = common.Result()
    if 'lock_unit' in case:
        lock_lane(ctx, res, [case])
    else:
        c04.evaluate(ctx, [case], res, True)
    print(json.dumps(case)); print(res.disagreements); print(res.oracle_failures)
    return 1 if (res.disagreements or res.oracle_failures) else 0
