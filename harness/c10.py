"""C10 - the step schedule: model vs `robsd-step -L [-o k]` and vs `robsd-exec` on every listed name; the
extracted specification oracle (Conf/SchedSpec.v) applied to what robsd-step printed.

A case is a configuration of one mode (grammar-derived as in C08, weighted towards robsd-regress with any mix of
no-parallel options and the global switch, and canvas step lists; some corrupted ones to keep the rejecting path
covered).  For every case: the full listing, listings from several offsets (all of 1..N+1 in the thorough tier),
offsets 0 and beyond INT_MAX; every distinct listed name is then handed to robsd-exec (EXECDIR = a directory of
stub scripts) and its output compared with running the argv the model resolves."""
import hashlib, json, glob, os, re, subprocess
from concurrent.futures import ThreadPoolExecutor
import common
from common import hexs
import conf_common as cc
import conf_gen

TRANSLATORS = ['t_interp', 't_conf']
TRUSTED = ['translator t_conf.py: step tables, argv template, the ${regress} placeholder, and a textual comparison of '
           'config_robsd_regress_get_steps / is_parallel / config_default_get_steps / the listing loop of steps_list with the transcribed form',
           'the configuration model and its environment handling are those of C08 (harness/conf_common.py)',
           'robsd-exec is observed against stub scripts (EXECDIR) and, for canvas steps, against running the resolved argv directly; '
           'fork/setsid/execvp/waitpid are not modelled here (C06, C07)',
           'the oracle is told what was configured by the generator (test paths with their no-parallel options, the global switch, '
           'canvas steps with their parallel option), in configuration order']


def unq(t):
    return t[1:-1]


REGRESS_FIXED = [b'env', b'pkg-add', b'cvs', b'patch', b'obj', b'mount', b'umount', b'revert', b'pkg-del', b'dmesg', b'end']


def configured(mode, ents):
    """what the generator configured, for the oracle: (name, runs in parallel) in order, and the global switch;
    for canvas also the command of every step (the last one given), as written"""
    gpar = True
    cfgd, cmds = [], []
    nopar = {unq(e[1]) for e in ents if mode == 'robsd-regress' and e[0] == b'regress' and b'no-parallel' in e[2:]}
    for e in ents:
        if mode == 'robsd-regress' and e[0] == b'parallel' and len(e) > 1:
            gpar = e[1] == b'yes'
        if mode == 'robsd-regress' and e[0] == b'regress':
            cfgd.append((unq(e[1]), unq(e[1]) not in nopar))      # the option belongs to the test (its path), wherever it is given
        if mode == 'canvas' and e[0] == b'step':
            cfgd.append((unq(e[1]), b'parallel' in e[2:]))
            cmd, k = [], 2
            while k < len(e):
                if e[k] == b'command' and k + 1 < len(e) and e[k + 1] == b'{':
                    end = e.index(b'}', k)
                    cmd = [unq(t) for t in e[k + 2:end]]
                    k = end
                k += 1
            cmds.append(b'\0'.join(cmd))
    return gpar, cfgd, cmds


FIXED = {'robsd-regress': ([b'env', b'pkg-add', b'cvs', b'patch', b'obj', b'mount'], [b'umount', b'revert', b'pkg-del', b'dmesg', b'end']),
         'canvas': ([], [b'end'])}
WS = re.compile(rb'[ \t\n\r\x0b\x0c]')


def expected_positions(case):
    """the schedule the property text demands for the configured entries, written here from the manual pages and the
    property (NOT from the model): [(name, what it runs)] - fixed steps up to mount, the tests that run in parallel in
    configuration order, the others in configuration order, the fixed rest; canvas: the steps as written, then end.
    "what it runs" identifies the command: ('fixed', name) / ('test', path) / ('step', command as written)."""
    mode = case['mode']
    if mode not in FIXED or 'cfgd' not in case:
        return None
    cf = [(bytes.fromhex(n), p) for n, p in case['cfgd']]
    pre, post = FIXED[mode]
    if mode == 'robsd-regress':
        if case.get('gpar', True):
            mid = [n for n, p in cf if p] + [n for n, p in cf if not p]
        else:
            mid = [n for n, p in cf]
        return [(n, ('fixed', n)) for n in pre] + [(n, ('test', n)) for n in mid] + [(n, ('fixed', n)) for n in post]
    cmds = case.get('cmds')
    return [(n, ('step', cmds[i] if cmds else '#%d' % i)) for i, (n, _) in enumerate(cf)] + [(n, ('fixed', n)) for n in post]


def unreachable_positions(case):
    """PREDICATE ON THE CASE for the known finding listed-step-unreachable: positions (0-based) whose name occurs EARLIER
    in the same schedule on a step that runs something else - the runner takes the first step of a name, so no argument
    makes it execute this position.  (The same test path written twice, or robsd's second env, runs the same command
    and is not in the class.)"""
    pos = expected_positions(case)
    out = []
    for i, (n, what) in enumerate(pos or []):
        if any(m == n and w != what for m, w in pos[:i]):
            out.append((i, n))
    return out


def whitespace_names(case):
    """PREDICATE ON THE CASE for the known finding listing-name-with-white-space: configured names holding a blank, a tab
    or a newline"""
    if 'cfgd' in case:
        names = [bytes.fromhex(nm) for nm, _ in case['cfgd']]
    else:
        # cases generated without the list of configured entries (corruptions that are still accepted): the quoted word
        # after every step / regress keyword of the text
        names = re.findall(rb'(?:step|regress)[ \t\n\r\x0b\x0c]*"([^"]*)"', bytes.fromhex(case.get('text', '')))
    return [nm for nm in names if WS.search(nm)]


def not_resolvable_signature(case, name):
    """a name taken from a listing line that robsd-exec does not find: when it is the first word(s) of a configured name
    holding white space, the line was cut where the format cuts it - the known finding; anything else is its own failure"""
    for full in whitespace_names(case):
        words = WS.split(full)
        if any(name == b' '.join(words[:k]) or name == words[0] for k in range(1, len(words))):
            return 'listing-name-with-white-space'
    return 'listed-step-not-resolvable'


P_BOUNDARY = 0.15
BOUNDARY_FOR_SCHEDULE = ['regress-count', 'step-count', 'step-args-count', 'path-len', 'step-name-len', 'name-family', 'string-len', 'list-count',
                         'option-list-count', 'file-size', 'file-shape', 'int-boundary']


def boundary_case(mode, b):
    case = {'mode': mode, 'kind': 'boundary' if b['valid'] else 'boundary-error', 'execdir': b'@R@/exec'.hex(), 'bclass': b['label'],
            'text': b['text'].hex()}
    if b.get('literal'):
        case['literal_cmds'] = True
    if b['valid']:
        gpar, cfgd, cmds = configured(mode, b['ents'])
        case['gpar'] = gpar
        case['cfgd'] = [[n.hex(), p] for n, p in cfgd]
        if mode == 'canvas':
            case['cmds'] = [c.hex() for c in cmds]
    return case


def gen_case(rng, g, big=False):
    mode = rng.choice(['robsd', 'robsd-cross', 'robsd-ports', 'robsd-regress', 'robsd-regress', 'robsd-regress', 'canvas', 'canvas'])
    ents, st = g.entries(mode, popt=rng.choice([0.1, 0.3]))
    if mode == 'canvas' and rng.random() < 0.35:
        # long step lists: the step vector grows at 16, 32, 64 entries (the synthetic "end" is added to it after the parse)
        want = rng.choice([14, 15, 16, 17, 18, 30, 31, 32, 33, 34, 63, 64, 65])
        have = [i for i, e in enumerate(ents) if e[0] == b'step']
        at = (have[-1] + 1) if have else len(ents)
        for _ in range(max(0, want - len(have))):
            ents.insert(at, [b'step'] + g.step_entry(st))
    case = {'mode': mode, 'kind': 'valid', 'execdir': b'@R@/exec'.hex()}
    if rng.random() < P_BOUNDARY:
        # one size / count / name-family / file-shape boundary class of conf_gen.Gen.boundary that reaches the schedule
        avail = [c for c in BOUNDARY_FOR_SCHEDULE if c not in conf_gen.BOUNDARY_MODES or mode in conf_gen.BOUNDARY_MODES[c]]
        # (the model answers a dozen questions per case and needs 0.5 s each at 4 KiB: long strings are rare in the quick tier)
        b = g.boundary(mode, ents, st, want=rng.choice(avail), big=big, cap=None if big else (4097 if rng.random() < 0.12 else 1025))
        return boundary_case(mode, b)
    if mode == 'canvas' and rng.random() < 0.3:
        # name families (one name a prefix of another, any order) with literal commands that print the position of the
        # step in the configuration: the runner must execute the step that carries exactly the listed name
        fam = rng.choice([[b'build', b'build-all', b'b', b'build-all-x'], [b'lint', b'li', b'lint2', b'l'], [b'en', b'end-x', b'e', b'x']])
        k = 0
        for e in ents:
            if e[0] == b'step':
                k += 1
                par = [b'parallel'] if b'parallel' in e[2:] else []
                e[1:] = [conf_gen.q(rng.choice(fam))] + par + [b'command', b'{', conf_gen.q(b'echo'), conf_gen.q(b'STEP%d' % k), b'}']
        case['literal_cmds'] = True
    if mode == 'robsd-regress' and rng.random() < 0.10:
        # a test named like a fixed step: the runner addresses steps by name, first match
        for e in ents:
            if e[0] == b'regress' and rng.random() < 0.5:
                e[1] = conf_gen.q(rng.choice([b'umount', b'env', b'end', b'mount', b'dmesg', b'cvs']))
                break
    if mode in ('robsd-regress', 'canvas') and rng.random() < 0.06:
        # white space in a name: the listing is read back word by word by the orchestrator
        for e in ents:
            if e[0] in (b'regress', b'step') and rng.random() < 0.5:
                e[1] = conf_gen.q(rng.choice([b'a b', b'c parallel', b'x\n7 y', b'tab\tname']))
                break
    r = rng.random()
    if r < 0.12:
        case['kind'], text = g.corrupt(mode, ents, st)
    else:
        if r < 0.22:
            # ACCEPTED CONFIGURATIONS WITHOUT A SCHEDULE (or with one that needs a look at the environment): a command of
            # the schedule that does not interpolate makes config_get_steps fail - robsd-step -L must print nothing and
            # exit 1 (SchedDefs.L_steps_failed, C10_listing_exists_iff).  `certain` = the token cannot render whatever
            # the environment: the expectation "no schedule" is then known from the case alone.
            certain = [b'${nope}', b'$', b'a${', b'${}', b'$x', b'x${nope}y']
            maybe = [b'${builddir}', b'x${rdomain}', b'${tmp-dir}', b'${robsddir}/e']
            tok = rng.choice(certain) if rng.random() < 0.75 else rng.choice(maybe)
            # (canvas takes no script from ${exec-dir}: its end step runs /dev/null)
            where = 'entry' if mode == 'canvas' else rng.choice(['execdir', 'entry', 'entry'] if mode == 'robsd-regress' else ['execdir'])
            if where == 'entry':
                es = [e for e in ents if e[0] in (b'regress', b'step')]
                e = rng.choice(es)
                if e[0] == b'regress':
                    e[1] = conf_gen.q(rng.choice([b'', b'bin/']) + tok)           # the test path is an argument of its command
                else:
                    k = len(e) - 1 - e[::-1].index(b'command')                     # the last command given is the one in force
                    e.insert(k + 2, conf_gen.q(tok))                               # one more argument of the step's command
            else:
                case['execdir'] = (rng.choice([b'@R@/exec/', b'/']) + tok).hex()   # every script path starts with ${exec-dir}
            if tok in certain:
                case['noschedule'] = '%s in %s' % (tok.decode(), where)
        text = g.render(ents, plain=rng.random() < 0.3)
        gpar, cfgd, cmds = configured(mode, ents)
        case['gpar'] = gpar
        case['cfgd'] = [[n.hex(), p] for n, p in cfgd]
        if mode == 'canvas':
            case['cmds'] = [c.hex() for c in cmds]
    case['text'] = text.hex()
    return case


def parse_listing(out):
    lines = []
    for l in out.split(b'\n')[:-1] if out.endswith(b'\n') else out.split(b'\n'):
        m = re.fullmatch(rb'(\d+) (.*?)( parallel)?', l, re.S)
        if not m:
            return None
        lines.append((int(m.group(1)), m.group(2), bool(m.group(3))))
    return lines


def parse_listing_guided(out, names):
    """for configurations whose names hold white space: split the listing into (number, name, flag) knowing the SET of
    names that can occur (configured ones and the fixed ones) - not their order, which is what the oracle judges.  None
    when the bytes are no sequence of lines "<number> <one of the names>[ parallel]"."""
    names = sorted(set(names), key=len, reverse=True)

    def rec(p, depth):
        if p == len(out):
            return []
        m = re.match(rb'(\d+) ', out[p:p + 24])
        if not m or depth > 400:
            return None
        q_ = p + m.end()
        for n in names:
            if out.startswith(n, q_):
                for par in (b' parallel', b''):
                    if out.startswith(par + b'\n', q_ + len(n)):
                        r = rec(q_ + len(n) + len(par) + 1, depth + 1)
                        if r is not None:
                            return [(int(m.group(1)), n, bool(par))] + r
        return None
    return rec(0, 0)


def parser_for(case):
    ws = whitespace_names(case)
    if not ws:
        return parse_listing
    pre, post = FIXED.get(case['mode'], ([], []))
    names = [bytes.fromhex(nm) for nm, _ in case.get('cfgd', [])] + pre + post
    return lambda out: parse_listing_guided(out, names)


def run_list(world, case, conf, off):
    args = [os.path.join(world.impl, 'robsd-step'), '-L', '-m', case['mode'], '-C', conf]
    if off is not None:
        args += ['-o', off]
    try:
        r = subprocess.run(args, stdin=subprocess.DEVNULL, stdout=subprocess.PIPE, stderr=subprocess.PIPE, timeout=20, env=cc.impl_env(world, case))
        return (r.returncode, r.stdout, r.stderr)
    except subprocess.TimeoutExpired:
        return (-999, b'', b'timeout')


def run_exec(world, case, conf, name, trace):
    args = [os.path.join(world.impl, 'robsd-exec'), '-m', case['mode'], '-C', conf] + (['-x'] if trace else []) + [name]
    try:
        r = subprocess.run(args, stdin=subprocess.DEVNULL, stdout=subprocess.PIPE, stderr=subprocess.PIPE, timeout=6, env=cc.impl_env(world, case), cwd=world.dir)
        return (r.returncode, r.stdout, r.stderr)
    except subprocess.TimeoutExpired:
        return (-999, b'', b'timeout')


def classify_list(rc, out, err, accepted=True):
    if rc == 0:
        return 'ok ' + hexs(out)
    m = re.fullmatch(rb'robsd-step: offset (\S*) (too small|too large|invalid)\n', err)
    if m and not (m.group(2) == b'too large' and m.group(1).isdigit() and int(m.group(1)) <= 2147483647):
        return 'invalid'          # refused by strtonum(optarg, 1, INT_MAX) before the configuration is read
    if not accepted:
        return 'rejected'
    if m:
        return 'toolarge'
    if b'invalid substitution' in err:
        return 'stepsfail'
    return 'other:' + hexs(err[:80])


def make_stubs(world):
    d = os.path.join(world.dir, 'exec')
    for p in glob.glob(os.path.join(common.REPO, 'robsd-*.sh')):
        open(os.path.join(d, os.path.basename(p)), 'w').write('echo "stub ${0##*/} $*"\nexit 0\n')


def per_case(world, case, offsets_all):
    conf = cc.write_case_files(world, case)
    full = run_list(world, case, conf, None)
    obs = {'conf': conf, 'lists': [(None, full)], 'execs': []}
    # is the configuration itself accepted?  (a path-less "invalid substitution" can come from either stage)
    obs['accepted'] = cc.run_config(world, dict(case, vars=[]), conf, b'')[0] == 0
    parse = parser_for(case)
    lines = parse(full[1]) if full[0] == 0 else None
    obs['lines'] = lines
    n = len(lines) if lines else 3
    if offsets_all:
        offs = list(range(1, n + 3))
    else:
        offs = sorted(set([1, 2, max(1, n // 2), max(1, n - 1), n, n + 1, n + 4]))
    # strtonum(optarg, 1, INT_MAX): values 2^31 / 2^32 / 2^64 above a valid offset (a narrowed parse wraps them onto 1), leading zeros, a sign
    offs = [str(o).encode() for o in offs] + [b'0', b'4294967296', b'2147483647', b'x', b'-1', b'2147483648', b'4294967297', b'2147483649',
                                              b'9223372036854775808', b'18446744073709551617', b'01', b'+1', b'1x', b'']
    for o in offs:
        obs['lists'].append((o, run_list(world, case, conf, o)))
    if lines:
        seen = []
        for _, name, _ in lines:
            if name not in seen and b'\0' not in name:
                seen.append(name)
        if len(seen) > 17:
            # the first ones, the last ones and the positions next to the growth steps of the step vector (16, 32, 64, 256 entries)
            keep = sorted(set(range(14)) | {k for k in (15, 16, 17, 31, 32, 33, 63, 64, 65, 255, 256) if k < len(seen)} | set(range(len(seen) - 3, len(seen))))
            seen = [seen[k] for k in keep]
        for i, name in enumerate(seen):
            tr = (i % 5 == 4)
            obs['execs'].append((name, tr, run_exec(world, case, conf, name, tr)))
    return obs


def expected_exec(world, case, argv):
    try:
        r = subprocess.run(argv, stdin=subprocess.DEVNULL, stdout=subprocess.PIPE, stderr=subprocess.PIPE, timeout=6, env=cc.impl_env(world, case), cwd=world.dir)
        return (r.returncode if r.returncode >= 0 else 128 - r.returncode, r.stdout)
    except (FileNotFoundError, PermissionError, NotADirectoryError, OSError):
        return (1, b'')
    except subprocess.TimeoutExpired:
        return (-999, b'')


def evaluate(ctx, cases, res, world=None, offsets_all=False):
    if world is None:
        impl = ctx.build_impl()
        world = cc.World(ctx, impl)
        make_stubs(world)
    drv = cc.unlimited_stack(ctx, ctx.build_driver('cf', withz=True))
    with ThreadPoolExecutor(16) as ex:
        allobs = list(ex.map(lambda c: per_case(world, c, offsets_all), cases))
    questions = []
    for ci, ob in enumerate(allobs):
        text = hexs(world.sub(bytes.fromhex(cases[ci]['text'])))
        for off, _ in ob['lists']:
            questions.append((ci, ['listv', cases[ci]['mode'], text, '!' if off is None else hexs(off)]))
        for name, tr, _ in ob['execs']:
            questions.append((ci, ['resolve', cases[ci]['mode'], text, '1' if tr else '0', hexs(name)]))
    answers, _ = cc.driver_rounds(world, drv, questions, cases, lambda pre, env: ' '.join(pre + env))
    # run every resolved argv directly, in parallel
    jobs = []
    for (ci, q), a in zip(questions, answers):
        if q[0] == 'resolve' and a.startswith('cmd ') and a.split()[1] != '0':
            jobs.append((ci, a))
    with ThreadPoolExecutor(16) as ex:
        exp = dict(zip([(ci, a) for ci, a in jobs],
                       ex.map(lambda j: expected_exec(world, cases[j[0]], [common.unhex(x) for x in j[1].split()[2:]]), jobs)))
    qi = 0
    specq, specmeta = [], []
    for ci, ob in enumerate(allobs):
        case = cases[ci]
        res.evaluations += 1
        fullrc = ob['lists'][0][1][0]
        res.count('%s %s' % (case['mode'], 'listed' if fullrc == 0 else 'not listed'))
        if case.get('bclass'):
            res.count('class: ' + case['bclass'])
        if ob['lines'] and len(ob['lines']) > 1 and (case['mode'] in ('robsd-regress', 'canvas')):
            res.nontrivial.add(hashlib.sha1((case['mode'] + case['text']).encode()).hexdigest())

        def dis(kind, model, impl, extra=None):
            res.disagreements.append({'case': case, 'what': kind, 'model': model[:300], 'impl': impl[:300], 'extra': extra})
        for off, (rc, out, err) in ob['lists']:
            impl_s = classify_list(rc, out, err, ob['accepted'])
            res.traces_validated += 1
            if answers[qi] != impl_s:
                dis('listing offset %r' % off, answers[qi], impl_s, err[-200:].decode('latin1'))
            if rc not in (0, 1):
                res.oracle_failures.append({'case': case, 'signature': 'abnormal-termination', 'what': 'robsd-step -L terminated with status %d' % rc})
            qi += 1
        for name, tr, (rc, out, err) in ob['execs']:
            res.traces_validated += 1
            a = answers[qi].split()
            qi += 1
            res.count('exec')
            if a[0] == 'none':
                if not (not_resolvable_signature(case, name) == 'listing-name-with-white-space' and b'step script not found' in err):
                    # (a name cut out of a line at a blank is not a listed name: model and runner agree that it is unknown)
                    dis('resolve %r' % name, 'none', 'rc=%d' % rc)
                if b'step script not found' in err:
                    res.oracle_failures.append({'case': case, 'signature': not_resolvable_signature(case, name),
                                                'what': 'robsd-step -L lists %r but robsd-exec does not find it' % name})
                continue
            if b'step script not found' in err:
                res.oracle_failures.append({'case': case, 'signature': not_resolvable_signature(case, name),
                                            'what': 'robsd-step -L lists %r but robsd-exec does not find it' % name})
            # independent of the model: the stub scripts print their arguments (the last one is the step name), the
            # literal canvas commands print the position of their step
            want = None
            if out.startswith(b'stub ') and rc == 0 and b'\n' not in name and b'$' not in name:
                # (a name with a reference reaches the script rendered, like every other argument: C06)
                want = name
                got = out[:-1].split(b' ', 2)[2] if out.count(b' ') >= 2 else b''
            elif case.get('literal_cmds') and 'cfgd' in case and rc == 0 and out.startswith(b'STEP'):
                first = [i + 1 for i, (nm, _) in enumerate(case['cfgd']) if bytes.fromhex(nm) == name]
                if first:
                    want, got = b'STEP%d' % first[0], out.strip()
            if want is not None and got != want:
                res.oracle_failures.append({'case': case, 'signature': 'runner-executes-another-step',
                                            'what': 'robsd-exec %r ran the step identified by %r, not the first step with exactly the listed name (%r)' % (name, got, want)})
            if rc < 0:
                res.oracle_failures.append({'case': case, 'signature': 'runner-died', 'what': 'robsd-exec %r terminated with status %d' % (name, rc)})
            argv = [common.unhex(x) for x in a[2:]]
            if not argv:
                # resolved, but nothing left to execute.  Since /repo 8e76449 step_exec refuses the empty vector with a
                # diagnostic (theorem C10_listed_empty_command_refused: status 1, nothing forked); before, the forked child
                # called execvp(NULL, ...) and died (139 on glibc).  Anything but the refusal is the old finding.
                res.count('listed step with an empty command')
                if not (rc == 1 and out == b'' and err.endswith(b': empty step command\n')):
                    res.oracle_failures.append({'case': case, 'signature': 'listed-step-empty-command',
                                                'what': 'step %r is listed and resolves to an empty command (all arguments interpolate to nothing); '
                                                        'robsd-exec exits %d with %r instead of refusing it ("empty step command", status 1)'
                                                        % (name, rc, err[-80:])})
                    dis('exec %r' % name, 'rc=1 empty step command', 'rc=%d %r' % (rc, err[-80:]))
                continue
            erc, eout = exp[(ci, answers[qi - 1])]
            if (erc, eout) != (rc, out) and not (erc != 0 and rc != 0 and eout == out):
                dis('exec %r trace=%s' % (name, tr), 'rc=%d out=%r argv=%r' % (erc, eout[:80], argv), 'rc=%d out=%r' % (rc, out[:80]), err[-200:].decode('latin1'))
        # oracle on the implementation's listings
        lines = ob['lines']
        parse = parser_for(case)
        full_out = ob['lists'][0][1][1]
        # ---- accepted configurations without a schedule (known from the case alone: a command cannot render)
        if case.get('noschedule') and ob['accepted']:
            res.count('accepted, no schedule: ' + case['noschedule'].split(' in ')[1])
            res.nontrivial.add(hashlib.sha1((case['mode'] + case['text'] + case.get('execdir', '')).encode()).hexdigest())
            for off, (rc, out, err) in ob['lists']:
                if off is not None and classify_list(rc, out, err, True) == 'invalid':
                    continue
                if rc == 0 or out != b'' or b'invalid substitution' not in err:
                    res.oracle_failures.append({'case': case, 'signature': 'listed-although-a-command-does-not-render',
                                                'what': 'a command of the schedule cannot be interpolated (%s), yet robsd-step -L%s exits %d and prints %r'
                                                        % (case['noschedule'], '' if off is None else ' -o ' + off.decode('latin1'), rc, out[:60])})
                    break
        elif fullrc != 0 and ob['accepted']:
            res.count('accepted, no schedule (decided by the environment)')
            if full_out != b'':
                res.oracle_failures.append({'case': case, 'signature': 'partial-listing-on-failure',
                                            'what': 'robsd-step -L exits %d and still prints %r' % (fullrc, full_out[:60])})
        # ---- KNOWN FINDING listing-name-with-white-space, by a predicate on the CASE
        wsnames = whitespace_names(case)
        if fullrc == 0 and wsnames and lines and any(nm == wsnames[0] for _, nm, _ in lines):
            # "<number> <name>[ parallel]" does not determine the step: util.sh reads the line back with
            # `read -r _step _name _parallel`
            n0 = wsnames[0]
            res.oracle_failures.append({'case': case, 'signature': 'listing-name-with-white-space',
                                        'what': 'the accepted configuration lists a step named %r; the line format "N name[ parallel]" of robsd-step -L '
                                                'is read back word by word (name %r)' % (n0, n0.split()[0] if n0.split() else b'')})
        # ---- KNOWN FINDING listed-step-unreachable, by a predicate on the CASE
        unreach = unreachable_positions(case) if fullrc == 0 else []
        if unreach and lines:
            i0, n0 = unreach[0]
            listed = [nm for _, nm, _ in lines]
            first = listed.index(n0) if n0 in listed else -1
            if 0 <= first < i0 < len(listed) and listed[i0] == n0:
                res.oracle_failures.append({'case': case, 'signature': 'listed-step-unreachable',
                                            'what': 'step %d of the listing is called %r like step %d, which runs something else: robsd-step -L '
                                                    'lists both, robsd-exec runs step %d for that name' % (i0 + 1, n0, first + 1, first + 1)})
            else:
                res.oracle_failures.append({'case': case, 'signature': 'configured-step-not-listed',
                                            'what': 'the configuration has %r at position %d after an earlier step of that name, but the listing does not '
                                                    'show it there: %r' % (n0, i0 + 1, listed[:20])})
        ambiguous = False
        if fullrc == 0 and lines is None and not ambiguous:
            # with a configured name holding white space the lines cannot be read back: that IS the known finding
            res.oracle_failures.append({'case': case, 'signature': 'listing-name-with-white-space' if whitespace_names(case) else 'listing-unparsable',
                                        'what': 'robsd-step -L printed lines not of the form "N name[ parallel]"'})
        if lines is not None:
            ltok = [str(len(lines))] + [t for k, nm, p in lines for t in (str(k), hexs(nm), '1' if p else '0')]
            if 'cfgd' in case:
                cf = case['cfgd']
                specq.append(' '.join(['specfull', case['mode'], '1' if case['gpar'] else '0', str(len(cf))] +
                                      [t for nm, p in cf for t in (nm if nm else '-', '1' if p else '0')] + ltok))
                specmeta.append((ci, 'full', None))
            for off, (rc, out, err) in ob['lists'][1:]:
                if not off.isdigit() or not 1 <= int(off) <= len(lines):
                    if not re.fullmatch(rb'[ \t]*\+?[0-9]+', off) and (rc == 0 or out != b''):
                        # -o takes the number of a step: an argument that is no decimal number (empty, trailing garbage, a name,
                        # negative) selects nothing; the listing must not be printed from a guessed position
                        res.oracle_failures.append({'case': case, 'signature': 'offset-not-a-number-lists',
                                                    'what': 'offset %r is not a step number, yet robsd-step -L exits %d and prints %r' % (off, rc, out[:60])})
                    if rc == 0 and off.isdigit() and int(off) > len(lines):
                        res.oracle_failures.append({'case': case, 'signature': 'offset-beyond-end-lists', 'what': 'offset %s beyond the %d steps prints %r' % (off.decode(), len(lines), out[:60])})
                    continue
                sub = parse(out) if rc == 0 else None
                if sub is None:
                    res.oracle_failures.append({'case': case, 'signature': 'offset-suffix', 'what': 'offset %s of %d steps: exit %d, output %r' % (off.decode(), len(lines), rc, out[:60])})
                    continue
                specq.append(' '.join(['specoff', off.decode()] + ltok + [str(len(sub))] + [t for k, nm, p in sub for t in (str(k), hexs(nm), '1' if p else '0')]))
                specmeta.append((ci, 'off', off))
    if specq:
        sans = common.run_driver(drv, specq)
        for a, (ci, kind, off) in zip(sans, specmeta):
            if a != '1':
                case = cases[ci]
                lines = allobs[ci]['lines']
                if kind == 'full':
                    names = [(nm.decode('latin1'), p) for _, nm, p in lines]
                    res.oracle_failures.append({'case': case, 'signature': 'schedule-' + case['mode'],
                                                'what': 'the listing %r is not the documented schedule for the configured entries %r (parallel %s)'
                                                % (names[:24], [(bytes.fromhex(n).decode('latin1'), p) for n, p in case['cfgd']][:12], case['gpar'])})
                else:
                    res.oracle_failures.append({'case': case, 'signature': 'offset-suffix',
                                                'what': 'listing from offset %s is not the suffix of the full listing starting at that step' % off.decode()})
    return world


def load_corpus():
    files = sorted(glob.glob(os.path.join(common.VERIF, 'corpus', 'C10', '*.json')))
    if not files:
        raise common.BuildFailure('corpus/C10 is missing or empty: the cases of the repaired and known findings would not run')
    return [json.load(open(p)) for p in files]


def run(ctx, n=None):
    res = common.Result()
    res.rule = ('configurations of the five modes derived from the documented grammar, three in eight robsd-regress with 1-6 tests and any mix of '
                'no-parallel / parallel yes|no, two in eight canvas step lists; one regress configuration in ten with a test named like a fixed '
                'step, a few names with blanks / a newline / ending in " parallel"; one in ten accepted configurations with a command that does not '
                'interpolate (${nope}, a lone $, ... in a test path, in a canvas command or in EXECDIR: no schedule) or that needs the environment '
                '(${builddir}, ${rdomain}); about one in eight corrupted; full listing, offsets 1,2,N/2,N-1,N,N+1,N+4 '
                '(every offset 1..N+2 in the thorough tier), 0, 2^32, INT_MAX, non-numeric; every distinct listed name executed through robsd-exec '
                'against stub scripts; non-trivial = a listed regress or canvas configuration; distinct by content hash')
    n = n or ctx.budget(220, 6000)
    g = conf_gen.Gen(ctx.rng)
    cases = load_corpus() + [gen_case(ctx.rng, g, big=(ctx.tier == 'thorough')) for _ in range(n)]
    res.samples = [{k: (bytes.fromhex(v).decode('latin1') if k == 'text' else v) for k, v in c.items()} for c in cases[:3]]
    world = None
    for i in range(0, len(cases), 2000):
        world = evaluate(ctx, cases[i:i + 2000], res, world, offsets_all=(ctx.tier == 'thorough'))
    return res


def extended_search(ctx, res, proof):
    return run(ctx, n=1500)


def replay(ctx, rep):
    case = rep.get('case') or (rep.get('first_disagreements') or [{}])[0].get('case')
    res = common.Result()
    ctx.regen(TRANSLATORS)
    evaluate(ctx, [case], res, offsets_all=True)
    print('case:', {k: (bytes.fromhex(v) if k == 'text' else v) for k, v in case.items()})
    print('disagreements:', res.disagreements)
    print('oracle failures:', [(f['signature'], f['what']) for f in res.oracle_failures])
    return 1 if (res.disagreements or res.oracle_failures) else 0
