"""C14 - the regress HTML matrix: model/spec vs robsd-regress-html (DESIGN.md 7, C14).

Per case a set of invocation trees is generated (1-3 arch arguments; invocations with step.csv, logs, dmesg, comment,
tags, patches; missing runs, suites added and removed over time, several invocations per day, equal start times,
duplicate suites, invocations of different arches interleaved in time with per-step times hours after the start, exit
codes incl. the timeout code, logs with FAILED / SKIPPED / EXPECTED_FAIL / UNEXPECTED_PASS markers and one log above
8 KiB, up to 70 invocations, invalid inputs), robsd-regress-html is run on it and exit status, the BYTES of index.html
and the output tree are read back.  Stream `bnd` holds the boundary classes (sizes, counts, integers, shapes: see the
comment above bnd_ninv); corpus/C14/b14_<class>.json lists the arguments that run on every check.

Correspondence: the extracted model (run_html_exec + HtmlPage.page_bytes) must produce the same exit status, the same
index.html byte for byte and the same tree.  Oracle: the extracted strict reader (HtmlParse.parse_index: every tag
closed in order, no stray end tag, no duplicate attribute, nothing but the expected document) turns the real index.html
into the matrix, the extracted spec_check judges it and rows_report judges the cell clause ROW BY ROW (driver command
judge).  The python html.parser reading of the page is kept only as a cross-check of the strict reader.  A leaf
harness (harness/html_leaf.c, #include "regress-html.c") ties render_rate, duration_delta, render_duration, the status
table and the three comparison functions to the model on grids.  The duplicate-suite stream also runs under an
AddressSanitizer build (the thorough tier runs every stream under it).  A rerun lane generates a second time into the
populated output directory (observed: exit 1 at the first mkdir, nothing touched).

Every case is also put to `self`/`selfrows`/`page` (driver): the oracle and the reader applied to the MODEL's own page -
the executed forms of C14_oracle_accepts_model_partial, C14_oracle_row_accepts_model, C14_oracle_clause6_is_per_row and
C14_index_roundtrip; anything else is a tie error.

Which failing row is the known finding (M4 of gap report 2): a row whose cells are not the specified ones is
run-shown-under-wrong-invocation only if THAT ROW's suite violates HtmlRow.row_guard (the suite is recorded twice in
one invocation / an invocation in which it ran shares its start time with another one; the booleans come from the
extracted rows_report, nothing is re-implemented here) AND the row is still sound (every cell a run of that suite, in
a column not newer than the run's invocation: HtmlRow.cells_sound).  A failing row whose suite satisfies the guard is
cell-wrong-for-guarded-row, an unsound row is cell-not-a-run-of-its-suite - ordinary violations.

Outside the property (AGENT_WAVE3 item 1b, decided by a predicate on the CASE, markup_names): arch, directory, suite
or log names that are empty, begin or end with white space, or hold a less-than sign or a double quote.  The property's
quantifier enumerates the structural variation of the invocations "and all log contents"; logs never enter index.html,
and the names that do are made by robsd itself (date directories, NNN-name.log) or are OpenBSD source paths and arch
names.  The statement speaks of "the rendered table", its rows, cells and links - notions that presuppose that the
names do not change the markup; html.c escapes nothing (findings/C14_html_no_escaping.md: an upstream bug), so for
such names there is no table to judge.  These cases are counted under `outside: ...`, the oracle does not judge them,
the byte-for-byte correspondence still runs.  The predicate is the complement of the guard of C14_index_roundtrip_input.

Signatures: pass-rate-truncated (defect D8, repaired in /repo ea4de2c) and column-pointer-out-of-bounds (defect D9,
repaired in 4acd4e2) come back with the replays of corpus/C14 when a repair is reverted;
run-shown-under-wrong-invocation (runs matched to columns by start time only) is a known finding."""
import glob, hashlib, json, os, re, shutil, subprocess
from concurrent.futures import ThreadPoolExecutor
import common
from common import hexs
import c14_fixture as fx

TRANSLATORS = ['t_html', 't_step', 't_interp', 't_regresslog']
TRUSTED = ['modelled, not verified: the file system (readdir/d_type, open O_EXCL, mkdir, access, read), qsort(3) '
           '(hypothesis "returns a sorted permutation"; the driver runs a stable insertion sort, agreement on equal keys '
           'is observed for glibc 2.36, not claimed), strstr/strchr/strncmp/fnmatch of libc, printf("%d"), '
           'IEEE 754 binary32 arithmetic of the compiler/CPU for render_rate (modelled by exact rationals with '
           'round-to-nearest-even, tied on a grid by harness/html_leaf.c)',
           'index.html is compared byte for byte with the model (HtmlPage.page_bytes) and judged as the matrix the extracted '
           'strict reader HtmlParse.parse_index returns (no character references are decoded: a name containing &amp; is '
           'shown decoded by a browser - observed, not a claim of C14); names that are empty, begin or end with white '
           'space or hold < or a double quote are outside the property (html.c does not escape)',
           'inputs: arch names and log names without "/", output directory empty at the start (observed otherwise: exit 1 '
           'at the first mkdir, nothing touched), regular files readable; invocation directory names pairwise distinct '
           'per arch (readdir)']

SIG_RATE = 'pass-rate-truncated'
SIG_WRONG = 'run-shown-under-wrong-invocation'
SIG_OOB = 'column-pointer-out-of-bounds'
SIG_GUARDED = 'cell-wrong-for-guarded-row'
SIG_UNSOUND = 'cell-not-a-run-of-its-suite'
SIG_MALFORMED = 'index-html-malformed'

HDR = b'step,name,exit,duration,delta,log,user,time,skip\n'
ARCHES = [b'amd64', b'arm64', b'sparc64', b'i386']
SUITES = [b'bin/ksh', b'bin/ed', b'lib/libc/malloc', b'lib/libc/sys', b'sys/kern/pipe', b'sys/net/pf', b'usr.bin/ssh',
          b'usr.bin/mandoc', b'usr.sbin/bgpd', b'sbin/pfctl', b'../gnu/perl', b'../dep/a', b'../x', b'a/b', b'a/b/c', b'./x',
          b'..//y', b'z/', b'/abs']
# names with bytes that mean something to HTML or to a URL but not to step.csv (html.c does not escape anything;
# '<', '>' and '"' would change the markup itself and are left out, see TRUSTED)
SPECIAL = [b'a&b/c', b"q'x/y", b'p;q/r', b'sp ace/x', b'per%cent/x', b'utf\xc3\xa9/x', b'x/#frag', b'x/?q=1',
           b'tab\there/x', b'x/y&']
# names that change the markup itself or that a reader trims (outside the property, see markup_names)
MARKUP = [b'a<b>/c', b'q"x/y', b'x/<i>', b'x/lt<', b' lead/x', b'trail/x ', b'x/a"b"', b'<td>/x', b'x/</a>']
NONSUITE = [b'env', b'cvs', b'patch', b'obj', b'mount', b'dmesg', b'revert', b'unmount']
KW = [b'FAILED', b'SKIPPED', b'DISABLED', b'EXPECTED_FAIL', b'UNEXPECTED_PASS', b'PASSED', b'XFAILED', b'NOT_SKIPPED']
MARK = [b'==== t1 ====', b'==== run-a b ====', b'===> sub/dir', b'==== x ==== ', b'====x ====']
WORDS = [b'cc -o x x.c', b'ok', b'', b'*** Error 1 in .', b'a\x00FAILED', b'junk', b'+ not trace']
DAY0 = 1666569600   # 2022-10-24 00:00:00 UTC


def gen_log(rng, want=None, big=False):
    """a log; [want] steers it towards an outcome keyword; [big]: more than 8 KiB (parse_run_log reads into a buffer
    of 1 << 13 bytes that has to grow)"""
    lines = []
    if big:
        lines += [b'cc -O2 -pipe -o t%04d t%04d.c' % (k, k) for k in range(rng.choice([300, 340, 700]))]
    if rng.random() < 0.5:
        lines += [b'+ ' + rng.choice(WORDS + KW) for _ in range(rng.randint(1, 2))]
    n = rng.choice([0, 1, 2, 3, 5])
    for _ in range(n):
        k = rng.random()
        if k < 0.3:
            lines.append(rng.choice(MARK))
        elif k < 0.55:
            lines.append(rng.choice([b'', b'test ']) + rng.choice(KW))
        elif k < 0.65:
            lines.append(b'+ ' + rng.choice(KW))
        else:
            lines.append(rng.choice(WORDS))
    if want:
        lines.append(rng.choice(MARK))
        lines.append(want)
    if rng.random() < 0.2:
        lines.append(b'+ trailing trace')
    data = b'\n'.join(lines)
    if lines and rng.random() < 0.85:
        data += b'\n'
    if rng.random() < 0.02:
        data = data.replace(b'\n', b'\r\n')        # CRLF: a marker line no longer ends with ====
    return data


def step_csv(rows):
    out = HDR
    for i, r in enumerate(rows, 1):
        out += b'%d,%s,%d,%d,0,%s,root,%d,0\n' % (i, r['name'], r.get('exit', 0), r.get('duration', 1),
                                                 r.get('log', b''), r['time'])
    return out


def gen_invocation(rng, name, time, suites, opts):
    """suites: list of suite names (duplicates allowed) that ran"""
    rows = []
    files = []
    gap = opts.get('step_gap', 1)        # seconds between the steps of this invocation
    for nm in rng.sample(NONSUITE, rng.randint(0, 3)):
        rows.append({'name': nm, 'time': time + gap * len(rows), 'duration': rng.randint(0, 50),
                     'log': b'%03d-%s.log' % (len(rows) + 1, nm)})
    if opts.get('first_time_differs') and rows:
        rows[0]['time'] = time     # the first row decides; later rows carry later times anyway
    elif rows:
        rows[0]['time'] = time
    used = set()
    for s in suites:
        ex = rng.choice([0, 0, 0, 0, 1, 1, 2, 124, 124, -1, 255, 125, 123])
        if rng.random() < 0.03:      # 0 or the timeout code only in the low 32 bits; the ends of int and int64_t
            ex = rng.choice([256, P31 - 1, P31, P32, P32 + 124, P32 + 1, P63 - 1, -P63])
        want = None
        k = rng.random()
        if k < 0.18:
            want = b'SKIPPED'
        elif k < 0.34:
            want = b'EXPECTED_FAIL'
        elif k < 0.48:
            want = b'UNEXPECTED_PASS'
        elif k < 0.62:
            want = b'FAILED'
        elif k < 0.68:
            want = b'DISABLED'
        big = bool(opts.get('big_log')) and not used
        log = gen_log(rng, want, big)
        ln = b'%03d-%s.log' % (len(rows) + 1, s.replace(b'/', b'-'))
        if opts.get('markup_log') and rng.random() < 0.3:
            ln = b'%03d-"q".log' % (len(rows) + 1)
        if opts.get('shared_log') and used and rng.random() < 0.5:
            ln = sorted(used)[0]
        r = {'name': s, 'exit': ex, 'time': time + gap * len(rows), 'duration': rng.randint(0, 500), 'log': ln}
        if not rows:
            r['time'] = time
        rows.append(r)
        if ln not in used:
            files.append([ln, log])
        used.add(ln)
    dur = opts.get('duration', rng.choice([0, 59, 60, 600, 601, 1800, 3599, 3600, 3660, 7200, 86400, 100000]))
    if 'duration' not in opts and rng.random() < 0.03:
        dur = rng.choice([1, 86399, P31 - 1, P31, P32 - 1, P32, P32 + 601, 3600 * P31, 3600 * P32, P63 - 1])
    rows.append({'name': b'end', 'time': time + max(5000, gap * (len(rows) + 1)), 'duration': dur})
    if not suites and len(rows) == 1:
        rows[0]['time'] = time
    if rng.random() < 0.08:     # a step after end, a second end
        rows.append({'name': b'end', 'time': time + max(6000, gap * (len(rows) + 2)), 'duration': dur + 1})
    if rng.random() < 0.92:
        files.append([b'dmesg', b'OpenBSD 7.2 (GENERIC.MP) #%d\n' % rng.randint(1, 999)])
    if rng.random() < 0.92:
        files.append([b'comment', rng.choice([b'comment\n', b'', b'cvs log\nline 2\n'])])
    t = rng.random()
    if t < 0.85:
        files.append([b'tags', rng.choice([b'tags\n', b'cvs\n', b'cvs', b'cvs kernel\n', b'kernel cvs\n', b'nocvs\n',
                                           b'xcvs cvs\n', b'cvsx\n', b'', b'cvs\x00', b'a cvs\tb\n', b'\ncvs\n'])])
    for k in range(rng.choice([0, 0, 0, 1, 2])):
        files.append([b'src.diff.%d' % (k + 1), b'--- a\n+++ b\n@@ %d @@\n' % k])
    if rng.random() < 0.1:
        files.append([rng.choice([b'src.diff', b'xsrc.diff.1', b'src.diff.', b'src.diffx']), b'near miss\n'])
    if rng.random() < 0.15:
        files.append([b'robsd.log', b'noise\n'])
    return {'name': name.hex(), 'kind': 'dir', 'step': step_csv(rows).hex(),
            'files': [[a.hex(), b.hex()] for a, b in files]}


def break_invocation(rng, ent):
    """one of the invalid inputs the program answers with exit 1"""
    k = rng.choice(['nostep', 'empty', 'noend', 'garbage', 'missinglog', 'emptylog', 'badint'])
    step = bytes.fromhex(ent['step'])
    if k == 'nostep':
        ent['step'] = None
    elif k == 'empty':
        ent['step'] = ''
    elif k == 'noend':
        ent['step'] = b'\n'.join(l for l in step.split(b'\n') if b',end,' not in l).hex()
    elif k == 'garbage':
        ent['step'] = (step + b'x,y\n').hex()
    elif k == 'badint':
        ent['step'] = step.replace(b',root,', b',root,x', 1).hex()
    elif k == 'missinglog':
        logs = [f for f in ent['files'] if bytes.fromhex(f[0]).endswith(b'.log') and b'-' in bytes.fromhex(f[0])]
        if logs:
            ent['files'].remove(rng.choice(logs))
        else:
            ent['step'] = None
    elif k == 'emptylog':
        lines = step.split(b'\n')
        for i, l in enumerate(lines):
            f = l.split(b',')
            if len(f) == 9 and b'/' in f[1]:
                f[5] = b''
                lines[i] = b','.join(f)
                break
        else:
            ent['step'] = ''
            return ent
        ent['step'] = b'\n'.join(lines).hex()
    return ent


def gen_case(rng, stream, force=None):
    """stream: plain | tie | dup | error | wide | special | many | overlap | markup | biglog | bnd (a boundary class);
    force: {'ninv': n} pins the number of invocations of the first arch"""
    force = force or {}
    if stream == 'bnd':
        return gen_bnd(rng, bool(force.get('thorough')))
    narch = rng.choice([1, 1, 2, 2, 3])
    if stream == 'overlap':
        narch = rng.choice([2, 2, 3, 4])
    arches = rng.sample(ARCHES, narch)
    if rng.random() < 0.05 and narch >= 2:
        arches[1] = arches[0]                # the same arch twice: fine unless the dates collide
    if stream == 'tie' and narch == 1 and rng.random() < 0.7:
        narch, arches = 2, rng.sample(ARCHES, 2)     # equal start times ACROSS arches is the realistic case
    pool = rng.sample(SUITES, rng.randint(1, min(len(SUITES), rng.choice([2, 4, 6, 10]))))
    if stream == 'special':
        pool = rng.sample(SPECIAL, rng.randint(2, 5)) + rng.sample(SUITES, 2)
    elif stream == 'markup':
        pool = rng.sample(MARKUP, rng.randint(1, 3)) + rng.sample(SUITES, 2)
        if rng.random() < 0.2:
            arches[0] = rng.choice([b'am"d64', b'<arch>', b' amd64'])
    elif stream == 'many':
        pool = [b'gen/%s%02d' % (rng.choice([b's', b't', b'../u']), k) for k in range(rng.choice([30, 45, 80]))]
    ninv = {'wide': rng.choice([16, 16, 17, 20, 32, 40, 64, 65, 70]), 'dup': rng.choice([1, 2, 3, 16, 16]),
            'overlap': rng.choice([1, 2, 3, 4])}.get(stream, rng.choice([0, 1, 2, 3, 4, 6]))
    ninv = force.get('ninv', ninv)
    big_left = stream == 'biglog'
    if stream == 'biglog':
        ninv = max(ninv, 1)
    times_used = []
    out = []
    slot = 0
    for ai, arch in enumerate(arches):
        n = ninv if ai == 0 or stream == 'overlap' else rng.choice([0, 1, 2, min(ninv, 4)])
        ents = []
        day, num = rng.randint(0, 3), 1
        prevdur = None
        for i in range(n):
            if i and rng.random() < 0.35:
                num += 1                      # several invocations per day
            elif i:
                day += rng.randint(1, 3)
                num = 1
            name = b'2022-%02d-%02d.%d' % (10 + day // 28, 1 + day % 28, num)
            time = DAY0 + day * 86400 + num * 3600 + ai * 7 + rng.randint(0, 3)
            if stream == 'overlap':
                # every arch starts its i-th invocation within minutes of the others (cron on several machines)
                day, num = i, 1
                name = b'2022-%02d-%02d.%d' % (10 + day // 28, 1 + day % 28, num)
                time = DAY0 + day * 86400 + ai * rng.choice([60, 600, 601]) + rng.randint(0, 5)
            while stream != 'tie' and time in times_used:
                time += 1
            if stream == 'tie' and times_used and rng.random() < 0.6:
                time = rng.choice(times_used)
            times_used.append(time)
            # suites drift: each invocation keeps most of the pool, drops some, picks up new ones later
            suites = [s for k, s in enumerate(pool) if rng.random() < 0.8 and not (k % 3 == 2 and i < n // 2)]
            rng.shuffle(suites)
            if stream == 'dup' and suites and (i == 0 or rng.random() < 0.3):
                suites.insert(rng.randint(0, len(suites)), rng.choice(suites))
            opts = {}
            if stream == 'overlap':
                opts['step_gap'] = rng.choice([30, 300, 1800, 3600])
            elif rng.random() < 0.15:
                opts['step_gap'] = rng.choice([2, 60, 1800])
            if stream == 'markup' and rng.random() < 0.3:
                opts['markup_log'] = True
            if prevdur is not None and rng.random() < 0.7:
                opts['duration'] = max(0, prevdur + rng.choice([-601, -600, -599, 0, 599, 600, 601, 3000, -3000]))
            if rng.random() < 0.04:
                opts['shared_log'] = True
            if big_left:
                suites = suites or pool[:1]
                opts['big_log'] = True
                big_left = False
            e = gen_invocation(rng, name, time, suites, opts)
            prevdur = opts.get('duration', None)
            if prevdur is None:
                rows = bytes.fromhex(e['step']).split(b'\n')
                prevdur = int([r for r in rows if b',end,' in r][0].split(b',')[3])
            ents.append(e)
            slot += 1
        if stream == 'error' and ents and rng.random() < 0.8:
            break_invocation(rng, rng.choice(ents))
        # other things readdir hands out
        if rng.random() < 0.3:
            ents.append({'name': b'attic'.hex(), 'kind': 'dir', 'step': None, 'files': []})
        if rng.random() < 0.2:
            ents.append({'name': b'.hidden'.hex(), 'kind': 'dir', 'step': None, 'files': []})
        if rng.random() < 0.2:
            ents.append({'name': rng.choice([b'2022-10-01.9', b'index.txt', b'robsd.log']).hex(), 'kind': 'file'})
        if stream == 'error' and rng.random() < 0.15:
            ents.append({'name': b'2023-01-01.1'.hex(), 'kind': 'dir', 'step': None, 'files': []})
        rng.shuffle(ents)
        out.append({'arch': arch.hex(), 'entries': ents})
    return {'stream': stream, 'arches': out}


# ---- boundary classes: sizes, counts, integers and shapes a fixed buffer, a narrowed integer, a power-of-two growth
# step or an off-by-one would trip over (stream `bnd`).  Every class is a DETERMINISTIC builder bnd_<cls>(arg, rng):
# corpus/C14/b14_<cls>.json lists the arguments that always run ({"bnd": cls, "args": [...]}), the generator draws an
# argument from BND_ARGS with ctx.rng and lets the builder jitter secondary parameters with it.  evaluate() prints
# `class: <cls>:<arg>` into the input distribution.
#
# Which field flows where (read from /repo): suite NAME: step.csv lexer buffer (512, grows) -> arena_strndup -> MAP key
# (find_suite) -> strcmp in suite_cmp -> arena_sprintf in cvsweb_url -> buffer_printf into the page (html buffer 1 << 10,
# doubles); LOG name: arena_sprintf "%s/%s/%s" twice, access(2), open(O_EXCL) below the output directory (one path
# component: NAME_MAX 255 caps it); ARCH: argv, arena_strndup, mkdir (one component: 255); DATE = directory name:
# invocation_entry.basename[NAME_MAX + 1] / path[PATH_MAX] by snprintf (255 is the exact fit), strcmp for the walk order;
# TIMES / DURATIONS / EXIT codes: strtonum(LLONG_MIN, LLONG_MAX) -> int64_t, compared with < and > (never subtracted)
# except duration_delta (a - b: only non-negative durations are generated, the difference of a negative and a huge one is
# signed overflow in C and a plain integer in the model) and render_duration ((int) of hours and minutes); COUNTS: VECTORs
# of 16 doubling (r->invocations, suite->runs, steps, is->directories for invocations and for src.diff.*, the three
# vectors of sort_suites), the MAP of suites; LOGS: buffer_read (1 << 13, doubles), parse_run_log's buffer (1 << 13),
# regress_log_parse's scratch (1 << 20: NOT reached - a block above 1 MiB costs the extracted model minutes (its scratch
# append is quadratic) and overflows its stack; the largest block generated here is 64 KiB + 1), "%.*s" in
# regress_log_trim (cut at NUL); dmesg / comment / tags: arena_buffer_read, strstr on the NUL-terminated tags.
#
# CAPS (measured with the extracted model, see the report of the boundary pass): suite names up to 65536 bytes, logs up
# to 64 KiB + 1, 65 x 65 runs in one page, 256 suites in one invocation, 1000 suites for the pass rate; n/65536 pass
# rates only in the leaf harness (65536 suites cost the list model ~2^32 comparisons); arch / date / log names stop at
# NAME_MAX (the kernel refuses longer components, a row naming a 256-byte log is the missing-log error).

PASSLOG = b'==== t1 ====\nok\n'
FAILLOG = b'==== t1 ====\nFAILED\n'
P31, P32, P63 = 1 << 31, 1 << 32, 1 << 63
COUNTS = [0, 1, 15, 16, 17, 31, 32, 33, 63, 64, 65]
BLOCKS = [4095, 4096, 4097, 8191, 8192, 8193]


def b_date(i, num=1):
    """the i-th day from 2022-01-01 in robsd's directory spelling (months of 28 days keep it simple)"""
    return b'%04d-%02d-%02d.%d' % (2022 + i // 336, 1 + (i // 28) % 12, 1 + i % 28, num)


def b_inv(date, time, suites, duration=600, pre=1, gap=1, files=None, step=None, patches=0, post=0):
    """an entry of the case format.  suites: dicts name / exit / log (content, None: no such file) / logname;
    pre / post: non-suite rows before the suites / after them (before end); gap: seconds between rows (0 for start times
    near the ends of int64_t); files: dmesg / comment / tags content (None: absent); step: the bytes of step.csv as given"""
    rows, fs, seen = [], [], set()
    for k in range(pre):
        nm = NONSUITE[k % len(NONSUITE)]
        rows.append({'name': nm, 'time': time + gap * len(rows), 'duration': 1, 'log': b'%03d-%s.log' % (len(rows) + 1, nm)})
    for s in suites:
        ln = s.get('logname')
        if ln is None:
            ln = b'%03d-%s.log' % (len(rows) + 1, s['name'].replace(b'/', b'-')[:200])
        rows.append({'name': s['name'], 'exit': s.get('exit', 0), 'time': time + gap * len(rows), 'duration': 1, 'log': ln})
        if ln not in seen and s.get('log', PASSLOG) is not None:
            fs.append([ln, s.get('log', PASSLOG)])
        seen.add(ln)
    for k in range(post):
        rows.append({'name': b'post%d' % k, 'time': time + gap * len(rows), 'duration': 1, 'log': b''})
    rows.append({'name': b'end', 'time': time + gap * len(rows), 'duration': duration})
    aux = {'dmesg': b'OpenBSD 7.2 (GENERIC.MP) #1\n', 'comment': b'comment\n', 'tags': b'cvs\n'}
    aux.update(files or {})
    for k in ('dmesg', 'comment', 'tags'):
        if aux[k] is not None:
            fs.append([k.encode(), aux[k]])
    for k in range(patches):
        fs.append([b'src.diff.%d' % (k + 1), b'--- a\n+++ b\n@@ %d @@\n' % k])
    st = step_csv(rows) if step is None else step
    return {'name': date.hex(), 'kind': 'dir', 'step': st.hex(), 'files': [[a.hex(), b.hex()] for a, b in fs]}


def b_case(arches):
    """arches: [(arch name, [entries])]"""
    return {'stream': 'bnd', 'arches': [{'arch': a.hex(), 'entries': es} for a, es in arches]}


def S(name, exit=0, log=PASSLOG, logname=None):
    return {'name': name, 'exit': exit, 'log': log, 'logname': logname}


def _j(rng, n):
    """jitter 0..n from the generator's rng; the corpus form (rng None) is 0"""
    return rng.randint(0, n) if rng else 0


def bnd_ninv(n, rng=None):
    """n invocations of one arch (r->invocations, the directories vector and the runs of bin/all hold n elements), a
    second arch with one invocation in the middle; runs missing by a pattern, one suite failing now and then"""
    ents = []
    for i in range(n):
        su = [S(b'bin/all')]
        if i % 2 == 0:
            su.append(S(b'bin/even', 1 if i % 4 == 0 else 0, FAILLOG if i % 4 == 0 else PASSLOG))
        if i >= n // 2:
            su.append(S(b'lib/late'))
        if i % 3 == _j(rng, 2):
            su.insert(0, S(b'../dep/third', 0, b'==== t ====\nSKIPPED\n'))
        ents.append(b_inv(b_date(i), DAY0 + i * 86400, su, duration=(i * 700) % 4000, pre=i % 3))
    other = [b_inv(b_date(n // 2), DAY0 + (n // 2) * 86400 + 43200, [S(b'bin/all'), S(b'lib/late', 1, FAILLOG)])]
    return b_case([(b'amd64', ents), (b'arm64', other)])


def bnd_narch(n, rng=None):
    """n arch arguments with one invocation each, all under the same directory name, distinct start times"""
    out = []
    for k in range(n):
        su = [S(b'bin/all')] + ([S(b'bin/odd', 2, FAILLOG)] if k % 2 else []) + ([S(b'lib/k%d' % (k % 3))] if k % 5 else [])
        out.append((b'arch%02d' % k, [b_inv(b_date(3), DAY0 + 100 * k + _j(rng, 50), su, duration=60 * k)]))
    return b_case(out)


def bnd_nsuites(arg, rng=None):
    """[n, kind]: n suites in one invocation (rows of step.csv: n + 1, n and n + 2 in the three invocations), all of
    one kind (fail / pass / nonreg: the three vectors of sort_suites) or mixed"""
    n, kind = arg

    def one(k):
        kd = kind if kind != 'mix' else ['fail', 'pass', 'nonreg'][k % 3]
        nm = (b'../dep/s%03d' if kd == 'nonreg' else b'gen/s%03d') % k
        return S(nm, 1, FAILLOG) if kd == 'fail' else S(nm)
    su = [one(k) for k in range(n)]
    if rng:
        rng.shuffle(su)
    return b_case([(b'amd64', [b_inv(b_date(1), DAY0, su, pre=0),
                               b_inv(b_date(2), DAY0 + 86400, su[:max(0, n - 1)], pre=0, duration=1300),
                               b_inv(b_date(3), DAY0 + 2 * 86400, su, pre=1, duration=100)])])


def bnd_grid(arg, rng=None):
    """[s, i]: s suites in each of i invocations (s * i runs on one page)"""
    s, n = arg
    su = [S(b'gen/g%03d' % k, 1 if k % 7 == 3 else 0, FAILLOG if k % 7 == 3 else PASSLOG) for k in range(s)]
    return b_case([(b'amd64', [b_inv(b_date(i), DAY0 + i * 86400, su, pre=0, duration=i) for i in range(n)])])


def _long(n, last=b'x', head=b'lib/'):
    """a suite name of exactly n bytes"""
    if n == 1:
        return b'/'
    if n <= len(head):
        return (b'a' * (n - 1)) + b'/'
    return head + b'n' * (n - len(head) - 1) + last


def bnd_namelen(n, rng=None):
    """a suite name of n bytes, a second one that differs in the last byte only, and a short one; the log names are
    short (the name is not a path component for robsd-regress-html)"""
    a, b = _long(n), _long(n, b'y')
    su1 = [S(a, 0, PASSLOG, b'001-long.log'), S(b'bin/short')] + ([S(b, 1, FAILLOG, b'003-other.log')] if b != a else [])
    su2 = [S(b'bin/short', 1, FAILLOG)] + ([S(b, 0, PASSLOG, b'002-other.log')] if b != a else []) + [S(a, 0, PASSLOG, b'003-long.log')]
    return b_case([(b'amd64', [b_inv(b_date(1), DAY0, su1, pre=_j(rng, 2)), b_inv(b_date(2), DAY0 + 86400, su2, pre=0)])])


def bnd_lognamelen(n, rng=None):
    """a log name of n bytes (a path component: the file exists up to NAME_MAX = 255; beyond, the row names a file that
    cannot exist - the missing-log error)"""
    ln = b'001-' + b'l' * (n - 8) + b'.log'
    return b_case([(b'amd64', [b_inv(b_date(1), DAY0, [S(b'bin/longlog', 1, FAILLOG if n <= 255 else None, ln), S(b'bin/x')], pre=0),
                               b_inv(b_date(2), DAY0 + 86400, [S(b'bin/longlog'), S(b'bin/x')])])])


def bnd_archlen(n, rng=None):
    """an arch name of n bytes (argv, mkdir below the output directory: NAME_MAX caps it at 255)"""
    return b_case([(b'A' * n, [b_inv(b_date(1), DAY0, [S(b'bin/x'), S(b'bin/y', 1, FAILLOG)]),
                               b_inv(b_date(2), DAY0 + 86400, [S(b'bin/x')], patches=1)]),
                   (b'amd64', [b_inv(b_date(1), DAY0 + 5, [S(b'bin/y')])])])


def bnd_datelen(n, rng=None):
    """invocation directory names of n bytes (invocation_entry.basename is char[NAME_MAX + 1]: 255 is the exact fit);
    two that differ in the last byte only"""
    a, b = b'2022-10-01.' + b'1' * (n - 11), b'2022-10-01.' + b'1' * (n - 12) + b'2'
    return b_case([(b'amd64', [b_inv(a, DAY0, [S(b'bin/x'), S(b'bin/y', 1, FAILLOG)], duration=100),
                               b_inv(b, DAY0 + 86400, [S(b'bin/x')], duration=2000, patches=2)])])


NAMESETS = {
    # prefixes of each other; '-' for '/' (the log name robsd derives collides: see unnumbered below)
    # (every list is in DESCENDING strcmp order where it matters: the suites enter the map in list order, so a compare
    # that calls two of them equal - strncmp with the shorter length, strcasecmp, signed char - leaves them unsorted)
    'prefix': [b'a/bc', b'a/b/c/d', b'a/b/c', b'a/b/', b'a/b.c', b'a/b-c', b'a/b', b'a//b', b'a/', b'a-b/c'],
    'case': [b'z/Z', b'a/b', b'a/B', b'Z/z', b'A/b', b'A/B'],
    # byte order: '-' 2d < '.' 2e < '/' 2f < '0' 30, 'Z' 5a < 'a' 61, 7f < 80 < ff as unsigned char
    'adjacent': [b'a0/x', b'a/\xff', b'a/\x80', b'a/\x7f', b'a/x', b'a/!x', b'a/ x', b'a//x', b'a./x', b'a-/x', b'Z/x'],
    'sep': [b'a.b/c', b'a b/c', b'a/b c', b'a=b/c', b'a/b=c', b'a/.', b'a/..', b'./a', b'a/b;c', b'a/b:c'],
    'dotdot': [b'../', b'../x', b'..//x', b'.../x', b'..x/y', b'x/../y', b'../../x', b'./../x', b'..', b'../x/'],
    # the five characters of HTML markup at the first and at the last position; < and the double quote put the case
    # outside the property (markup_names), the other three are judged
    'markup-in': [b'>a/b', b'a/b>', b'&a/b', b'a/b&', b"'a/b", b"a/b'", b'a>b/&c\'d', b'&amp;/x', b'a/&lt;'],
    'markup-lt': [b'<a/b', b'a/b<', b'a/b'],
    'markup-dq': [b'"a/b', b'a/b"', b'a/b'],
    # a comma ends the field: the row has too many fields, the step file is rejected
    'comma': [b'a,b/c', b'a/b'],
}


def bnd_names(arg, rng=None):
    """[set, numbered]: the names of NAMESETS[set] as suites of three invocations, failing in different subsets (the
    order of the rows is by failures, then strcmp); numbered False: log names <name with - for />.log as robsd would make
    them without the step number, so that a/b-c and a-b/c share one log file"""
    key, numbered = arg
    names = list(NAMESETS[key])
    if rng:
        rng.shuffle(names)
    ents = []
    for i in range(3):
        su = []
        for k, nm in enumerate(names):
            if (k + i) % 4 == 3 and key != 'comma':
                continue
            # every fourth name fails in the first and the last invocation (two failures each: they sort first, by name
            # among themselves), the others never fail, so that strcmp alone orders most of the rows
            bad = k % 4 == 1 and i != 1
            ln = None if numbered else nm.replace(b'/', b'-') + b'.log'
            su.append(S(nm, 1 if bad else 0, FAILLOG if bad else PASSLOG, ln))
        ents.append(b_inv(b_date(i), DAY0 + i * 86400, su, pre=i % 2))
    return b_case([(b'amd64', ents)])


TIMESETS = {
    'zero': [0, 1, 2],
    'neg': [-1, 0, 1, -2],
    'i31': [P31 - 1, P31, P31 + 1],
    'u32': [P32 - 1, P32, P32 + 1],
    # 2^31 apart: the order flips when the compare is done in int; 2^32 apart: equal in 32 bits
    'apart31': [DAY0, DAY0 + P31, DAY0 + 1, DAY0 + P31 + 1],
    'apart32': [5, 5 + P32, 5 + 2 * P32, 6, 6 + P32],
    'apart32day': [DAY0, DAY0 + P32, DAY0 + 3600, DAY0 + P32 + 3600],
    'max': [P63 - 1, P63 - 2, 0, -P63, -P63 + 1],
    'adjacent': [DAY0, DAY0 + 1, DAY0 + 2, DAY0 + 3],
    # not a start time: strtonum says "too large" / "too small"
    'over': [P63],
    'under': [-P63 - 1],
}


def bnd_times(key, rng=None):
    """invocations with the start times TIMESETS[key], spread over two arches in turn (directory names in list order, so
    that name order and time order differ); every row of an invocation carries the same time (gap 0)"""
    ts = TIMESETS[key]
    ents = {0: [], 1: []}
    for i, t in enumerate(ts):
        su = [S(b'bin/all', 1 if i == 1 else 0, FAILLOG if i == 1 else PASSLOG)] + ([S(b'bin/some')] if i % 2 == 0 else []) + \
            ([S(b'lib/rare')] if i == len(ts) - 1 else [])
        ents[i % 2].append(b_inv(b_date(i), t, su, duration=100 * i, gap=0, pre=_j(rng, 1)))
    return b_case([(b'amd64', ents[0]), (b'arm64', ents[1])])


DURSETS = {
    'small': [0, 1, 59, 60, 61, 3599, 3600, 3601, 86399, 86400],
    'delta': [1000, 1600, 1601, 1001, 400, 401, 1001, 1601],         # 600 / 601 apart in both directions
    'big': [P31 - 1, P31, P32 - 1, P32, P63 - 1, 0],
    # 2^32 apart: no change when the difference is taken in int; 3600 * 2^31, 3600 * 2^32: the hours wrap in (int)
    'apart32': [5, 5 + P32, 5 + P32 + 601, 5 + P31, 5],
    'hours': [3600 * P31 - 1, 3600 * P31, 3600 * P32, 3600 * P32 + 60 * 59, 60 * P32],
    'negative': [-1, -60, -3600, -3661, 0],
    'over': [P63],
}


def bnd_durations(key, rng=None):
    """successive invocations of one arch whose end rows carry the durations DURSETS[key] (render_duration, and
    duration_delta against the previous one)"""
    ents = [b_inv(b_date(i), DAY0 + i * 86400, [S(b'bin/x')] + ([S(b'bin/y', 1, FAILLOG)] if i % 2 else []), duration=d,
                  pre=_j(rng, 1)) for i, d in enumerate(DURSETS[key])]
    return b_case([(b'amd64', ents)])


EXITS = [0, 1, 2, 123, 124, 125, 255, 256, -1, -124, P31 - 1, P31, P31 + 124, P32 - 1, P32, P32 + 1, P32 + 124, P63 - 1, -P63]
XLOGS = [PASSLOG, FAILLOG, b'==== t ====\nUNEXPECTED_PASS\n', b'==== t ====\nEXPECTED_FAIL\n', b'==== t ====\nSKIPPED\n']


def bnd_exits(k, rng=None):
    """one suite per exit code of EXITS (0 / timeout / other decide the status: an exit code that is 0 or 124 only in
    its low 32 bits is neither), log number k of XLOGS in the first invocation, the next one in the second"""
    su1 = [S(b'exit/e%02d' % i, e, XLOGS[k % len(XLOGS)]) for i, e in enumerate(EXITS)]
    su2 = [S(b'exit/e%02d' % i, e, XLOGS[(k + 1) % len(XLOGS)]) for i, e in enumerate(EXITS)]
    if rng:
        rng.shuffle(su2)
    return b_case([(b'amd64', [b_inv(b_date(1), DAY0, su1), b_inv(b_date(2), DAY0 + 86400, su2)])])


def bnd_exitover(v, rng=None):
    """an exit code outside int64_t: strtonum refuses the step file"""
    return b_case([(b'amd64', [b_inv(b_date(1), DAY0, [S(b'bin/x', v)])])])


def bnd_rate(arg, rng=None):
    """[total, fail]: one invocation with total suites of which fail fail (the pass rate is
    floor(100 * (total - fail) / total)), a second one with one suite"""
    total, fail = arg
    su = [S(b'r/s%04d' % k, 1 if k < fail else 0, FAILLOG if k < fail else PASSLOG, b'f.log' if k < fail else b'p.log')
          for k in range(total)]
    if rng:
        rng.shuffle(su)
    return b_case([(b'amd64', [b_inv(b_date(1), DAY0, su, pre=0), b_inv(b_date(2), DAY0 + 86400, [S(b'r/s0000')])])])


def _pad_to(n, tail, line=b'cc -O2 -pipe -c file%05d.c -o file.o'):
    """bytes of exactly n that end with tail, filled with compiler lines (every line below 64 bytes)"""
    out, k = [], 0
    room = n - len(tail)
    if room < 0:
        return tail[-n:] if n else b''
    cur = 0
    while room - cur > 80:
        l = (line % k) + b'\n'
        out.append(l)
        cur += len(l)
        k += 1
    rest = room - cur
    if rest:
        out.append(b'#' * (rest - 1) + b'\n')
    return b''.join(out) + tail


def bnd_logsize(arg, rng=None):
    """[n, kind]: a log of exactly n bytes.  pass: no keyword, the copy is the whole file; fail: one block of n bytes
    (marker first) that ends with FAILED + newline - the extracted block is the file; nonl: the same without the final
    newline; straddle: the FAILED line straddles offset n (the keyword starts 3 bytes before it), 100 more bytes follow;
    trace: xtrace lines before and after (regress_log_trim cuts both)"""
    n, kind = arg
    mark = b'==== big ====\n'
    if kind == 'pass':
        log, ex = _pad_to(n, b''), 0
    elif kind == 'fail':
        log, ex = (mark + _pad_to(n - len(mark), b'test FAILED\n')) if n >= 40 else _pad_to(n, b'FAILED\n'), 1
    elif kind == 'nonl':
        log, ex = (mark + _pad_to(n - len(mark), b'test FAILED')) if n >= 40 else _pad_to(n, b'FAILED'), 1
    elif kind == 'straddle':
        log, ex = mark + _pad_to(n - 3 - len(mark), b'') + b'FAILED here\n' + _pad_to(100, b'') + b'==== next ====\nok\n', 1
    elif kind == 'trace':
        log, ex = b'+ set -e\n+ cd /usr/src\n' + _pad_to(n - 23 - 14, b'') + b'+ exit 0\n+ true\n', 0
    else:
        raise ValueError(kind)
    return b_case([(b'amd64', [b_inv(b_date(1), DAY0, [S(b'bin/big', ex, log), S(b'bin/x')], pre=_j(rng, 2)),
                               b_inv(b_date(2), DAY0 + 86400, [S(b'bin/big'), S(b'bin/x')])])])


LOGSHAPES = {
    'empty': b'',
    'newline': b'\n',
    'nonl': b'==== t ====\nok',
    'nonl-failed': b'==== t ====\nFAILED',
    'crlf': b'==== t1 ====\r\nok\r\n==== t2 ====\r\nFAILED\r\n==== t3 ====\r\nok\r\n',
    'cr-only': b'==== t1 ====\rFAILED\rok\r',
    'nul': b'==== t1 ====\nbefore\x00FAILED\n==== t2 ====\nFAILED\x00after\nlast\n',
    'nul-first': b'\x00==== t1 ====\nFAILED\n',
    'nul-trim': b'+ trace\nkept\nalso\x00hidden\nnot reached by %.*s\n',
    'only-trace': b'+ a\n+ b\n+ c\n',
    'only-marker': b'==== t ====\n',
    'marker-last-nonl': b'ok\n==== t ====',
    'failed-first': b'FAILED\n',
    'every-keyword': b'==== a ====\nFAILED\n==== b ====\nSKIPPED\n==== c ====\nEXPECTED_FAIL\n==== d ====\nUNEXPECTED_PASS\n'
                     b'==== e ====\nDISABLED\n===> sub\nok\n',
    'blank-lines': b'\n\n==== t ====\n\nFAILED\n\n',
    'long-line': b'==== t ====\n' + b'x' * 5000 + b' FAILED ' + b'y' * 5000 + b'\n',
}


def bnd_logshape(key, rng=None):
    """the log LOGSHAPES[key] under exit 0 and under exit 1 (two suites), twice"""
    lg = LOGSHAPES[key]
    su = [S(b'bin/zero', 0, lg), S(b'bin/one', 1, lg), S(b'bin/timeout', 124, lg)]
    return b_case([(b'amd64', [b_inv(b_date(1), DAY0, su, pre=_j(rng, 2)), b_inv(b_date(2), DAY0 + 86400, su[:2])])])


def bnd_stepshape(key, rng=None):
    """shapes of step.csv: the second of three invocations carries the shape"""
    rows = [b'1,env,0,1,0,001-env.log,root,%d,0' % (DAY0 + 86400), b'2,bin/x,1,5,0,002-bin-x.log,root,%d,0' % (DAY0 + 86401),
            b'3,bin/y,0,5,0,003-bin-y.log,root,%d,0' % (DAY0 + 86402), b'4,end,0,700,0,,root,%d,0' % (DAY0 + 86403)]
    body = b'\n'.join(rows) + b'\n'
    if key == 'header-only':
        st = HDR
    elif key == 'header-nonl':
        st = HDR[:-1]
    elif key == 'nonl':
        st = HDR + body[:-1]
    elif key == 'crlf':
        st = (HDR + body).replace(b'\n', b'\r\n')
    elif key == 'nul-after-rows':
        st = HDR + body + b'\x00garbage,that,is,never,read\n'
    elif key == 'nul-in-row':
        st = HDR + body.replace(b'bin/y', b'bin\x00/y')
    elif key == 'blank-line':
        st = HDR + rows[0] + b'\n\n' + b'\n'.join(rows[1:]) + b'\n'
    elif key == 'blank-last':
        st = HDR + body + b'\n'
    elif key == 'header-twice':
        st = HDR + HDR + body
    elif key == 'no-optional-columns':
        st = b'step,name,exit,duration,user,time\n1,bin/x,1,5,root,%d\n2,end,0,700,root,%d\n' % (DAY0 + 86400, DAY0 + 86403)
    elif key == 'permuted-columns':
        st = b'time,log,name,step,exit,duration,delta,user,skip\n%d,002-bin-x.log,bin/x,1,1,5,0,root,0\n' \
             b'%d,003-bin-y.log,bin/y,2,0,5,0,root,0\n%d,,end,3,0,700,0,root,0\n' % (DAY0 + 86400, DAY0 + 86401, DAY0 + 86403)
    elif key == 'unsorted-steps':
        st = HDR + b'\n'.join([rows[3], rows[2], rows[1], rows[0]]) + b'\n'
    elif key == 'missing-log':
        st = HDR + body.replace(b'003-bin-y.log', b'003-absent.log')
    elif key == 'short-row':
        st = HDR + body + b'5,bin/z,0\n'
    elif key == 'long-row':
        st = HDR + body.replace(b',root,', b',root,extra,', 1)
    elif key == 'plus-sign':
        st = HDR + body.replace(b'2,bin/x,1,', b'2,bin/x,+1,')
    elif key == 'leading-zero':
        st = HDR + body.replace(b'2,bin/x,1,', b'2,bin/x,0124,')
    elif key == 'blank-in-number':
        st = HDR + body.replace(b'2,bin/x,1,', b'2,bin/x, 1,')
    elif key == 'hex-number':
        st = HDR + body.replace(b'2,bin/x,1,', b'2,bin/x,0x10,')
    elif key in ('big-4096', 'big-8192', 'big-65536'):
        # the file is exactly that many bytes: non-suite rows fill it, the suite rows and end come last
        n = int(key[4:])
        out, k = [HDR], 0
        tail = b''.join(b'%d,%s,%s' % (9000 + j, [b'bin/x,1,5,0,002-bin-x.log', b'bin/y,0,5,0,003-bin-y.log', b'end,0,700,0,'][j],
                                       b'root,%d,0\n' % (DAY0 + 86400 + 50000)) for j in range(3))
        size = len(HDR) + len(tail)
        while n - size >= 120:
            l = b'%d,fill%d,0,1,0,,root,%d,0\n' % (k + 1, k, DAY0 + 86400 + k)
            out.append(l)
            size += len(l)
            k += 1
        l = b'%d,fill%d,0,1,0,,root,%d,0\n' % (k + 1, k, DAY0 + 86400 + k)
        need = n - size - len(l)
        assert need >= 0
        out.append(b'%d,fill%d%s,0,1,0,,root,%d,0\n' % (k + 1, k, b'p' * need, DAY0 + 86400 + k))
        st = b''.join(out) + tail
        assert len(st) == n, (len(st), n)
    else:
        raise ValueError(key)
    files = [S(b'bin/x', 1, FAILLOG), S(b'bin/y')]
    mid = b_inv(b_date(2), DAY0 + 86400, files, pre=1, step=st)
    return b_case([(b'amd64', [b_inv(b_date(1), DAY0, [S(b'bin/x'), S(b'bin/y')], duration=100), mid,
                               b_inv(b_date(3), DAY0 + 2 * 86400, [S(b'bin/x')], duration=100)])])


def bnd_aux(arg, rng=None):
    """[file, shape]: dmesg / comment / tags empty, absent, without final newline, of exactly 4095..8193 bytes; for tags
    the word cvs ends the file (strstr on the buffer NUL-terminated after the fact)"""
    which, shape = arg
    if shape == 'absent':
        c = None
    elif shape == 'empty':
        c = b''
    elif shape == 'nonl':
        c = b'cvs' if which == 'tags' else b'one line'
    elif shape == 'nul':
        c = b'kernel\x00 cvs\n' if which == 'tags' else b'before\x00after\n'
    else:
        n = int(shape)
        c = _pad_to(n, b' cvs' if which == 'tags' else b'last line\n', line=b'tag%05d' if which == 'tags' else b'dmesg line %05d')
        if which == 'tags':
            c = c.replace(b'\n', b' ')
    return b_case([(b'amd64', [b_inv(b_date(1), DAY0, [S(b'bin/x')], files={which: c}, patches=_j(rng, 2)),
                               b_inv(b_date(2), DAY0 + 86400, [S(b'bin/x', 1, FAILLOG)])])])


def bnd_dirnum(nums, rng=None):
    """invocations DATE.n for the n given, started in that order (DATE.10 is younger than DATE.9 and sorts before it):
    the walk is by name, the columns by time, the arrow compares with the predecessor of the WALK"""
    ents = [b_inv(b'2022-10-24.%d' % n, DAY0 + 3600 * i, [S(b'bin/x')] + ([S(b'bin/y', 1, FAILLOG)] if i % 2 else []),
                  duration=[100, 2000, 100, 5000, 900, 100, 3000][i % 7]) for i, n in enumerate(nums)]
    if rng:
        rng.shuffle(ents)
    return b_case([(b'amd64', ents)])


def bnd_npatches(n, rng=None):
    """n files src.diff.* (the vector of invocation_find; "patches (n)")"""
    return b_case([(b'amd64', [b_inv(b_date(1), DAY0, [S(b'bin/x')], patches=n),
                               b_inv(b_date(2), DAY0 + 86400, [S(b'bin/x')], patches=_j(rng, 1))])])


def bnd_nruns(n, rng=None):
    """one suite recorded in n invocations spread over three arches (suite->runs holds n, in arch-then-name order, and
    is sorted by time), a second suite in every other one"""
    ents = {0: [], 1: [], 2: []}
    for i in range(n):
        su = [S(b'bin/all', 1 if i % 5 == 0 else 0, FAILLOG if i % 5 == 0 else PASSLOG)] + ([S(b'bin/half')] if i % 2 else [])
        ents[i % 3].append(b_inv(b_date(i // 3), DAY0 + 86400 * (i // 3) + 3600 * (i % 3), su, duration=50 * i))
    return b_case([(b'amd64', ents[0]), (b'arm64', ents[1]), (b'sparc64', ents[2])])


BND = {'ninv': bnd_ninv, 'narch': bnd_narch, 'nsuites': bnd_nsuites, 'grid': bnd_grid, 'namelen': bnd_namelen,
       'lognamelen': bnd_lognamelen, 'archlen': bnd_archlen, 'datelen': bnd_datelen, 'names': bnd_names, 'times': bnd_times,
       'durations': bnd_durations, 'exits': bnd_exits, 'exitover': bnd_exitover, 'rate': bnd_rate, 'logsize': bnd_logsize,
       'logshape': bnd_logshape, 'stepshape': bnd_stepshape, 'aux': bnd_aux, 'dirnum': bnd_dirnum, 'npatches': bnd_npatches,
       'nruns': bnd_nruns}


def bnd_tag(cls, arg):
    a = '-'.join(str(x) for x in arg) if isinstance(arg, (list, tuple)) else str(arg)
    return '%s:%s' % (cls, a)


# the boundary cases that ALSO run under the AddressSanitizer build in the quick tier (the thorough tier runs all of them):
# the sizes and counts at or just above a power of two, where a buffer one element short is overrun silently.  The
# sanitizer start-up is expensive in system time (all 240 cases doubled the wall time of the corpus), hence the choice
BND_ASAN = {'namelen:256', 'namelen:1025', 'namelen:4097', 'lognamelen:255', 'archlen:255', 'datelen:255',
            'ninv:16', 'ninv:17', 'ninv:33', 'ninv:65', 'nruns:17', 'nruns:65', 'narch:17', 'npatches:17',
            'nsuites:17-mix', 'nsuites:33-mix', 'nsuites:65-mix', 'nsuites:256-mix',
            'logsize:4097-fail', 'logsize:8192-fail', 'logsize:8193-fail', 'logsize:8193-pass', 'logsize:8193-nonl',
            'logsize:16385-pass', 'aux:dmesg-8193', 'aux:tags-4096', 'aux:tags-8192', 'aux:tags-8193',
            'stepshape:big-8192', 'stepshape:big-65536', 'logshape:long-line', 'logshape:nul'}


def bnd_case(cls, arg, rng=None):
    c = BND[cls](arg, rng)
    c['bnd'] = bnd_tag(cls, arg)
    return c


def corpus_bnd_args(thorough=False):
    """{class: [args]} as listed by corpus/C14/b14_*.json - the generator draws from the same lists"""
    out = {}
    for p in sorted(glob.glob(os.path.join(common.VERIF, 'corpus', 'C14', 'b14_*.json'))):
        j = json.load(open(p))
        out.setdefault(j['bnd'], [])
        out[j['bnd']] += j['args'] + (j.get('slow', []) if thorough else [])
    return out


def gen_bnd(rng, thorough=False):
    """a boundary class drawn from the lists of corpus/C14/b14_*.json (the slow arguments in the thorough tier only), built
    with the generator's rng so that the secondary parameters (order of the suites, extra rows, offsets) vary"""
    table = corpus_bnd_args(thorough)
    if not table:
        raise common.BuildFailure('corpus/C14 holds no boundary class (b14_*.json)')
    cls = rng.choice(sorted(table))
    return bnd_case(cls, rng.choice(table[cls]), rng)


# ---- what a case contains (for the distribution, the non-triviality rule and the signatures) -------------

def features(case):
    invs = []
    for a in case['arches']:
        for e in a['entries']:
            nm = bytes.fromhex(e['name'])
            if e['kind'] != 'dir' or nm.startswith(b'.') or nm == b'attic' or e.get('step') is None:
                continue
            rows = [l.split(b',') for l in bytes.fromhex(e['step']).split(b'\x00')[0].split(b'\n')[1:] if l]
            rows = [r for r in rows if len(r) == 9]
            if not rows:
                continue
            try:
                t = int(rows[0][7])
            except ValueError:
                continue
            suites = [r[1] for r in rows if b'/' in r[1]]
            invs.append((t, suites))
    times = [t for t, _ in invs]
    steptimes = []
    big = False
    for a in case['arches']:
        for e in a['entries']:
            if e['kind'] != 'dir' or not e.get('step'):
                continue
            big = big or any(len(x[1]) // 2 > 8192 for x in e.get('files', []))
            rows = [l.split(b',') for l in bytes.fromhex(e['step']).split(b'\x00')[0].split(b'\n')[1:] if l]
            rows = [r for r in rows if len(r) == 9]
            try:
                t0 = int(rows[0][7]) if rows else None
                steptimes += [(t0, int(r[7])) for r in rows if b'/' in r[1]]
            except ValueError:
                pass
    f = {
        'ninv': len(invs),
        'narch': len(case['arches']),
        'equal_times': len(set(times)) != len(times),
        'dup_suite': any(len(set(s)) != len(s) for _, s in invs),
        'nsuites': len({x for _, s in invs for x in s}),
        'missing_runs': len({frozenset(s) for _, s in invs}) > 1,
        # a suite ran after ANOTHER invocation had started later than its own (arches interleaved in time)
        'overlap': any(t0 is not None and t0 < t <= ts for t0, ts in steptimes for t in times),
        'big_log': big,
    }
    return f


WS = b' \n\t\r\x0c'


def _text_ok(b):
    """HtmlParse.text_okb: not empty, no less-than sign, no white space at either end"""
    return bool(b) and b'<' not in b and b[:1] not in [bytes([c]) for c in WS] and b[-1:] not in [bytes([c]) for c in WS]


def _attr_ok(b):
    """HtmlParse.attr_okb: no double quote"""
    return b'"' not in b


# OUTSIDE THE PROPERTY (AGENT_WAVE3 item 1b).  Argument from the text of C14 in properties.jsonl:
#  * the quantifier lists how the SET OF INVOCATIONS varies ("missing runs, suites removed or added over time, several
#    invocations per day, equal start times, the same suite recorded twice, 1..40 invocations") and adds exactly one
#    free-text dimension, "all log contents".  Log contents never enter index.html (only their classification does);
#    names are not a dimension of the quantifier, and the names that reach the page are made by robsd itself
#    (YYYY-MM-DD.N directories, NNN-name.log) or are OpenBSD source paths and machine names;
#  * the statement speaks of "the rendered table", its columns, rows, cells and links - notions that exist only when the
#    names do not change the markup; html.c escapes nothing, so a name with < or a double quote (or one that a reader
#    trims) leaves no table to judge: C14_index_roundtrip_refuted, findings/C14_html_no_escaping.md (an upstream bug).
# The predicate below is the complement of the hypothesis of C14_index_roundtrip_input (HtmlParse.text_okb / attr_okb
# on the arch, directory and suite names, attr_okb on the log names), evaluated on every directory the program walks
# whether or not its step file turns out to be valid: the cases for which the theorems do not say that reading index.html
# returns the matrix they speak about.  Such a case is counted under `outside: ...`, the
# oracle does not judge it, the correspondence (exit status, bytes of index.html, output tree) still runs.
def markup_names(case):
    """The predicate that puts a case OUTSIDE property C14 (argument above): some arch name, invocation directory
    name or suite name is not a name in the sense of C14_index_roundtrip_input (empty, white space at either end, a
    less-than sign, a double quote), or a log name of a suite holds a double quote.  html.c writes names into the markup
    unescaped, so for such a case index.html does not denote the table the property speaks of.  Returns the reason or
    None.  Only what the program walks counts: directories that are not hidden and not attic."""
    for a in case['arches']:
        arch = bytes.fromhex(a['arch'])
        walked = [e for e in a['entries'] if e['kind'] == 'dir' and not bytes.fromhex(e['name']).startswith(b'.')
                  and bytes.fromhex(e['name']) != b'attic']
        if walked and not (_text_ok(arch) and _attr_ok(arch)):
            return 'arch name'
        for e in walked:
            nm = bytes.fromhex(e['name'])
            if not (_text_ok(nm) and _attr_ok(nm)):
                return 'directory name'
            if not e.get('step'):
                continue
            for l in bytes.fromhex(e['step']).split(b'\x00')[0].split(b'\n')[1:]:
                f = l.split(b',')
                if len(f) == 9 and b'/' in f[1]:
                    if not (_text_ok(f[1]) and _attr_ok(f[1])):
                        return 'suite name'
                    if not _attr_ok(f[5]):
                        return 'log name'
    return None


# ---- encoding for the driver ---------------------------------------------------------------------------------

def hx(h):
    """hex string of the case -> driver token"""
    return h if h else '-'


def input_tokens(case):
    t = [str(len(case['arches']))]
    for a in case['arches']:
        t += [hx(a['arch']), str(len(a['entries']))]
        for e in a['entries']:
            isdir = e['kind'] == 'dir'
            step = e.get('step') if isdir else None
            files = e.get('files', []) if isdir else []
            t += [hx(e['name']), '1' if isdir else '0', '!' if step is None else hx(step), str(len(files))]
            for n, c in files:
                t += [hx(n), hx(c)]
    return t


def hb(s):
    if isinstance(s, str):
        s = s.encode('latin1')
    return hexs(s)


DELTA = {'NONE': 'N', 'FASTER': 'F', 'SLOWER': 'S'}


def column_tokens(c):
    m = re.fullmatch(r'(-?\d+)h(-?\d+)m', c['duration'])
    if not m or c['delta'] not in DELTA:
        raise ValueError('duration cell %r %r' % (c['duration'], c['delta']))
    return [hb(c['rate']), hb(c['date']), m.group(1), m.group(2), DELTA[c['delta']],
            '!' if c['cvs'] is None else hb(c['cvs']),
            '!' if c['patches'] is None else '%d:%s' % (c['patches'][0], hb(c['patches'][1])),
            hb(c['arch']), hb(c['dmesg'])]


def obs_tokens(rc, matrix, tree):
    t = [str(rc if 0 <= rc < 256 else 255)]
    if matrix is None:
        return t + ['0', '0', '0']
    t.append(str(len(matrix['columns'])))
    for c in matrix['columns']:
        t += column_tokens(c)
    t.append(str(len(matrix['rows'])))
    for r in matrix['rows']:
        t += [hb(r['suite']), hb(r['href'] or ''), str(len(r['cells']))]
        for c in r['cells']:
            t.append('!' if c is None else ':'.join(hb(x or '') for x in c))
    t.append(str(len(tree)))
    for p in sorted(tree):
        t += [hb(os.fsencode(p)), '!' if tree[p] is None else hexs(tree[p])]
    return t


def judge_tokens(rc, index, tree):
    """exit status, bytes of index.html (None: no such file), output tree"""
    t = [str(rc if 0 <= rc < 256 else 255), '!' if index is None else hexs(index), str(len(tree))]
    for p in sorted(tree):
        t += [hb(os.fsencode(p)), '!' if tree[p] is None else hexs(tree[p])]
    return t


def matrix_tokens(matrix):
    """the python reading of the page in the form the driver prints the strict reader's (M ...)"""
    t = ['M', str(len(matrix['columns']))]
    for c in matrix['columns']:
        t += column_tokens(c)
    t.append(str(len(matrix['rows'])))
    for r in matrix['rows']:
        t += [hb(r['suite']), hb(r['href'] or ''), str(len(r['cells']))]
        for c in r['cells']:
            t.append('!' if c is None else ':'.join(hb(x or '') for x in c))
    return ' '.join(t)


def parse_report(tok):
    """'r suitehex:ok:sound:once:noties ...' -> list of dicts; '!' -> None"""
    t = tok.split(' ')
    if t[0] != 'r':
        return None
    out = []
    for x in t[1:]:
        sh, ok, sound, once, noties = x.split(':')
        out.append({'suite': bytes.fromhex(sh if sh != '-' else ''), 'ok': ok == '1', 'sound': sound == '1',
                    'once': once == '1', 'noties': noties == '1'})
    return out


def canon_impl(rc, matrix, tree):
    """the implementation's observation in the textual form the driver prints for the model"""
    if rc != 0 or matrix is None:
        return {'exit': 1 if rc == 1 else rc}
    cols = [' '.join(column_tokens(c)) for c in matrix['columns']]
    rows = []
    for r in matrix['rows']:
        cells = ['!' if c is None else '%s:%s' % (c[0], hb(c[2] or '')) for c in r['cells']]
        if any(c is not None and c[0] != c[1] for c in r['cells']):
            cells.append('class-differs-from-text')
        rows.append([hb(r['suite']), cells, r['href']])
    tr = {hb(os.fsencode(p)): ('!' if v is None else hexs(v)) for p, v in tree.items()}
    return {'exit': 0, 'cols': cols, 'rows': rows, 'tree': tr}


def parse_model(line):
    t = line.split(' ')
    if t[0] == 'E1':
        return {'exit': 1}
    if t[0] != 'E0':
        raise ValueError('model said: ' + line[:200])
    i = 1
    n = int(t[i]); i += 1
    cols = []
    for _ in range(n):
        cols.append(' '.join(t[i:i + 9])); i += 9
    n = int(t[i]); i += 1
    rows = []
    for _ in range(n):
        suite, kind, k = t[i], t[i + 1], int(t[i + 2]); i += 3
        rows.append([suite, t[i:i + k], kind]); i += k
    n = int(t[i]); i += 1
    tree = {}
    for _ in range(n):
        tree[t[i]] = t[i + 1]; i += 2
    return {'exit': 0, 'cols': cols, 'rows': rows, 'tree': tree}


CVSWEB = 'https://cvsweb.openbsd.org/cgi-bin/cvsweb/src/regress/'


def compare(model, impl, asan_abort):
    """list of differences; rows the model marks OOB are compared up to the cells rendered before the read"""
    d = []
    oob = model.get('exit') == 0 and any(r[2] == 'O' for r in model['rows'])
    if asan_abort:
        if not oob:
            d.append('implementation aborted under the sanitizer, model has no out-of-bounds read')
        return d, oob
    if model['exit'] != impl['exit']:
        return ['exit: model %s impl %s' % (model['exit'], impl['exit'])], oob
    if model['exit'] != 0:
        return d, oob
    if model['cols'] != impl['cols']:
        d.append('columns: model %r impl %r' % (model['cols'][:4], impl['cols'][:4]))
    if [r[0] for r in model['rows']] != [r[0] for r in impl['rows']]:
        d.append('suites: model %r impl %r' % ([r[0] for r in model['rows']][:8], [r[0] for r in impl['rows']][:8]))
    else:
        for mr, ir in zip(model['rows'], impl['rows']):
            if mr[2] == 'O':
                if ir[1][:len(mr[1])] != mr[1]:
                    d.append('row %s (until the out-of-bounds read): model %r impl %r' % (mr[0], mr[1], ir[1]))
            elif mr[1] != ir[1]:
                d.append('row %s: model %r impl %r' % (mr[0], mr[1], ir[1]))
            want = CVSWEB + bytes.fromhex(mr[0] if mr[0] != '-' else '').decode('latin1')
            if ir[2] != want:
                d.append('row %s: suite link %r' % (mr[0], ir[2]))
    if model['tree'] != impl['tree']:
        ks = sorted(set(model['tree']) ^ set(impl['tree']))
        diff = [k for k in model['tree'] if k in impl['tree'] and model['tree'][k] != impl['tree'][k]]
        d.append('output tree: only one side has %r; contents differ at %r' % (
            [bytes.fromhex(k).decode('latin1') for k in ks[:4]], [bytes.fromhex(k).decode('latin1') for k in diff[:4]]))
    return d, oob


# ---- running ---------------------------------------------------------------------------------------------------

def run_one(binary, work, idx, case, tag='', rerun=False):
    root = os.path.join(work, 'c%s%d' % (tag, idx))
    os.makedirs(root)
    try:
        env = dict(os.environ)
        env['ASAN_OPTIONS'] = 'detect_leaks=0:abort_on_error=0:exitcode=99'
        rc, err, out = fx.run_impl(binary, root, case, env=env)
        matrix = None
        perr = None
        index = None
        idxp = os.path.join(out, 'index.html')
        if os.path.exists(idxp):
            index = open(idxp, 'rb').read()
            try:
                matrix = fx.parse_index(index)
            except ValueError as e:
                perr = str(e)
        tree = fx.read_tree(out) if rc == 0 else {}
        ob = {'rc': rc, 'err': fx.classify_stderr(err), 'stderr': err[-400:].decode('latin1'),
              'matrix': matrix, 'tree': tree, 'parse_error': perr, 'index': index, 'rerun': None}
        if rerun and rc == 0:
            # a second generation into the populated output directory
            before = dict(tree)
            r2 = subprocess.run([binary.encode(), b'-o', out.encode()] + fx.arch_args(root, case), stdout=subprocess.PIPE,
                                stderr=subprocess.PIPE, timeout=60, env=env)
            after = fx.read_tree(out)
            index2 = open(idxp, 'rb').read() if os.path.exists(idxp) else None
            ob['rerun'] = {'rc': r2.returncode, 'err': fx.classify_stderr(r2.stderr),
                           'untouched': after == before and index2 == index}
        return ob
    finally:
        shutil.rmtree(root, ignore_errors=True)


def run_driver_par(drv, qs, nproc=6):
    """common.run_driver over several driver processes: the questions are dealt out by length (the model's cost grows
    with the input, the boundary classes hold a few big ones), the answers come back in the order of the questions"""
    if len(qs) < 2 * nproc:
        nproc = max(1, len(qs) // 2)
    order = sorted(range(len(qs)), key=lambda i: -len(qs[i]))
    bins = [[] for _ in range(nproc)]
    load = [0] * nproc
    for i in order:
        k = load.index(min(load))
        bins[k].append(i)
        load[k] += len(qs[i]) * len(qs[i]) // 4096 + len(qs[i]) + 64      # a quadratic share: long inputs weigh more
    ans = [None] * len(qs)
    with ThreadPoolExecutor(nproc) as ex:
        for b, out in zip(bins, ex.map(lambda b: common.run_driver(drv, [qs[i] for i in b], timeout=1800) if b else [], bins)):
            for i, a in zip(b, out):
                ans[i] = a
    return ans


def load_corpus(thorough=False):
    """corpus/C14/*.json, in name order; they run first.  Every fixed:/known entry of known_findings.json for C14 names
    its replay here, so a missing or empty directory is a broken check, not an empty list."""
    d = os.path.join(common.VERIF, 'corpus', 'C14')
    if not os.path.isdir(d):
        raise common.BuildFailure('corpus directory %s is missing' % d)
    paths = sorted(glob.glob(os.path.join(d, '*.json')))
    if not paths:
        raise common.BuildFailure('corpus directory %s holds no case' % d)
    known = common.load_known()
    want = set()
    for k in known.get('known', []):
        if k.get('property') == 'C14':
            want |= set(re.findall(r'(\d\d_[A-Za-z0-9_]+\.json)', k.get('what', '')))
    for f in known.get('fixed', []):
        if isinstance(f, str) and 'property=C14' in f:
            want |= set(re.findall(r'(\d\d_[A-Za-z0-9_]+\.json)', f))
    missing = sorted(want - {os.path.basename(x) for x in paths})
    if missing:
        raise common.BuildFailure('corpus/C14 lacks the replay(s) known_findings.json names: %s' % ', '.join(missing))
    out = []
    for x in paths:
        j = json.load(open(x))
        if 'bnd' in j and 'arches' not in j:
            # a boundary class in compact form: one case per argument; `slow` arguments (the extracted model needs more
            # than a few seconds for them) run in the thorough tier only
            for a in j['args'] + (j.get('slow', []) if thorough else []):
                out.append(bnd_case(j['bnd'], a))
        else:
            out.append(j)
    return out


def row_signatures(report, matrix):
    """the cell clause, row by row (C14_oracle_clause6_is_per_row, C14_oracle_row_accepts_model): one (signature, what)
    per kind of failing row.  Only a row whose OWN suite violates the guard, and that is still sound, is the known finding."""
    out = []
    seen = set()
    ncols = len((matrix or {}).get('columns', []))
    lens = {}
    for r in (matrix or {}).get('rows', []):
        lens.setdefault(r['suite'].encode('latin1'), len(r['cells']))
    for r in report:
        nm = r['suite'].decode('latin1')
        guard = r['once'] and r['noties']
        if r['ok'] and r['sound']:
            continue
        if guard:
            sig = SIG_GUARDED
            what = ('row %r: a cell does not show the status/link of the run of its suite in its invocation, although the '
                    'suite is recorded at most once per invocation and its invocations share their start time with no other' % nm)
        elif not r['sound']:
            if lens.get(r['suite'], 0) > ncols and not r['once']:
                continue        # clause 7 reports the overlong row of a suite recorded twice (column-pointer-out-of-bounds)
            sig = SIG_UNSOUND
            what = ('row %r: a cell shows something that is not the status and arch/date/log link of a run of this suite '
                    'in a column no newer than that run, or the row is longer than the header' % nm)
        else:
            why = 'the suite is recorded twice in one invocation' if not r['once'] else \
                'an invocation in which the suite ran shares its start time with another invocation'
            sig = SIG_WRONG
            what = ('row %r: a run is shown under another invocation (%s: runs are matched to columns by start time only)'
                    % (nm, why))
        if sig not in seen:
            seen.add(sig)
            out.append((sig, what))
    return out


def signatures(case, feat, clauses, ob, rates, asan, report):
    """one (signature, what) per failed clause; the verdict itself is the extracted oracle's"""
    out = []
    for c in clauses:
        if c == 1:
            out.append(('exit-status', 'exit status %s where the specification says otherwise (%s)' % (ob['rc'], ob['err'])))
        elif c == 2:
            out.append(('columns-not-invocations-by-time', 'the header columns are not the invocations in descending start-time order'))
        elif c == 3:
            out.append(('header-field', 'a date/duration/arrow/changelog/patches/architecture cell differs from the invocation'))
        elif c == 4:
            off = []
            for col in (ob['matrix'] or {}).get('columns', []):
                k = (col['arch'], col['date'])
                if k in rates and col['rate'] != '%d%%' % rates[k][2]:
                    off.append((col['rate'], rates[k]))
            if off and all(r == '%d%%' % (x[2] - 1) and x[0] > 0 and (100 * (x[0] - x[1])) % x[0] == 0 for r, x in off):
                r, x = off[0]
                out.append((SIG_RATE, 'pass rate of an invocation with %d suites of which %d fail shown as %s, '
                            'floor(100*(total-fail)/total) = %d%%' % (x[0], x[1], r, x[2])))
            else:
                out.append(('pass-rate-wrong', 'pass rate differs from floor(100*(total-fail)/total): %r' % off[:3]))
        elif c == 5:
            out.append(('suite-order', 'the rows are not the suites with failing suites first (by failures, then name), then passing, then ../'))
        elif c == 6:
            pass            # judged row by row below
        elif c == 7:
            # an overlong row is the repaired defect D9 only when ITS suite is recorded twice in one invocation
            ncols = len((ob['matrix'] or {}).get('columns', []))
            twice = {r['suite'] for r in (report or []) if not r['once']}
            long_rows = [r['suite'].encode('latin1') for r in (ob['matrix'] or {}).get('rows', []) if len(r['cells']) > ncols]
            if long_rows and all(x in twice for x in long_rows):
                out.append((SIG_OOB, 'a row has more cells than there are columns: the column pointer of render_suite '
                            'ran past the last invocation (row %r: the same suite twice in one invocation)' % long_rows[0].decode('latin1')))
            else:
                out.append(('row-longer-than-header', 'a row has more cells than there are columns'))
        elif c == 8:
            out.append(('output-tree', 'the files below the output directory are not the specified copies'))
    out += row_signatures(report or [], ob['matrix'])
    if asan:
        if feat['dup_suite'] and 'render_suite' in asan:
            out.append((SIG_OOB, 'AddressSanitizer: %s (the same suite twice in one invocation)' % asan))
        else:
            out.append(('sanitizer-report', 'AddressSanitizer: %s' % asan))
    return out


def check_self(res, slf, slfrows, pg, feat, outside):
    """the oracle and the reader applied to the MODEL's own page: executed forms of the theorems; a mismatch is a tie error"""
    rep = parse_report(slfrows)
    if slf not in ('ok', '6'):
        res.tie_errors.append('oracle applied to the model\'s own page says %r (C14_oracle_accepts_model_partial: ok or 6); '
                              'features %r' % (slf[:40], feat))
    if rep is not None:
        res.count('self-lane-rows', len(rep))
        bad = [r for r in rep if not r['sound'] or (r['once'] and r['noties'] and not r['ok'])]
        if bad:
            res.tie_errors.append('C14_oracle_row_accepts_model fails on the model\'s own page: row %r sound=%s guard=%s ok=%s'
                                  % (bad[0]['suite'], bad[0]['sound'], bad[0]['once'] and bad[0]['noties'], bad[0]['ok']))
        if (slf == '6') != any(not r['ok'] for r in rep):
            res.tie_errors.append('C14_oracle_clause6_is_per_row fails on the model\'s own page: spec_check says %r, rows %r'
                                  % (slf, [(r['suite'], r['ok']) for r in rep][:6]))
        if slf == '6':
            res.count('model-page-fails-clause-6')
    elif slf == '6':
        res.tie_errors.append('the model\'s page fails clause 6 but there is no row report')
    if pg != '!':
        _h, safe, rt = pg.split(' ')
        res.count('model-page-safe=%s roundtrip=%s' % (safe, rt))
        if safe == '1' and rt != 'R':
            res.tie_errors.append('C14_index_roundtrip fails: page_safeb holds and the reader says %s on the model\'s bytes' % rt)
        if outside is None and safe != '1':
            res.tie_errors.append('C14_index_roundtrip_input fails: the names of the case are plain and page_safeb is false')


def evaluate(ctx, cases, res, impl, asan_impl=None, asan_streams=('dup',), rerun_every=5, asan_all_bnd=False):
    drv = ctx.build_driver('ht', withz=True)
    work = ctx.mkscratch('c14work')
    # the extracted list functions are not tail recursive: a page of 65 x 65 runs (640 KB) overflows the 8 MiB stack in
    # page_bytes ("EXN Stack overflow"); the driver is started with the stack limit lifted
    wrap = os.path.join(work, 'ht_unlimited')
    if not os.path.exists(wrap):
        with open(wrap, 'w') as fh:
            fh.write('#!/bin/sh\nulimit -s unlimited 2>/dev/null || ulimit -s 4000000 2>/dev/null\nexec "%s"\n' % drv)
        os.chmod(wrap, 0o755)
    drv = wrap
    binary = os.path.join(impl, 'robsd-regress-html')
    with ThreadPoolExecutor(8) as ex:
        obs = list(ex.map(lambda ic: run_one(binary, work, ic[0], ic[1], rerun=(ic[0] % rerun_every == 0)), enumerate(cases)))
        aobs = [None] * len(cases)
        if asan_impl:
            ab = os.path.join(asan_impl, 'robsd-regress-html')
            idx = [i for i, c in enumerate(cases) if c.get('stream') in asan_streams and
                   (c.get('stream') != 'bnd' or asan_all_bnd or c.get('bnd') in BND_ASAN)]
            for i, o in zip(idx, ex.map(lambda i: run_one(ab, work, i, cases[i], 'a'), idx)):
                aobs[i] = o
    qs = []
    for c, ob in zip(cases, obs):
        it = input_tokens(c)
        qs.append(' '.join(['run'] + it))
        qs.append(' '.join(['rates'] + it))
        qs.append(' '.join(['self'] + it))
        qs.append(' '.join(['selfrows'] + it))
        qs.append(' '.join(['page'] + it))
        qs.append(' '.join(['judge'] + it + judge_tokens(ob['rc'], ob['index'] if ob['rc'] == 0 else None, ob['tree'])))
    ans = run_driver_par(drv, qs)
    K = 6
    for i, (c, ob) in enumerate(zip(cases, obs)):
        m, rt, slf, slfrows, pg, jd = ans[K * i:K * i + K]
        res.evaluations += 1
        feat = features(c)
        outside = markup_names(c)
        check_self(res, slf, slfrows, pg, feat, outside)
        res.count('stream=' + c.get('stream', 'corpus'))
        if c.get('bnd'):
            res.count('class: ' + c['bnd'])
        res.count('arches=%d' % feat['narch'])
        res.count('invocations=%s' % (feat['ninv'] if feat['ninv'] < 8 else '8-63' if feat['ninv'] < 64 else '64+'))
        res.count('exit=%s' % ob['rc'])
        if ob['rc'] != 0:
            res.count('error=' + ob['err'])
        for k in ('equal_times', 'dup_suite', 'missing_runs', 'overlap', 'big_log'):
            if feat.get(k):
                res.count(k)
        if ob['matrix'] and outside is None:
            for r in ob['matrix']['rows']:
                for cell in r['cells']:
                    res.count('cell=' + ('empty' if cell is None else cell[0]))
        # ---- the rerun lane (observed, not part of the property: the note says so) ----
        if ob['rerun'] is not None and feat['ninv'] >= 1:
            res.count('rerun-lane')
            rr = ob['rerun']
            if rr['rc'] != 1 or rr['err'] != 'mkdir' or not rr['untouched']:
                res.tie_errors.append('second generation into the populated output directory: exit %s (%s), output %s - '
                                      'the note says: exit 1 at the first mkdir, nothing touched'
                                      % (rr['rc'], rr['err'], 'untouched' if rr['untouched'] else 'CHANGED'))
        # ---- correspondence: exit status, bytes of index.html, tree ----
        try:
            model = parse_model(m)
        except ValueError as e:
            res.disagreements.append({'case': c, 'model': str(e), 'impl': ''})
            continue
        diffs = []
        mbytes = None if pg == '!' else bytes.fromhex(pg.split(' ')[0].replace('-', ''))
        if ob['rc'] == 0 and model['exit'] == 0:
            res.count('index-compared-bytewise')
            if mbytes != ob['index']:
                k = next((j for j, (x, y) in enumerate(zip(mbytes or b'', ob['index'] or b'')) if x != y),
                         min(len(mbytes or b''), len(ob['index'] or b'')))
                diffs.append('index.html differs from the model at byte %d: model %r impl %r'
                             % (k, (mbytes or b'')[max(0, k - 40):k + 40], (ob['index'] or b'')[max(0, k - 40):k + 40]))
        if ob['rc'] != 0 and ob['index'] is not None:
            diffs.append('exit %s but an index.html was written (the model writes none: HtmlPage.index_bytes)' % ob['rc'])
        if outside is not None:
            # names that change the markup: nothing is parsed, only exit status, bytes and tree are compared
            res.count('outside: %s empty, with white space at an end, with < or a double quote (html.c does not escape)' % outside)
            iexit = ob['rc'] if ob['rc'] in (0, 1) else ob['rc']
            if model['exit'] != iexit:
                diffs.append('exit: model %s impl %s' % (model['exit'], iexit))
            elif iexit == 0:
                itree = {hb(os.fsencode(p_)): ('!' if v is None else hexs(v)) for p_, v in ob['tree'].items()}
                if model['tree'] != itree:
                    diffs.append('output tree differs (case with markup in names)')
            if diffs:
                res.disagreements.append({'case': c, 'model': m[:400], 'impl': diffs[:4], 'stderr': ob['stderr'][-200:]})
            continue
        if ob['parse_error'] and not jd.startswith('F'):
            res.tie_errors.append('the python reading of index.html fails (%s) where the strict reader succeeds' % ob['parse_error'])
            continue
        impl_c = canon_impl(ob['rc'], ob['matrix'], ob['tree'])
        d2, oob = compare(model, impl_c, False) if not ob['parse_error'] else ([], False)
        diffs += d2
        if oob:
            res.count('model-out-of-bounds-read')
        a = aobs[i]
        asan_report = None
        if a is not None:
            res.count('asan-runs')
            if a['err'].startswith('asan:'):
                asan_report = a['err'][5:]
                res.count('asan-report')
                d2, _ = compare(model, None, True)
                diffs += d2
            else:
                d2, _ = compare(model, canon_impl(a['rc'], a['matrix'], a['tree']), False)
                diffs += ['(sanitizer build) ' + x for x in d2]
                if a['rc'] == 0 and model['exit'] == 0 and a['index'] != mbytes:
                    diffs.append('(sanitizer build) index.html differs from the model')
        if diffs:
            res.disagreements.append({'case': c, 'model': m[:400], 'impl': diffs[:4], 'stderr': ob['stderr'][-200:]})
        # ---- the oracle on what the implementation did ----
        rates = {}
        if rt.startswith('v'):
            for tok in rt.split(' ')[1:]:
                ident, tot, fl, sr, _tm = tok.split(':')
                ah, dh = ident.split('/')
                rates[(bytes.fromhex(ah if ah != '-' else '').decode('latin1'), bytes.fromhex(dh if dh != '-' else '').decode('latin1'))] = (int(tot), int(fl), int(sr))
        res.count('oracle-judged')
        if jd.startswith('F') and len(jd) <= 3:
            stage = {'F1': 'tokens (a malformed tag, a duplicate attribute)', 'F2': 'nesting (an element not closed in order, a stray end tag)',
                     'F3': 'shape (not the document regress-html.c writes: unexpected element, attribute or cell)'}.get(jd, jd)
            res.oracle_failures.append({'case': c, 'signature': SIG_MALFORMED,
                                        'what': 'the strict reader rejects index.html at stage %s' % stage,
                                        'impl': {'exit': ob['rc'], 'stderr': ob['err']}})
            continue
        parts = jd.split(' | ')
        if len(parts) != 3 or not parts[1].startswith('C ') or not parts[2].startswith('R '):
            res.tie_errors.append('oracle: driver answered %r' % jd[:200])
            continue
        mtx, chk, rep = parts[0], parts[1][2:], parse_report(parts[2][2:])
        if mtx.startswith('M') and ob['matrix'] is not None:
            res.count('readers-cross-checked')
            try:
                same = matrix_tokens(ob['matrix']) == mtx
            except ValueError as e:
                same = False
            if not same:
                res.tie_errors.append('the strict reader (HtmlParse.parse_index) and the python reading of index.html differ '
                                      'on a case whose names are plain')
        clauses = [] if chk == 'ok' else [int(x) for x in chk.split(',')] if re.fullmatch(r'[\d,]+', chk) else [0]
        if clauses == [0]:
            res.tie_errors.append('oracle: driver answered %r' % chk[:200])
            clauses = []
        if 6 in clauses and not (rep and any(not r['ok'] for r in rep)):
            res.tie_errors.append('clause 6 without a failing row in the report (C14_oracle_clause6_is_per_row)')
        if ob['rc'] not in (0, 1) and 1 not in clauses:
            clauses.append(1)
        for sig, what in signatures(c, feat, clauses, ob, rates, asan_report, rep):
            res.oracle_failures.append({'case': c, 'signature': sig, 'what': what,
                                        'impl': {'exit': ob['rc'], 'stderr': ob['err']}})
        if ob['rc'] == 0 and feat['ninv'] >= 2 and feat['nsuites'] >= 2 and feat['missing_runs']:
            res.nontrivial.add(hashlib.sha1(json.dumps(c['arches'], sort_keys=True).encode()).hexdigest())
    return res


# ---- leaf functions ---------------------------------------------------------------------------------------------------

LEAF_OBJS = ['arithmetic', 'arena', 'arena-buffer', 'buffer', 'consistency', 'html', 'interpolate', 'invocation', 'lexer',
             'log', 'map', 'regress-log', 'step', 'vector']


def leaf_check(ctx, res, impl):
    drv = ctx.build_driver('ht', withz=True)
    exe = os.path.join(impl, 'html_leaf')
    objs = [os.path.join(impl, o + '.o') for o in LEAF_OBJS] + sorted(glob.glob(os.path.join(impl, 'compat-*.o'))) + \
        sorted(glob.glob(os.path.join(impl, 'verif*.o')))
    r = common.sh(['cc', '-Wno-error', '-DROBSD_VERIF', '-I' + impl, '-o', exe,
                   os.path.join(common.VERIF, 'harness', 'html_leaf.c')] + objs)
    if r.returncode != 0:
        res.tie_errors.append('leaf harness does not build against regress-html.c: ' + r.stdout[-600:])
        return
    maxt = ctx.budget(70, 400)
    lines = []
    for what in (['rate', str(maxt)], ['delta'], ['status'], ['duration'], ['cmp']):
        p = subprocess.run([exe] + what, stdout=subprocess.PIPE, stderr=subprocess.PIPE, timeout=300)
        if p.returncode != 0:
            res.tie_errors.append('leaf harness %s failed: %s' % (what, p.stderr[-300:]))
            return
        lines += p.stdout.decode('latin1').splitlines()
    qs, want = [], []
    statuses = []
    for l in lines:
        t = l.split(' ')
        if t[0] == 'r':
            qs.append('rate %s %s' % (t[1], t[2])); want.append(('rate', t[3].rstrip('%'), l))
        elif t[0] == 'd':
            qs.append('delta %s %s' % (t[1], t[2])); want.append(('plain', t[3], l))
        elif t[0] == 'u':
            m = re.fullmatch(r'(-?\d+)h(-?\d+)m<span></span>', t[2])
            qs.append('dur ' + t[1]); want.append(('plain', '%s %s' % (m.group(1), m.group(2)) if m else '?', l))
        elif t[0] == 'c' and t[1] in ('inv', 'run'):
            qs.append('cmpt %s %s' % (t[2], t[3])); want.append(('cmp' + t[1], t[4], l))
        elif t[0] == 'c' and t[1] == 'suite':
            na = t[4][:-1] or '-'
            nb = t[5][:-1] or '-'
            qs.append('cmps %s %s %s %s' % (t[2], t[3], na, nb)); want.append(('plain', t[6], l))
        elif t[0] == 's':
            statuses.append('%s:%s' % (t[2], t[3]))
    qs.append('statuses'); want.append(('plain', ' '.join(statuses), 'status table'))
    ans = common.run_driver(drv, qs)
    bad = 0
    for a, (kind, w, l) in zip(ans, want):
        res.count('leaf=' + kind.replace('cmpinv', 'cmp').replace('cmprun', 'cmp'))
        if kind == 'rate':
            got = a.split(' ')[2]            # the variant the source has
        elif kind == 'cmpinv':
            got = a.split(' ')[0]
        elif kind == 'cmprun':
            got = a.split(' ')[1]
        else:
            got = a
        if got != w:
            bad += 1
            if bad <= 5:
                res.disagreements.append({'case': {'leaf': l}, 'model': a, 'impl': w})
    res.extra['leaf_evaluations'] = len(want)


# ---- entry points ---------------------------------------------------------------------------------------------------

def run(ctx, n=None, streams=None):
    res = common.Result()
    res.rule = ('trees generated per stream (plain: distinct start times, one run per suite and invocation; tie: equal '
                'start times across invocations; dup: a suite recorded twice in an invocation, incl. 16 invocations so '
                'that the vector is full; error: one invalid invocation; wide: 16-70 invocations (the vector grows at 16, 32 '
                'and 64); overlap: 2-4 arches started within minutes of each other, steps minutes to hours apart, so that a '
                'suite runs after another arch\'s invocation has started; special: suite and log names '
                'with &, quote, semicolon, blank, tab, %, #, ?, UTF-8; markup: names with <, double quote or white space at an '
                'end (outside the property: compared byte for byte, not judged); many: 30-80 suites; biglog: one log above '
                '8 KiB; bnd: the boundary classes of corpus/C14/b14_*.json - counts 0/1/15-17/31-33/63-65/256 of invocations, '
                'arches, suites, runs and patches, names of 1..4097 bytes (suite) and up to NAME_MAX (log, arch, directory), '
                'prefix / case / byte-order related names, the five markup characters first and last, start times, durations '
                'and exit codes at 0, 2^31, 2^32, 2^63 and 2^31 / 2^32 apart, pass rates 0/1 .. 199/200, logs of exactly '
                '0..16385 bytes and log / step.csv / dmesg / comment / tags shapes; each printed as `class: ...`), '
                '1-4 arch arguments, '
                'suites drifting over time, several invocations per day, exit codes incl. 124, logs with every marker '
                'kind, tags/dmesg/comment/patches present or not, attic/hidden/plain-file entries; non-trivial = exit 0 '
                'with at least two invocations, two suites and invocations that differ in the suites they ran, names plain; '
                'distinct by content hash')
    n = n or ctx.budget(220, 3000)
    mix = streams or (['plain'] * 7 + ['tie'] * 4 + ['dup'] * 3 + ['error'] * 3 + ['wide'] * 1 + ['special'] * 2 + ['many'] * 1 +
                      ['overlap'] * 3 + ['markup'] * 1 + ['bnd'] * 2)
    thorough = ctx.tier == 'thorough'
    fixed = [] if streams else [gen_case(ctx.rng, 'wide', {'ninv': 65}), gen_case(ctx.rng, 'biglog'),
                                gen_case(ctx.rng, 'overlap'), gen_case(ctx.rng, 'markup')]
    cases = load_corpus(thorough) + fixed + [gen_case(ctx.rng, mix[i % len(mix)], {'thorough': thorough} if mix[i % len(mix)] == 'bnd' else None)
                                             for i in range(n)]
    res.samples = [{'stream': c.get('stream'), 'features': features(c)} for c in cases[:4]]
    res.assumptions = ['boundary classes are capped where the extracted list model gets slow: suite names 4097 bytes (16385 in the '
                       'thorough tier; 65536 would take minutes), logs 16385 bytes (64 KiB + 1 thorough; a block above the 1 MiB '
                       'scratch of regress_log_parse is out of reach), 256 suites per invocation, 1000 suites for a pass rate '
                       '(thorough; n/65536 only in the leaf harness), 65 x 65 runs per page (thorough); names of path components '
                       'stop at NAME_MAX',
                       'up to 70 invocations and 80 suites per case in the correspondence (the theorems have no bound); '
                       'names from [A-Za-z0-9/._-] except in the special and markup streams; start times distinct unless the '
                       'stream says otherwise']
    impl = ctx.build_impl()
    asan = ctx.build_impl('-fsanitize=address -g', cc='clang', ldflags='-fsanitize=address')
    leaf_check(ctx, res, impl)
    # the boundary classes also run under the sanitizer build: a buffer that is one byte short is silent without it
    streams_asan = ('dup', 'bnd') if ctx.tier != 'thorough' else ('plain', 'tie', 'dup', 'error', 'wide', 'overlap', 'biglog', 'bnd', None)
    chunk = 500
    for i in range(0, len(cases), chunk):
        evaluate(ctx, cases[i:i + chunk], res, impl, asan, streams_asan, asan_all_bnd=thorough)
    res.traces_validated = res.evaluations
    # a lane that produced no verdict is a broken check, not a pass
    d = res.distribution
    need = [('oracle-judged', 'no case reached the oracle'), ('index-compared-bytewise', 'no index.html was compared with the model'),
            ('readers-cross-checked', 'the strict reader was never cross-checked'), ('self-lane-rows', 'the self lane judged no row'),
            ('asan-runs', 'nothing ran under the sanitizer build'), ('rerun-lane', 'the rerun lane never ran')]
    if not streams:
        if not any(k.startswith('class: ') for k in d):
            res.tie_errors.append('vacuous lane: no boundary class ran (corpus/C14/b14_*.json)')
        need += [('invocations=64+', 'no case with 64 or more invocations'), ('big_log', 'no log above 8 KiB'),
                 ('overlap', 'no case with invocations of different arches interleaved in time'),
                 ('equal_times', 'no case with equal start times'), ('dup_suite', 'no case with a suite recorded twice')]
        if not any(k.startswith('outside: ') for k in d):
            res.tie_errors.append('no case outside the property was generated (markup stream)')
    for k, why in need:
        if not d.get(k):
            res.tie_errors.append('vacuous lane: ' + why)
    if not res.extra.get('leaf_evaluations') and not res.tie_errors:
        res.tie_errors.append('vacuous lane: the leaf harness compared nothing')
    return res


def extended_search(ctx, res, proof):
    return run(ctx, n=1500)


def replay(ctx, rep):
    case = rep if 'arches' in rep else (rep.get('case') or (rep.get('first_disagreements') or [{}])[0].get('case'))
    if case is None or 'arches' not in case:
        print(json.dumps(rep, indent=1)[:3000])
        return 1
    res = common.Result()
    impl = ctx.build_impl()
    asan = ctx.build_impl('-fsanitize=address -g', cc='clang', ldflags='-fsanitize=address')
    evaluate(ctx, [case], res, impl, asan, (case.get('stream'),), rerun_every=1, asan_all_bnd=True)
    print('features:', features(case), 'outside:', markup_names(case))
    print('disagreements:', json.dumps(res.disagreements, indent=1)[:3000])
    print('tie errors:', res.tie_errors)
    print('oracle failures:', [(f['signature'], f['what']) for f in res.oracle_failures])
    unknown = [f for f in res.oracle_failures if not common.match_known('C14', f['signature'])]
    return 1 if (res.disagreements or unknown or res.tie_errors) else 0
